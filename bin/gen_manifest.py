#!/usr/bin/env python3
"""Generate /verif/MANIFEST.json and bin/properties.map from bin/checks.json.

checks.json: { "<id>": {"crate": "...", "category": "...", "text": "...", "note": "...",
                        "technique": "...", "engine": "...", "design_ref": "..."} }
Every property of properties.jsonl that is not in checks.json is listed under not_applicable
with the reason from bin/not_applicable.json (default: harness not built yet).
"""
import json, os, subprocess, sys

ROOT = os.path.dirname(os.path.dirname(os.path.abspath(__file__)))
checks = json.load(open(os.path.join(ROOT, "bin/checks.json")))
import glob
# Fragments written by harness authors.  All of them are dispatchable (properties.map), but only
# crates listed in bin/accepted_crates.txt (reviewed, run on the unchanged tree) enter MANIFEST.json.
accepted = set(open(os.path.join(ROOT, "bin/accepted_crates.txt")).read().split()) if os.path.exists(os.path.join(ROOT, "bin/accepted_crates.txt")) else set()
pending = {}
for frag in sorted(glob.glob(os.path.join(ROOT, "harness/vh-*/checks.json"))):
    try:
        d = json.load(open(frag))
        crate = os.path.basename(os.path.dirname(frag))
        if crate in accepted:
            checks.update(d)
        else:
            pending.update(d)
    except Exception as e:
        print("bad fragment", frag, e)
na_path = os.path.join(ROOT, "bin/not_applicable.json")
na_reasons = json.load(open(na_path)) if os.path.exists(na_path) else {}
props = [json.loads(l) for l in open(os.path.join(ROOT, "properties.jsonl")) if l.strip()]
ids = [p["id"] for p in props]

def repo_hook_commits():
    try:
        out = subprocess.check_output(
            ["git", "-C", "/repo", "log", "--format=%h %s", "--grep=^verif-hook:"], text=True)
        return [l.split()[0] for l in out.splitlines() if l.strip()]
    except Exception:
        return []

manifest = {
    "version": 1,
    "setup_cmd": "SETUP_PLACEHOLDER",
    "hooks": {
        "guard": "--cfg p2panda_p2panda_verif",
        "enable": "RUSTFLAGS='--cfg p2panda_p2panda_verif' via /verif/harness/.cargo/config.toml; harness crates depend on /repo crates by path, so every check rebuilds from the working tree",
        "baseline_off_cmd": "cd /repo && cargo nextest run --workspace --no-fail-fast --tool-config-file pb:/w/lib/nextest.toml --profile pb --test-threads 8 --offline",
        "source_commits": repo_hook_commits(),
        "add_only": True,
    },
    "engines": [],
    "checks": [],
    "notes": "Model checking of the real p2panda code: exhaustive enumeration of choice vectors / states / inputs within stated bounds (see DESIGN.md). Exit 2 from a check = machinery error, never a verdict.",
    "not_applicable": [],
}

engines = {}
lines = []
for pid in ids:
    c = checks.get(pid)
    if not c:
        manifest["not_applicable"].append({
            "property_id": pid,
            "reason": na_reasons.get(pid, "harness not built yet in this session; no weaker technique substituted"),
        })
        continue
    lines.append(f"{pid} {c['crate']}")
    manifest["checks"].append({
        "property_id": pid,
        "quick_cmd": f"bin/check {pid} --tier quick",
        "thorough_cmd": f"bin/check {pid} --tier thorough",
        "evidence_file": f"/verif/evidence/{pid}.json",
        "replay_cmd_template": f"bin/check {pid} --replay {{path}}",
        "engine": c.get("engine", "E-ENUM"),
        "level_claimed": {
            "category": c.get("category", "model_checking"),
            "text": c["text"],
            "design_ref": c.get("design_ref", f"DESIGN.md §6 {pid}"),
        },
        "level_note": c["note"],
        "technique": c["technique"],
    })
    e = engines.setdefault(c.get("engine", "E-ENUM"), [])
    e.append(pid)

kinds = {
    "E-ENUM": ("harness/explorer", "exhaustive enumeration of a finite input domain against a reference model"),
    "E-DFS": ("harness/explorer/src/chooser.rs", "stateless choice-vector DFS with deviation bound over the real code"),
    "E-TASK": ("harness/explorer/src/task.rs", "controlled single-thread executor: all task interleavings / select! branches within a deviation bound, deadlock detection"),
    "E-BFS": ("harness/explorer/src/bfs.rs", "explicit-state BFS over canonicalised states built by real transition functions, differential table"),
    "E-THREAD": ("harness/explorer/src/thread.rs", "baton scheduler for real OS threads with schedule points inside vendored tokio sync primitives; preemption-bounded"),
    "E-RT": ("harness/explorer", "environment-choice exploration on a real current_thread tokio runtime"),
    "E-CRASH": ("harness/explorer", "crash-point enumeration with subprocesses on file-backed SQLite"),
}
for name, pids in engines.items():
    path, kind = kinds.get(name, ("harness/explorer", name))
    manifest["engines"].append({"name": name, "path": path, "serves_properties": pids, "kind_free_text": kind})

crates = sorted({c["crate"] for c in checks.values()})
manifest["setup_cmd"] = "cd /verif/harness && CARGO_NET_OFFLINE=true cargo build --release --offline " + " ".join(f"-p {c}" for c in crates)
json.dump(manifest, open(os.path.join(ROOT, "MANIFEST.json"), "w"), indent=1)
for pid, c in pending.items():
    if pid not in checks:
        lines.append(f"{pid} {c['crate']}")
open(os.path.join(ROOT, "bin/properties.map"), "w").write("\n".join(lines) + "\n")

# validate
try:
    import jsonschema
    jsonschema.validate(manifest, json.load(open("/root/.vp/MANIFEST.schema.json")))
    print(f"MANIFEST.json valid: {len(manifest['checks'])} checks, {len(manifest['not_applicable'])} not_applicable")
except ImportError:
    print("jsonschema not importable; run with python3-vt to validate")
