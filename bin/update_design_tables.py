#!/usr/bin/env python3
"""Regenerate the generated tables of DESIGN.md (between BEGIN/END markers)."""
import subprocess, re
p = '/verif/DESIGN.md'
s = open(p).read()
tab = subprocess.check_output(['python3', '/verif/bin/gen_seed_table.py'], text=True)
s = re.sub(r'<!-- SEED-TABLE-BEGIN -->.*?<!-- SEED-TABLE-END -->', lambda m: '<!-- SEED-TABLE-BEGIN -->\n' + tab + '<!-- SEED-TABLE-END -->', s, flags=re.S)
open(p, 'w').write(s)
print('DESIGN.md tables updated')
