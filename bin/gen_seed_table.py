#!/usr/bin/env python3
"""Print the markdown table of independently seeded changes (seeded/*/meta.json) for DESIGN.md."""
import json, glob, os, re
rows = []
for d in sorted(glob.glob('/verif/seeded/*/')):
    m = json.load(open(d + 'meta.json'))
    v = json.load(open(d + 'verified.json')) if os.path.exists(d + 'verified.json') else {}
    det = m.get('detected_by') or {}
    keys = det.get('keys') or ([det['key']] if det.get('key') else [])
    caught = det.get('check', '—')
    if keys:
        caught += ': ' + ', '.join('`%s`' % k for k in keys[:3])
    if det.get('also'):
        caught += '; also ' + det['also']
    first = ' '.join(m.get('summary', '').split())
    first = first[:260] + ('…' if len(first) > 260 else '')
    ok = all(v.get(k) for k in ('demo_passes_without_patch', 'demo_fails_with_patch', 'repo_tests_pass_with_patch')) if v else False
    hist = det.get('history', 'caught by the check as first built' if det else 'not drilled yet')
    rows.append((os.path.basename(d.rstrip('/')), first.replace('|', '\\|'), 'yes' if ok else 'NO', caught.replace('|', '\\|'), hist.replace('|', '\\|')))
print('| seed | change (start of the author\'s summary) | confirmed | caught by | history |')
print('|---|---|---|---|---|')
for r in rows:
    print('| ' + ' | '.join(r) + ' |')
