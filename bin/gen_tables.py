#!/usr/bin/env python3
"""Print a markdown table of all checks (from MANIFEST.json + evidence/) for DESIGN.md §12.6."""
import json,os
m=json.load(open('/verif/MANIFEST.json'))
rows=[]
for c in m['checks']:
    pid=c['property_id']
    ev='/verif/evidence/%s.json'%pid
    e=json.load(open(ev)) if os.path.exists(ev) else None
    cov=e['coverage'] if e else {}
    crate=[l.split()[1] for l in open('/verif/bin/properties.map') if l.split()[0]==pid][0]
    rows.append((pid,crate,c['engine'],c['level_claimed']['category'],cov.get('evaluations','-'),cov.get('states','-'),cov.get('transitions','-'),cov.get('distinct_outcomes','-'),len(cov.get('known_findings_hit',[])),'%.1f'%e['wall_s'] if e else '-'))
print('| id | crate | engine | level | executions | states | transitions | outcomes | known | wall s |')
print('|---|---|---|---|---|---|---|---|---|---|')
for r in rows: print('| '+' | '.join(str(x) for x in r)+' |')
