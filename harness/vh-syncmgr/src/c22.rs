//! C22 Sync session events follow the documented lifecycle.
//!
//! E-TASK on the real `TopicLogSync::run` (which runs the real `LogSync::run` inside) against a
//! scripted remote.  For each successful transcript ("variant") every single fault of the fault
//! alphabet is injected at every position of that transcript; inside each case the start branch
//! of the sync loop's `tokio::select!` (seam S1) and "frame arrives late" (stream `Pending` once)
//! are costed chooser decisions.  Oracle: lifecycle automaton over the events seen on the
//! session's broadcast channel.
use std::cell::RefCell;
use std::collections::BTreeMap;
use std::rc::Rc;

use explorer::task::{disown_select, End, Exec};
use explorer::{catch, dfs_par, json, Chooser, DfsCfg, Report};
use futures_channel::mpsc;
use p2panda_core::{Operation, Topic};
use p2panda_sync::protocols::{
    LogSyncError, LogSyncMessage, TopicLogSync, TopicLogSyncChannelError, TopicLogSyncError,
    TopicLogSyncEvent,
};
use p2panda_sync::traits::Protocol;
use p2panda_sync::ToSync;
use refmodel::MemStore;
use tokio::sync::broadcast;

use crate::fixtures::{fix, topic, Event, Msg, Op, E, L, LOG};
use crate::pipe::{pipe, Faults, Io, Item, Stage, StreamFault};
use crate::util::{brief, Collector};

#[derive(Clone, Copy, Debug, PartialEq, Eq, Hash, PartialOrd, Ord)]
pub enum Ev {
    SessionStarted,
    SyncStarted,
    Op,
    SyncFinished,
    LiveModeStarted,
    SessionFinished,
    Failed,
}

fn ev_of(e: &Event) -> Ev {
    match e {
        TopicLogSyncEvent::SessionStarted => Ev::SessionStarted,
        TopicLogSyncEvent::SyncStarted { .. } => Ev::SyncStarted,
        TopicLogSyncEvent::OperationReceived { .. } => Ev::Op,
        TopicLogSyncEvent::SyncFinished { .. } => Ev::SyncFinished,
        TopicLogSyncEvent::LiveModeStarted => Ev::LiveModeStarted,
        TopicLogSyncEvent::SessionFinished { .. } => Ev::SessionFinished,
        TopicLogSyncEvent::Failed { .. } => Ev::Failed,
    }
}

pub fn describe(m: &Msg) -> String {
    match m {
        Msg::Sync(LogSyncMessage::Have(_)) => "Sync(Have)".into(),
        Msg::Sync(LogSyncMessage::PreSync { .. }) => "Sync(PreSync)".into(),
        Msg::Sync(LogSyncMessage::Operation(..)) => "Sync(Operation)".into(),
        Msg::Sync(LogSyncMessage::Done) => "Sync(Done)".into(),
        Msg::Live(h, _) => format!("Live({}#{})", &h.verifying_key.to_hex()[..4], h.seq_num),
        Msg::Close => "Close".into(),
    }
}

pub fn is_close(m: &Msg) -> bool {
    matches!(m, Msg::Close)
}

fn err_kind(e: &TopicLogSyncError) -> String {
    match e {
        TopicLogSyncError::Sync(le) => format!(
            "Sync::{}",
            match le {
                LogSyncError::Decode(_) => "Decode",
                LogSyncError::LogStore(_) => "LogStore",
                LogSyncError::OperationStore(_) => "OperationStore",
                LogSyncError::BroadcastSend => "BroadcastSend",
                LogSyncError::MessageSink(_) => "MessageSink",
                LogSyncError::MessageStream(_) => "MessageStream",
                LogSyncError::UnexpectedStreamClosure => "UnexpectedStreamClosure",
                LogSyncError::UnexpectedMessage(_) => "UnexpectedMessage",
            }
        ),
        TopicLogSyncError::TopicStore(_) => "TopicStore".into(),
        TopicLogSyncError::UnexpectedProtocolMessage(_) => "UnexpectedProtocolMessage".into(),
        TopicLogSyncError::Channel(c) => format!(
            "Channel::{}",
            match c {
                TopicLogSyncChannelError::MessageSink(_) => "MessageSink",
                TopicLogSyncChannelError::MessageStream(_) => "MessageStream",
                TopicLogSyncChannelError::EventSend => "EventSend",
            }
        ),
        TopicLogSyncError::UnexpectedStreamClosure => "UnexpectedStreamClosure".into(),
        TopicLogSyncError::DecodeMessage(_) => "DecodeMessage".into(),
    }
}

/// Like `explorer::task::own_select`, but only the first `cap` select! start-branch decisions of
/// an execution are chooser decisions (later ones take branch 0): a session spinning in its
/// select loop must not blow up the choice vector.
fn own_select_capped(ch: &Chooser, cap: usize) {
    let ch = ch.clone();
    let mut n_seen = 0usize;
    tokio::verif::set_select_hook(Some(Box::new(move |n| {
        n_seen += 1;
        if n_seen > cap {
            0
        } else {
            ch.choose(n as usize, "select") as u32
        }
    })));
}

/// One successful transcript of a session against the scripted remote.
struct Variant {
    name: &'static str,
    /// Number of operations of the local author already in the local store (log `LOG`).
    local_ops: usize,
    live: bool,
    /// What the remote sends.
    script: Vec<Item<Msg>>,
    /// Local inputs queued on the live-mode channel before the session starts.
    prequeued: Vec<ToSync<Op>>,
    /// Local inputs that arrive while the k-th frame of the remote is in flight.
    at_delivery: Vec<(usize, ToSync<Op>)>,
}

fn variants() -> Vec<Variant> {
    let f = fix();
    let sync = |m: LogSyncMessage<L>| Item::Msg(Msg::Sync(m));
    let have_empty = || sync(LogSyncMessage::Have(BTreeMap::new()));
    // The remote holds seq 0..=1 of its own log and nothing of ours.
    let have_remote = || {
        sync(LogSyncMessage::Have(BTreeMap::from([(
            f.remote_key,
            BTreeMap::from([(LOG, 1u32)]),
        )])))
    };
    let presync = || {
        sync(LogSyncMessage::PreSync {
            total_operations: 2,
            total_bytes: f.remote[0].size() + f.remote[1].size(),
        })
    };
    let both_ways = || {
        vec![
            have_remote(),
            presync(),
            Item::Msg(f.remote[0].sync_op()),
            Item::Msg(f.remote[1].sync_op()),
            sync(LogSyncMessage::Done),
        ]
    };
    let payload = |i: usize| ToSync::Payload(f.local[i].op.clone());
    let mut v = vec![];
    v.push(Variant {
        name: "empty/no-live",
        local_ops: 0,
        live: false,
        script: vec![have_empty(), sync(LogSyncMessage::Done), Item::End],
        prequeued: vec![],
        at_delivery: vec![],
    });
    let mut s = both_ways();
    s.push(Item::End);
    v.push(Variant {
        name: "both-ways/no-live",
        local_ops: 3,
        live: false,
        script: s,
        prequeued: vec![],
        at_delivery: vec![],
    });
    // Live mode, remote ends the session with a Close frame; duplicates of a live operation and
    // of an operation already received during sync.
    let mut s = both_ways();
    s.extend([
        Item::Msg(f.remote[2].live()),
        Item::Msg(f.remote[2].live()),
        Item::Msg(f.remote[1].live()),
        Item::Msg(Msg::Close),
    ]);
    v.push(Variant {
        name: "both-ways/live/remote-close",
        local_ops: 3,
        live: true,
        script: s,
        prequeued: vec![payload(3)],
        at_delivery: vec![],
    });
    // Live mode, local side closes with ToSync::Close, remote closes its stream on receipt.
    let mut s = both_ways();
    s.extend([Item::Msg(f.remote[2].live()), Item::WaitClose, Item::End]);
    v.push(Variant {
        name: "both-ways/live/local-close",
        local_ops: 3,
        live: true,
        script: s,
        prequeued: vec![payload(3), payload(3), ToSync::Close],
        at_delivery: vec![],
    });
    v.push(Variant {
        name: "empty/live/remote-close",
        local_ops: 0,
        live: true,
        script: vec![
            have_empty(),
            sync(LogSyncMessage::Done),
            Item::Msg(f.remote[0].live()),
            Item::Msg(Msg::Close),
        ],
        prequeued: vec![],
        at_delivery: vec![],
    });
    // Local inputs arrive in the middle of live mode (after the remote's first live frame), the
    // remote keeps sending after our Close until it has seen it.
    v.push(Variant {
        name: "empty/live/local-close-mid-live",
        local_ops: 0,
        live: true,
        script: vec![
            have_empty(),
            sync(LogSyncMessage::Done),
            Item::Msg(f.remote[0].live()),
            Item::Msg(f.remote[1].live()),
            Item::WaitClose,
            Item::End,
        ],
        prequeued: vec![],
        at_delivery: vec![(3, payload(0)), (3, ToSync::Close)],
    });
    v
}

#[derive(Clone, Debug, PartialEq, Eq, Hash)]
enum Res {
    Ok,
    Err(String),
    /// `run` never returned.
    Pending,
}

#[derive(Clone, Debug, PartialEq, Eq, Hash)]
enum EndKind {
    Done,
    Deadlock,
    Horizon,
    Panic(String),
}

#[derive(Clone, Debug, PartialEq, Eq)]
struct Obs {
    events: Vec<Ev>,
    failed_errors: Vec<String>,
    res: Res,
    end: EndKind,
    io: Vec<Io<String>>,
    fault_hit: bool,
    close_fault_hit: bool,
    deliveries: usize,
    sends: usize,
}

fn run_one(v: &Variant, faults: Faults<Msg>, ch: &Chooser, late: bool) -> Obs {
    let f = fix();
    let t: Topic = topic(1);
    let store = MemStore::new();
    for s in &f.local[..v.local_ops] {
        store.put(&s.op, &LOG);
    }
    store.put_topic(&t, &f.local_key, &LOG);
    store.put_topic(&t, &f.remote_key, &LOG);

    let (event_tx, mut event_rx) = broadcast::channel::<Event>(512);
    let (mut live_tx, live_rx) = mpsc::channel::<ToSync<Operation<E>>>(512);
    for m in &v.prequeued {
        live_tx.try_send(m.clone()).expect("prequeue");
    }
    let session = TopicLogSync::<Topic, MemStore, L, E>::new(
        t,
        store,
        if v.live { Some(live_rx) } else { None },
        event_tx,
    );
    let (mut sink, mut stream, h) = pipe(v.script.clone(), faults, describe, is_close);
    {
        let mut s = h.borrow_mut();
        if late {
            s.late = Some(ch.clone());
        }
        let sched = v.at_delivery.clone();
        let mut tx = live_tx.clone();
        s.on_delivery = Some(Box::new(move |k| {
            for (at, m) in &sched {
                if *at == k {
                    let _ = tx.try_send(m.clone());
                }
            }
        }));
    }
    let result: Rc<RefCell<Res>> = Rc::new(RefCell::new(Res::Pending));
    own_select_capped(ch, 16);
    let end = {
        let result = result.clone();
        catch(|| {
            let mut ex = Exec::new();
            ex.spawn("session", async {
                let r = session.run(&mut sink, &mut stream).await;
                *result.borrow_mut() = match r {
                    Ok(()) => Res::Ok,
                    Err(e) => Res::Err(err_kind(&e)),
                };
            });
            ex.run(ch, 20_000)
        })
    };
    disown_select();
    let end = match end {
        Ok(End::AllDone) => EndKind::Done,
        Ok(End::Deadlock(_)) => EndKind::Deadlock,
        Ok(End::Horizon) => EndKind::Horizon,
        Err(p) => EndKind::Panic(p),
    };
    let mut events = vec![];
    let mut failed_errors = vec![];
    loop {
        match event_rx.try_recv() {
            Ok(e) => {
                if let TopicLogSyncEvent::Failed { error } = &e {
                    failed_errors.push(error.clone());
                }
                events.push(ev_of(&e));
            }
            Err(broadcast::error::TryRecvError::Lagged(_)) => continue,
            Err(_) => break,
        }
    }
    drop(live_tx);
    let s = h.borrow();
    let res = result.borrow().clone();
    Obs {
        events,
        failed_errors,
        res,
        end,
        io: s.log.clone(),
        fault_hit: s.stream_fault_hit || s.send_fault_hit || s.close_fault_hit,
        close_fault_hit: s.close_fault_hit,
        deliveries: s.deliveries,
        sends: s.sends,
    }
}

/// The lifecycle automaton.  Returns `Err((key, detail))` for the first deviation, ignoring a
/// missing leading `SessionStarted` (reported separately, see `judge`).
fn automaton(events: &[Ev]) -> Result<(), (String, String)> {
    #[derive(Debug, Clone, Copy, PartialEq)]
    enum St {
        Started,
        Syncing,
        SyncDone,
        Live,
        Terminal(Ev),
    }
    let mut st = St::Started;
    for (i, e) in events.iter().enumerate() {
        st = match (st, *e) {
            (St::Terminal(t), e) => {
                return Err((
                    format!("event-after-terminal/{t:?}-then-{e:?}"),
                    format!("event #{i} {e:?} was emitted after the terminal event {t:?}"),
                ))
            }
            (_, Ev::SessionStarted) => {
                return Err((
                    "out-of-order/SessionStarted-not-first".into(),
                    format!("event #{i} is SessionStarted"),
                ))
            }
            (St::Started, Ev::SyncStarted) => St::Syncing,
            (St::Syncing, Ev::Op) => St::Syncing,
            (St::Syncing, Ev::SyncFinished) => St::SyncDone,
            (St::SyncDone, Ev::LiveModeStarted) => St::Live,
            (St::Live, Ev::Op) => St::Live,
            (St::SyncDone | St::Live, Ev::SessionFinished) => St::Terminal(Ev::SessionFinished),
            (_, Ev::Failed) => St::Terminal(Ev::Failed),
            (st, e) => {
                return Err((
                    format!("out-of-order/{st:?}-got-{e:?}"),
                    format!("event #{i} {e:?} is not allowed in lifecycle state {st:?}"),
                ))
            }
        };
    }
    match st {
        St::Terminal(_) => Ok(()),
        st => Err((
            "no-terminal-event".into(),
            format!("the event sequence ends in lifecycle state {st:?} without SessionFinished or Failed"),
        )),
    }
}

/// Canonical violation key + explanation for one observation (None = conforms completely).
fn judge(obs: &Obs) -> Option<(String, String)> {
    if let EndKind::Panic(p) = &obs.end {
        if !p.starts_with("busy-loop") {
            let short: String = p.chars().take(60).collect();
            return Some((format!("panic/{short}"), format!("the session panicked: {p}")));
        }
    }
    let (has_start, rest) = match obs.events.first() {
        Some(Ev::SessionStarted) => (true, &obs.events[1..]),
        _ => (false, &obs.events[..]),
    };
    match automaton(rest) {
        Err((key, detail)) if key == "no-terminal-event" => {
            let cause = match (&obs.end, &obs.res) {
                (EndKind::Panic(_), _) => "busy-loop-after-stream-closed".to_string(),
                (EndKind::Deadlock, _) => "session-hangs".to_string(),
                (EndKind::Horizon, _) => "step-horizon".to_string(),
                (EndKind::Done, Res::Err(e)) if obs.close_fault_hit && e == "Channel::MessageSink" => {
                    "sink-close-failed".to_string()
                }
                (EndKind::Done, Res::Err(e)) => format!("returned-Err-{e}"),
                (EndKind::Done, Res::Ok) => "returned-Ok".to_string(),
                (EndKind::Done, Res::Pending) => "unknown".to_string(),
            };
            Some((format!("no-terminal-event/{cause}"), detail))
        }
        Err(kd) => Some(kd),
        Ok(()) => {
            let last = *rest.last().unwrap();
            match (&obs.res, last) {
                (Res::Ok, Ev::Failed) => Some((
                    "terminal-mismatch/returned-Ok-but-Failed".into(),
                    "run() returned Ok but the terminal event is Failed".into(),
                )),
                (Res::Err(e), Ev::SessionFinished) => Some((
                    "terminal-mismatch/returned-Err-but-SessionFinished".into(),
                    format!("run() returned Err({e}) but the terminal event is SessionFinished"),
                )),
                (Res::Pending, _) => Some((
                    "terminal-event-but-run-never-returned".into(),
                    format!("a terminal event was sent but run() did not return ({:?})", obs.end),
                )),
                _ if !has_start => Some((
                    "missing-SessionStarted".into(),
                    "the first event is not SessionStarted (documented as 'always sent'); the rest of the trace conforms".into(),
                )),
                _ => None,
            }
        }
    }
}

fn build_faults(n_deliveries: usize, n_sends: usize) -> Vec<(String, Faults<Msg>)> {
    let f = fix();
    let mut out: Vec<(String, Faults<Msg>)> = vec![("none".into(), Faults::default())];
    let inserts: Vec<(&str, Msg)> = vec![
        ("Sync(Have)", Msg::Sync(LogSyncMessage::Have(BTreeMap::new()))),
        (
            "Sync(PreSync)",
            Msg::Sync(LogSyncMessage::PreSync {
                total_operations: 1,
                total_bytes: 10,
            }),
        ),
        ("Sync(Operation)", f.remote[4].sync_op()),
        (
            "Sync(Operation:garbage-header)",
            Msg::Sync(LogSyncMessage::Operation(vec![0xff, 0x00, 0x13], None)),
        ),
        ("Sync(Done)", Msg::Sync(LogSyncMessage::Done)),
        ("Live", f.remote[5].live()),
        ("Close", Msg::Close),
    ];
    // position n_deliveries = where the remote's script has nothing more to deliver
    for k in 0..=n_deliveries {
        out.push((
            format!("stream closes at frame #{k}"),
            Faults {
                stream: Some((k, StreamFault::Close)),
                ..Default::default()
            },
        ));
        out.push((
            format!("undecodable frame before frame #{k}"),
            Faults {
                stream: Some((k, StreamFault::Err)),
                ..Default::default()
            },
        ));
        for (name, m) in &inserts {
            out.push((
                format!("unexpected {name} before frame #{k}"),
                Faults {
                    stream: Some((k, StreamFault::Insert(m.clone()))),
                    ..Default::default()
                },
            ));
        }
    }
    for j in 0..n_sends {
        for stage in [Stage::Ready, Stage::Start, Stage::Flush] {
            for sticky in [false, true] {
                out.push((
                    format!(
                        "sink send #{j} fails in {stage:?}{}",
                        if sticky { ", sink stays broken" } else { "" }
                    ),
                    Faults {
                        send: Some((j, stage.clone(), sticky)),
                        ..Default::default()
                    },
                ));
            }
        }
    }
    out.push((
        "sink close fails".into(),
        Faults {
            close: true,
            ..Default::default()
        },
    ));
    out
}

pub fn run(mut rep: Report) -> i32 {
    let thorough = rep.thorough();
    let max_dev = if thorough { 6 } else { 2 };
    rep.rule = "case = (successful transcript variant, one injected fault at one transcript position, choice vector of select!-start-branch and late-frame decisions); counted non-trivial when the injected fault was actually reached by the session (or the case is the fault-free transcript) and all events on the session's broadcast channel were judged by the lifecycle automaton".into();
    rep.assume("the remote is scripted: it does not validate what the session sends, it only reacts to a Close frame (closes its stream) where the variant says so");
    rep.assume("exactly one fault per execution; store faults (TopicStore::resolve, LogStore) and a broadcast channel without receivers are outside the fault alphabet");
    rep.assume("Failed may follow SessionStarted directly (documented: 'followed by SyncStarted or Failed'); run() returning Ok must end in SessionFinished and Err in Failed (documented on the two variants)");
    rep.assume("a stream that ended keeps returning None; polling it more than 300 times in one execution is judged a busy loop");
    rep.assume("MemStore (refmodel) instead of SqliteStore; single task on E-TASK, no tokio runtime");

    let vs = variants();
    let mut variant_summaries = vec![];
    let mut all: Collector<(usize, Obs)> = Collector::new();
    for v in &vs {
        // Fault-free baseline fixes the transcript positions.
        let base = run_one(v, Faults::default(), &Chooser::new(vec![]), false);
        let faults = build_faults(base.deliveries, base.sends);
        let cfg = DfsCfg {
            max_dev,
            max_execs: if thorough { 40_000_000 } else { 2_000_000 },
            wall: std::time::Duration::from_secs(if thorough { 120 } else { 8 }),
            threads: rep.args.threads,
        };
        let mut hit = 0u64;
        let mut not_hit = 0u64;
        let mut coll: Collector<(usize, Obs)> = Collector::new();
        let st = dfs_par(
            &cfg,
            |ch| {
                let fi = ch.choose_free(faults.len(), "fault");
                let obs = run_one(v, faults[fi].1.clone(), ch, true);
                (fi, obs)
            },
            |ch, (fi, obs)| {
                let vector = ch.vector();
                if obs.fault_hit || fi == 0 {
                    hit += 1;
                    rep.nontrivial(&(v.name, &vector));
                } else {
                    not_hit += 1;
                }
                rep.outcome(&(v.name, &obs.events, &obs.res, &obs.end));
                rep.state(&(v.name, &obs.events, &obs.res, &obs.io));
                if let Some((key, detail)) = judge(&obs) {
                    let rank = (ch.deviations() as u64, vector.len() as u64, vector.clone());
                    coll.add(key, rank, &(fi, obs.clone()), || {
                        (
                            format!(
                                "variant '{}', fault: {}; schedule: {}; events seen: {:?}; run() -> {:?} ({:?}); I/O: {:?}. {}",
                                v.name, faults[fi].0, brief(ch), obs.events, obs.res, obs.end, obs.io, detail
                            ),
                            json!({"part": v.name, "fault_index": fi, "fault": faults[fi].0, "vector": vector, "choices": ch.describe()}),
                        )
                    });
                }
            },
        );
        // Determinism of every reported class: replay its minimal witness twice.
        for (key, e) in &coll.map {
            for _ in 0..2 {
                let ch = Chooser::new(e.rank.2.clone());
                let fi2 = ch.choose_free(faults.len(), "fault");
                let again = run_one(v, faults[fi2].1.clone(), &ch, true);
                if fi2 != e.obs.0 || again != e.obs.1 {
                    rep.machinery_error(format!(
                        "C22 {}: witness of {key} is not reproducible (uncaptured nondeterminism)",
                        v.name
                    ));
                }
            }
        }
        // Keep the overall minimal witness per class across variants (variants are ordered from
        // the simplest transcript to the richest).
        for (key, e) in coll.map {
            match all.map.get_mut(&key) {
                Some(a) => a.count += e.count,
                None => {
                    all.map.insert(key, e);
                }
            }
        }
        // A few real cases for the evidence file.
        for fi in [0usize, 1, faults.len() / 2] {
            if rep.want_sample() {
                let ch = Chooser::new(vec![fi as u32]);
                let fi2 = ch.choose_free(faults.len(), "fault");
                let obs = run_one(v, faults[fi2].1.clone(), &ch, true);
                rep.sample(json!({
                    "variant": v.name, "fault": faults[fi2].0, "choices": ch.describe(),
                    "events": format!("{:?}", obs.events), "result": format!("{:?}", obs.res),
                    "io": format!("{:?}", obs.io),
                }));
            }
        }
        rep.absorb_dfs(v.name, &st, max_dev);
        variant_summaries.push(json!({
            "variant": v.name, "frames_from_remote": base.deliveries, "sends": base.sends,
            "faults": faults.len() - 1, "baseline_events": format!("{:?}", base.events),
            "executions_fault_reached": hit, "executions_fault_not_reached": not_hit,
        }));
    }
    all.flush(&mut rep);
    rep.set("variants", json!(variant_summaries));
    rep.set("fault_alphabet", json!([
        "stream closes", "undecodable frame (Err item)", "unexpected Sync(Have)", "unexpected Sync(PreSync)",
        "unexpected Sync(Operation)", "Sync(Operation) with undecodable header", "unexpected Sync(Done)",
        "unexpected Live (= Live during sync)", "unexpected Close", "sink send fails in poll_ready/start_send/poll_flush (transient or sticky)",
        "sink close fails"
    ]));
    rep.finish()
}
