//! Checks on p2panda-sync's topic sync session and manager (C22, C23).
use explorer::{Args, Report};

mod c22;
mod c23;
mod fixtures;
mod pipe;
mod sched;
mod util;

fn main() {
    let args = Args::parse();
    explorer::quiet_panics();
    let code = explorer::guard_main(&args.property, || match args.property.as_str() {
        "C22" => c22::run(Report::new(&args, "fault_enumeration")),
        "C23" => c23::run(Report::new(&args, "model_checking")),
        other => {
            eprintln!("vh-syncmgr: unknown property {other}");
            2
        }
    });
    std::process::exit(code);
}
