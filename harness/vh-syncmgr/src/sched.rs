//! A small variant of `explorer::task::Exec` (same stepping rule) that additionally offers the
//! *environment's next scripted action* as a candidate at every scheduling decision.
//!
//! Candidates at a step: the woken tasks (the task that ran last first, then ascending id) and,
//! last, "environment performs its next action" if one remains.  Candidate 0 is the default, any
//! other pick costs one deviation.  So the default behaviour is "run the system to quiescence,
//! then let the next scripted thing happen", and one deviation either switches tasks or lets the
//! environment act before the system has settled.
//! (Needed because `explorer::task::Exec` does not expose its runnable set; kept in this crate.)
use std::future::Future;
use std::pin::Pin;
use std::sync::Arc;
use std::task::{Context, Poll, Waker};

use explorer::task::Flag;
use explorer::Chooser;

struct Slot<'a> {
    fut: Option<Pin<Box<dyn Future<Output = ()> + 'a>>>,
    flag: Arc<Flag>,
}

pub struct EnvExec<'a> {
    slots: Vec<Slot<'a>>,
    last: Option<usize>,
    pub steps: u64,
}

pub enum Pick {
    /// A task was polled once.
    Task,
    /// The environment's next action was chosen (the caller performs it).
    Env,
    /// Nothing is runnable and the environment has nothing left.
    Quiescent,
}

impl<'a> EnvExec<'a> {
    pub fn new() -> Self {
        EnvExec {
            slots: vec![],
            last: None,
            steps: 0,
        }
    }

    pub fn spawn(&mut self, fut: impl Future<Output = ()> + 'a) -> usize {
        self.slots.push(Slot {
            fut: Some(Box::pin(fut)),
            flag: Flag::new(true),
        });
        self.slots.len() - 1
    }

    pub fn is_done(&self, id: usize) -> bool {
        self.slots[id].fut.is_none()
    }

    fn runnable(&self) -> Vec<usize> {
        let mut v: Vec<usize> = (0..self.slots.len())
            .filter(|&i| self.slots[i].fut.is_some() && self.slots[i].flag.is_woken())
            .collect();
        if let Some(l) = self.last {
            if let Some(p) = v.iter().position(|&x| x == l) {
                v.remove(p);
                v.insert(0, l);
            }
        }
        v
    }

    pub fn step(&mut self, ch: &Chooser, env_pending: bool) -> Pick {
        let cands = self.runnable();
        let n = cands.len() + usize::from(env_pending);
        if n == 0 {
            return Pick::Quiescent;
        }
        let k = ch.choose(n, "sched");
        if k == cands.len() {
            return Pick::Env;
        }
        let id = cands[k];
        self.last = Some(id);
        self.steps += 1;
        let slot = &mut self.slots[id];
        slot.flag.clear();
        let waker = Waker::from(slot.flag.clone());
        let mut cx = Context::from_waker(&waker);
        if let Poll::Ready(()) = slot.fut.as_mut().unwrap().as_mut().poll(&mut cx) {
            slot.fut = None;
        }
        Pick::Task
    }
}
