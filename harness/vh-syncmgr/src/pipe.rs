//! Single-threaded in-memory transport between the session under test and a *scripted* remote.
//!
//! `PipeStream` is what the session reads (items the remote "sent"), `PipeSink` what it writes.
//! Both share one `Shared` record so the script can react to what the session wrote (e.g. close
//! the stream once a `Close` frame arrived) and so the harness sees one ordered I/O log.
//! Waker handling: the stream stores the waker whenever it returns `Pending`; every mutation
//! that can make progress possible (`push`, `close_in`, a gate opening) wakes it.
use std::cell::RefCell;
use std::collections::VecDeque;
use std::pin::Pin;
use std::rc::Rc;
use std::task::{Context, Poll, Waker};

use explorer::Chooser;
use futures_util::{Sink, Stream};

/// How many polls of an ended stream are tolerated inside one execution before the harness
/// declares a busy loop (a correct consumer stops polling after `None`).
pub const BUSY_LOOP_LIMIT: u64 = 300;

#[derive(Clone, Debug)]
pub enum Item<M> {
    Msg(M),
    /// An undecodable frame: the stream yields `Some(Err(..))`.
    Err,
    /// The remote waits for the session's `Close` frame before continuing its script.
    WaitClose,
    /// The remote closes its sending side: the stream yields `None` from now on.
    End,
}

#[derive(Clone, Debug, PartialEq, Eq)]
pub enum Stage {
    Ready,
    Start,
    Flush,
}

#[derive(Clone, Debug)]
pub enum StreamFault<M> {
    /// The stream ends here (and stays ended).
    Close,
    /// An undecodable frame is inserted here.
    Err,
    /// A frame is inserted here.
    Insert(M),
}

#[derive(Clone, Debug)]
pub struct Faults<M> {
    /// (delivery index, fault): applied when the stream is about to deliver its k-th item.
    pub stream: Option<(usize, StreamFault<M>)>,
    /// (message index, stage, sticky): the j-th `send` fails in the given stage; `sticky` keeps
    /// the sink broken afterwards (every later sink call including `close` fails).
    pub send: Option<(usize, Stage, bool)>,
    /// `poll_close` fails.
    pub close: bool,
}

impl<M> Default for Faults<M> {
    fn default() -> Self {
        Faults {
            stream: None,
            send: None,
            close: false,
        }
    }
}

/// One entry of the ordered I/O log (`D` = harness-specific short description of a frame).
#[derive(Clone, Debug, PartialEq, Eq, Hash)]
pub enum Io<D> {
    In(D),
    InErr,
    InEnd,
    Out(D),
    SendFailed,
    SinkClosed,
    SinkCloseFailed,
}

pub struct Shared<M, D> {
    pub script: VecDeque<Item<M>>,
    pub ended: bool,
    pub waker: Option<Waker>,
    pub polls_after_end: u64,
    pub deliveries: usize,
    pub sends: usize,
    pub out: Vec<M>,
    pub close_seen: bool,
    pub sink_closed: bool,
    pub sink_broken: bool,
    pub faults: Faults<M>,
    pub stream_fault_hit: bool,
    pub send_fault_hit: bool,
    pub close_fault_hit: bool,
    pub log: Vec<Io<D>>,
    pub describe: fn(&M) -> D,
    pub is_close: fn(&M) -> bool,
    /// `Some(chooser)`: every available item may arrive "late" once (Pending + self-wake).
    pub late: Option<Chooser>,
    late_done_for: Option<usize>,
    /// Called once just before the k-th delivery (used to inject local inputs at that moment).
    pub on_delivery: Option<Box<dyn FnMut(usize)>>,
    hook_done_for: Option<usize>,
    /// The remote closes its sending side as soon as it has received a `Close` frame.
    pub auto_end_on_close: bool,
}

pub type Handle<M, D> = Rc<RefCell<Shared<M, D>>>;

pub fn pipe<M, D>(
    script: Vec<Item<M>>,
    faults: Faults<M>,
    describe: fn(&M) -> D,
    is_close: fn(&M) -> bool,
) -> (PipeSink<M, D>, PipeStream<M, D>, Handle<M, D>) {
    let h = Rc::new(RefCell::new(Shared {
        script: script.into(),
        ended: false,
        waker: None,
        polls_after_end: 0,
        deliveries: 0,
        sends: 0,
        out: Vec::new(),
        close_seen: false,
        sink_closed: false,
        sink_broken: false,
        faults,
        stream_fault_hit: false,
        send_fault_hit: false,
        close_fault_hit: false,
        log: Vec::new(),
        describe,
        is_close,
        late: None,
        late_done_for: None,
        on_delivery: None,
        hook_done_for: None,
        auto_end_on_close: false,
    }));
    (PipeSink(h.clone()), PipeStream(h.clone()), h)
}

/// Remote side: append a frame to what the session will read and wake the reader.
pub fn push<M, D>(h: &Handle<M, D>, item: Item<M>) {
    let w = {
        let mut s = h.borrow_mut();
        s.script.push_back(item);
        s.waker.take()
    };
    if let Some(w) = w {
        w.wake();
    }
}

pub struct PipeStream<M, D>(pub Handle<M, D>);
pub struct PipeSink<M, D>(pub Handle<M, D>);

impl<M, D> Unpin for PipeStream<M, D> {}
impl<M, D> Unpin for PipeSink<M, D> {}

impl<M: Clone, D> Stream for PipeStream<M, D> {
    type Item = Result<M, String>;

    fn poll_next(self: Pin<&mut Self>, cx: &mut Context<'_>) -> Poll<Option<Self::Item>> {
        let mut s = self.0.borrow_mut();
        if s.ended {
            s.polls_after_end += 1;
            if s.polls_after_end > BUSY_LOOP_LIMIT {
                drop(s);
                panic!("busy-loop: ended stream polled more than {BUSY_LOOP_LIMIT} times");
            }
            return Poll::Ready(None);
        }
        let k = s.deliveries;
        // Local inputs scheduled "while the k-th frame is in flight".
        if s.hook_done_for != Some(k) {
            s.hook_done_for = Some(k);
            if let Some(mut f) = s.on_delivery.take() {
                drop(s);
                f(k);
                s = self.0.borrow_mut();
                s.on_delivery = Some(f);
            }
        }
        // Injected stream fault at this position.
        if !s.stream_fault_hit {
            if let Some((at, f)) = s.faults.stream.clone() {
                if at == k {
                    s.stream_fault_hit = true;
                    match f {
                        StreamFault::Close => {
                            s.ended = true;
                            s.script.clear();
                            s.log.push(Io::InEnd);
                            return Poll::Ready(None);
                        }
                        StreamFault::Err => s.script.push_front(Item::Err),
                        StreamFault::Insert(m) => s.script.push_front(Item::Msg(m)),
                    }
                }
            }
        }
        loop {
            match s.script.front().cloned() {
                None => {
                    s.waker = Some(cx.waker().clone());
                    return Poll::Pending;
                }
                Some(Item::WaitClose) => {
                    if s.close_seen {
                        s.script.pop_front();
                        continue;
                    }
                    s.waker = Some(cx.waker().clone());
                    return Poll::Pending;
                }
                Some(Item::End) => {
                    s.script.clear();
                    s.ended = true;
                    s.log.push(Io::InEnd);
                    return Poll::Ready(None);
                }
                Some(item) => {
                    if let Some(ch) = s.late.clone() {
                        if s.late_done_for != Some(k) {
                            s.late_done_for = Some(k);
                            if ch.choose(2, "late") == 1 {
                                cx.waker().wake_by_ref();
                                return Poll::Pending;
                            }
                        }
                    }
                    s.script.pop_front();
                    s.deliveries += 1;
                    return match item {
                        Item::Msg(m) => {
                            let d = (s.describe)(&m);
                            s.log.push(Io::In(d));
                            Poll::Ready(Some(Ok(m)))
                        }
                        _ => {
                            s.log.push(Io::InErr);
                            Poll::Ready(Some(Err("undecodable frame".to_string())))
                        }
                    };
                }
            }
        }
    }
}

impl<M, D> PipeSink<M, D> {
    /// Message index = number of `poll_ready` calls made before this message (`SinkExt::send`
    /// is poll_ready, start_send, poll_flush; `close` is poll_close only).
    fn fail_at(&self, stage: Stage) -> bool {
        let mut s = self.0.borrow_mut();
        if s.sink_broken {
            return true;
        }
        let idx = match stage {
            Stage::Ready => s.sends,
            _ => s.sends.wrapping_sub(1),
        };
        if let Some((at, st, sticky)) = s.faults.send.clone() {
            if !s.send_fault_hit && at == idx && st == stage {
                s.send_fault_hit = true;
                if sticky {
                    s.sink_broken = true;
                }
                s.log.push(Io::SendFailed);
                return true;
            }
        }
        false
    }
}

impl<M: Clone, D> Sink<M> for PipeSink<M, D> {
    type Error = String;

    fn poll_ready(self: Pin<&mut Self>, _cx: &mut Context<'_>) -> Poll<Result<(), String>> {
        let failed = self.fail_at(Stage::Ready);
        self.0.borrow_mut().sends += 1;
        if failed {
            return Poll::Ready(Err("sink broken (poll_ready)".into()));
        }
        Poll::Ready(Ok(()))
    }

    fn start_send(self: Pin<&mut Self>, item: M) -> Result<(), String> {
        if self.fail_at(Stage::Start) {
            return Err("sink broken (start_send)".into());
        }
        let w = {
            let mut s = self.0.borrow_mut();
            assert!(!s.sink_closed, "harness: send after close");
            let d = (s.describe)(&item);
            s.log.push(Io::Out(d));
            if (s.is_close)(&item) {
                s.close_seen = true;
                if s.auto_end_on_close {
                    s.script.push_back(Item::End);
                }
            }
            s.out.push(item);
            // A gate may have opened.
            s.waker.take()
        };
        if let Some(w) = w {
            w.wake();
        }
        Ok(())
    }

    fn poll_flush(self: Pin<&mut Self>, _cx: &mut Context<'_>) -> Poll<Result<(), String>> {
        if self.fail_at(Stage::Flush) {
            return Poll::Ready(Err("sink broken (poll_flush)".into()));
        }
        Poll::Ready(Ok(()))
    }

    fn poll_close(self: Pin<&mut Self>, _cx: &mut Context<'_>) -> Poll<Result<(), String>> {
        let mut s = self.0.borrow_mut();
        if s.sink_broken || s.faults.close {
            s.close_fault_hit = true;
            s.log.push(Io::SinkCloseFailed);
            return Poll::Ready(Err("sink broken (poll_close)".into()));
        }
        s.sink_closed = true;
        s.log.push(Io::SinkClosed);
        Poll::Ready(Ok(()))
    }
}
