//! Deterministic violation collection: with a parallel DFS the *first* witness of a class
//! depends on thread timing, so the check keeps the minimal witness (by rank) per key and hands
//! the classes to the `Report` at the end.
use std::collections::BTreeMap;

use explorer::{Report, Value};

pub type Rank = (u64, u64, Vec<u32>);

pub struct Entry<O> {
    pub rank: Rank,
    pub what: String,
    pub replay: Value,
    pub count: u64,
    pub obs: O,
}

pub struct Collector<O> {
    pub map: BTreeMap<String, Entry<O>>,
}

impl<O: Clone> Collector<O> {
    pub fn new() -> Self {
        Collector {
            map: BTreeMap::new(),
        }
    }

    pub fn add(&mut self, key: String, rank: Rank, obs: &O, make: impl FnOnce() -> (String, Value)) {
        match self.map.get_mut(&key) {
            Some(e) => {
                e.count += 1;
                if rank < e.rank {
                    let (what, replay) = make();
                    e.rank = rank;
                    e.what = what;
                    e.replay = replay;
                    e.obs = obs.clone();
                }
            }
            None => {
                let (what, replay) = make();
                self.map.insert(
                    key,
                    Entry {
                        rank,
                        what,
                        replay,
                        count: 1,
                        obs: obs.clone(),
                    },
                );
            }
        }
    }

    /// Register every class with the report (minimal witness first, then the remaining
    /// occurrences so the occurrence count is right).
    pub fn flush(&self, rep: &mut Report) {
        for (key, e) in &self.map {
            for _ in 0..e.count {
                rep.violation(key.clone(), e.what.clone(), e.replay.clone());
            }
        }
    }
}

/// Readable choice vector: free choices and non-default costed choices only.
pub fn brief(ch: &explorer::Chooser) -> String {
    let log = ch.log();
    let total = log.len();
    let mut parts: Vec<String> = vec![];
    for (i, c) in log.iter().enumerate() {
        if c.free || c.c != 0 {
            parts.push(format!("#{i}:{}={}/{}", c.label, c.c, c.n));
        }
    }
    format!("{} ({} decisions, all others default)", parts.join(" "), total)
}
