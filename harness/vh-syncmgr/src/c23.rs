//! C23 Live mode forwards every new operation once to every other session.
//!
//! E-TASK: the real `TopicSyncManager` (on `MemStore`) with four real `TopicLogSync::run`
//! sessions (ids 0,1,2 on topic T1, id 3 on topic T2) and the real `ManagerEventStream` polled by
//! a consumer task.  The four remotes are scripted.  Every session is first driven through an
//! empty sync phase into live mode (default schedule), then a script of <= N environment actions
//! is played; the scheduler (which woken task runs next, and whether the next environment action
//! happens before the system has settled) is explored by DFS within a deviation bound.
use std::cell::RefCell;
use std::collections::BTreeMap;
use std::rc::Rc;

use explorer::task::{block_on_quiescent, disown_select, own_select};
use explorer::{catch, dfs_par, json, Chooser, DfsCfg, Report};
use futures_util::{SinkExt, StreamExt};
use p2panda_core::Topic;
use p2panda_sync::manager::TopicSyncManager;
use p2panda_sync::protocols::{LogSyncMessage, TopicLogSyncEvent};
use p2panda_sync::traits::{Manager, Protocol};
use p2panda_sync::{SessionConfig, ToSync};
use refmodel::MemStore;
use tokio::sync::broadcast;

use crate::fixtures::{fix, key, topic, Event, Msg, E, L};
use crate::pipe::{pipe, push, Faults, Handle, Io, Item};
use crate::sched::{EnvExec, Pick};
use crate::util::{brief, Collector};

const N_SESSIONS: usize = 4;
/// Topic of each session: three on T1, one on T2.
const TOPIC_OF: [u8; N_SESSIONS] = [1, 1, 1, 2];
const OP_NAMES: [&str; 2] = ["x", "y"];
/// When the consumer calls `subscribe()`.
const SUB_MODES: usize = 4;
const SUB_TEXT: [&str; 4] = [
    "before the sessions were created",
    "after two sessions were created",
    "after all sessions were created",
    "before the sessions were created, after an earlier subscription had been taken and dropped",
];

#[derive(Clone, Copy, Debug, PartialEq, Eq, Hash, PartialOrd, Ord)]
pub enum Action {
    /// Remote of session s sends Live(op).
    Recv(usize, usize),
    /// The application publishes op through the session handle of session s.
    Publish(usize, usize),
    /// The application sends ToSync::Close through the handle of session s.
    LocalClose(usize),
    /// Remote of session s sends a Close frame.
    RemoteClose(usize),
}

impl Action {
    fn session(&self) -> usize {
        match *self {
            Action::Recv(s, _) | Action::Publish(s, _) | Action::LocalClose(s) | Action::RemoteClose(s) => s,
        }
    }
    fn op(&self) -> Option<usize> {
        match *self {
            Action::Recv(_, o) | Action::Publish(_, o) => Some(o),
            _ => None,
        }
    }
    fn text(&self) -> String {
        match *self {
            Action::Recv(s, o) => format!("remote{s}->Live({})", OP_NAMES[o]),
            Action::Publish(s, o) => format!("publish({}) via handle{s}", OP_NAMES[o]),
            Action::LocalClose(s) => format!("ToSync::Close via handle{s}"),
            Action::RemoteClose(s) => format!("remote{s}->Close"),
        }
    }
}

fn alphabet() -> Vec<Action> {
    let mut a = vec![];
    for s in 0..N_SESSIONS {
        for o in 0..2 {
            a.push(Action::Recv(s, o));
        }
    }
    for s in 0..3 {
        for o in 0..2 {
            a.push(Action::Publish(s, o));
        }
    }
    for s in 0..3 {
        a.push(Action::LocalClose(s));
        a.push(Action::RemoteClose(s));
    }
    a
}

/// Canonical scripts: the three T1 sessions are named in order of first use, the two operations
/// likewise; nothing is addressed to a session after its Close action.
fn scripts(max_len: usize) -> Vec<Vec<Action>> {
    fn rec(alpha: &[Action], cur: &mut Vec<Action>, max_len: usize, out: &mut Vec<Vec<Action>>) {
        if !cur.is_empty() {
            out.push(cur.clone());
        }
        if cur.len() == max_len {
            return;
        }
        let used_sessions = cur.iter().map(|a| a.session()).filter(|&s| s < 3).max().map(|m| m + 1).unwrap_or(0);
        let used_ops = cur.iter().filter_map(|a| a.op()).max().map(|m| m + 1).unwrap_or(0);
        for a in alpha {
            let s = a.session();
            if s < 3 && s > used_sessions {
                continue;
            }
            if let Some(o) = a.op() {
                if o > used_ops {
                    continue;
                }
            }
            if cur.iter().any(|b| {
                b.session() == s && matches!(b, Action::LocalClose(_) | Action::RemoteClose(_))
            }) {
                continue;
            }
            cur.push(*a);
            rec(alpha, cur, max_len, out);
            cur.pop();
        }
    }
    let mut out = vec![];
    rec(&alphabet(), &mut vec![], max_len, &mut out);
    // A script without any operation cannot exercise the property.
    out.retain(|s| s.iter().any(|a| a.op().is_some()));
    out
}

/// Short frame description for the I/O log: live operations by index, everything else by kind.
#[derive(Clone, Debug, PartialEq, Eq, Hash)]
pub enum D {
    Live(usize),
    LiveOther,
    Sync,
    Close,
}

fn describe(m: &Msg) -> D {
    match m {
        Msg::Live(h, _) => {
            let f = fix();
            match f.third.iter().position(|s| s.op.hash == h.hash()) {
                Some(i) => D::Live(i),
                None => D::LiveOther,
            }
        }
        Msg::Sync(_) => D::Sync,
        Msg::Close => D::Close,
    }
}

fn is_close(m: &Msg) -> bool {
    matches!(m, Msg::Close)
}

#[derive(Clone, Debug, PartialEq, Eq, Hash)]
enum SessEnd {
    Live,
    Finished,
    Failed(String),
}

#[derive(Clone, Debug, PartialEq, Eq, Hash)]
struct Obs {
    setup_ok: bool,
    /// Per session: ordered I/O log of the live phase.
    io: Vec<Vec<Io<D>>>,
    /// Per session: operations announced with OperationReceived on the session's own channel.
    accepted: Vec<Vec<usize>>,
    /// What the consumer of the manager event stream saw: (session id, op index).
    consumer_ops: Vec<(u64, usize)>,
    ends: Vec<SessEnd>,
    panic: Option<String>,
    horizon: bool,
    performed: Vec<Action>,
}

fn run_one(script: &[Action], sub_mode: usize, ch: &Chooser) -> Obs {
    let f = fix();
    let store = MemStore::new();
    let mut manager = TopicSyncManager::<Topic, MemStore, L, E>::new(store);
    let results: Vec<Rc<RefCell<Option<Result<(), String>>>>> =
        (0..N_SESSIONS).map(|_| Rc::new(RefCell::new(None))).collect();
    let consumer_log: Rc<RefCell<Vec<(u64, Event)>>> = Rc::new(RefCell::new(vec![]));
    let mut pipes: Vec<Handle<Msg, D>> = vec![];
    let mut observers: Vec<broadcast::Receiver<Event>> = vec![];
    let mut performed = vec![];
    let mut panic = None;
    let mut horizon = false;
    let mut setup_ok = true;

    let setup = Chooser::new(vec![]);
    own_select(&setup);
    let r = catch(|| {
        let mut ex = EnvExec::new();
        let mut events = None;
        let mut session_futs = vec![];
        for id in 0..N_SESSIONS {
            if sub_mode == 3 && id == 0 {
                // an application that subscribed, went away and came back
                drop(manager.subscribe());
            }
            if ((sub_mode == 0 || sub_mode == 3) && id == 0) || (sub_mode == 1 && id == 2) {
                events = Some(manager.subscribe());
            }
            let config = SessionConfig {
                topic: topic(TOPIC_OF[id]),
                remote: key(10 + id as u8).verifying_key(),
                live_mode: true,
            };
            let session = block_on_quiescent(manager.session(id as u64, &config), 100)
                .expect("manager.session completes");
            observers.push(session.event_tx.subscribe());
            let (sink, stream, h) = pipe(
                vec![
                    Item::Msg(Msg::Sync(LogSyncMessage::Have(BTreeMap::new()))),
                    Item::Msg(Msg::Sync(LogSyncMessage::Done)),
                ],
                Faults::default(),
                describe as fn(&Msg) -> D,
                is_close as fn(&Msg) -> bool,
            );
            h.borrow_mut().auto_end_on_close = true;
            pipes.push(h);
            session_futs.push((session, sink, stream));
        }
        let mut events = match events {
            Some(e) => e,
            None => manager.subscribe(),
        };
        let mut handles = vec![];
        for id in 0..N_SESSIONS {
            handles.push(
                block_on_quiescent(manager.session_handle(id as u64), 100)
                    .expect("session_handle completes")
                    .expect("handle exists"),
            );
        }
        for (id, (session, mut sink, mut stream)) in session_futs.into_iter().enumerate() {
            let res = results[id].clone();
            ex.spawn(async move {
                let r = session.run(&mut sink, &mut stream).await;
                *res.borrow_mut() = Some(r.map_err(|e| e.to_string()));
            });
        }
        {
            let log = consumer_log.clone();
            ex.spawn(async move {
                while let Some(ev) = events.next().await {
                    log.borrow_mut().push((ev.session_id, ev.event));
                }
            });
        }
        // Phase 1: default schedule through the empty sync phase into live mode.
        loop {
            match ex.step(&setup, false) {
                Pick::Quiescent => break,
                _ => {}
            }
            if ex.steps > 2_000 {
                setup_ok = false;
                break;
            }
        }
        let live_started = consumer_log
            .borrow()
            .iter()
            .filter(|(_, e)| matches!(e, TopicLogSyncEvent::LiveModeStarted))
            .count();
        if live_started != N_SESSIONS || (0..N_SESSIONS).any(|i| ex.is_done(i)) {
            setup_ok = false;
        }
        for p in &pipes {
            p.borrow_mut().log.clear();
        }
        // Phase 2: the script under the explored schedule.
        own_select(ch);
        let start = ex.steps;
        let mut next = 0;
        loop {
            match ex.step(ch, next < script.len()) {
                Pick::Task => {}
                Pick::Quiescent => break,
                Pick::Env => {
                    let a = script[next];
                    next += 1;
                    performed.push(a);
                    match a {
                        Action::Recv(s, o) => push(&pipes[s], Item::Msg(f.third[o].live())),
                        Action::RemoteClose(s) => push(&pipes[s], Item::Msg(Msg::Close)),
                        Action::Publish(s, o) => {
                            let _ = block_on_quiescent(
                                handles[s].send(ToSync::Payload(f.third[o].op.clone())),
                                100,
                            );
                        }
                        Action::LocalClose(s) => {
                            let _ = block_on_quiescent(handles[s].send(ToSync::Close), 100);
                        }
                    }
                }
            }
            if ex.steps - start > 5_000 {
                horizon = true;
                break;
            }
        }
    });
    disown_select();
    if let Err(p) = r {
        panic = Some(p);
    }
    let op_index = |e: &Event| -> Option<usize> {
        if let TopicLogSyncEvent::OperationReceived { operation, .. } = e {
            f.third.iter().position(|s| s.op.hash == operation.hash)
        } else {
            None
        }
    };
    let mut accepted = vec![];
    for rx in observers.iter_mut() {
        let mut v = vec![];
        loop {
            match rx.try_recv() {
                Ok(e) => {
                    if let Some(i) = op_index(&e) {
                        v.push(i);
                    }
                }
                Err(broadcast::error::TryRecvError::Lagged(_)) => continue,
                Err(_) => break,
            }
        }
        accepted.push(v);
    }
    let consumer_ops = consumer_log
        .borrow()
        .iter()
        .filter_map(|(sid, e)| op_index(e).map(|i| (*sid, i)))
        .collect();
    let ends = results
        .iter()
        .map(|r| match &*r.borrow() {
            None => SessEnd::Live,
            Some(Ok(())) => SessEnd::Finished,
            Some(Err(e)) => SessEnd::Failed(e.clone()),
        })
        .collect();
    Obs {
        setup_ok,
        io: pipes.iter().map(|p| p.borrow().log.clone()).collect(),
        accepted,
        consumer_ops,
        ends,
        panic,
        horizon,
        performed,
    }
}

struct Verdict {
    violations: Vec<(String, String)>,
    /// Some operation reached the topic from two sources (duplicate across/within sessions or
    /// remote + local publish) and at least one forward was observed.
    nontrivial: bool,
    forwards: usize,
}

fn judge(obs: &Obs) -> Verdict {
    let mut v: Vec<(String, String)> = vec![];
    if let Some(p) = &obs.panic {
        let short: String = p.chars().take(60).collect();
        v.push((format!("panic/{short}"), format!("panic during the execution: {p}")));
    }
    if obs.horizon {
        v.push(("livelock/step-horizon".into(), "more than 5000 scheduling steps after setup".into()));
    }
    for (t, e) in obs.ends.iter().enumerate() {
        if let SessEnd::Failed(e) = e {
            v.push((
                "session-failed-in-live-mode".into(),
                format!("session {t} ended with error '{e}' although its remote only sent Live/Close frames"),
            ));
        }
    }
    let published = |t: usize, o: usize| obs.performed.contains(&Action::Publish(t, o));
    let closing = |t: usize| {
        obs.performed
            .iter()
            .any(|a| matches!(a, Action::LocalClose(s) | Action::RemoteClose(s) if *s == t))
    };
    let ins = |t: usize, o: usize| obs.io[t].iter().filter(|x| **x == Io::In(D::Live(o))).count();
    let outs = |t: usize, o: usize| obs.io[t].iter().filter(|x| **x == Io::Out(D::Live(o))).count();
    let mut forwards = 0;
    let mut collide = false;
    for o in 0..2 {
        let name = OP_NAMES[o];
        let sources: usize = (0..N_SESSIONS).map(|t| ins(t, o) + usize::from(published(t, o))).sum();
        if sources >= 2 {
            collide = true;
        }
        for t in 0..N_SESSIONS {
            let n_out = outs(t, o);
            if n_out > 1 {
                v.push((
                    "duplicate-send/op-sent-twice-to-same-remote".into(),
                    format!("session {t} wrote Live({name}) {n_out} times to its remote"),
                ));
            }
            // echo: an Out(o) after an In(o) in the same session
            let first_in = obs.io[t].iter().position(|x| *x == Io::In(D::Live(o)));
            let last_out = obs.io[t].iter().rposition(|x| *x == Io::Out(D::Live(o)));
            if let (Some(i), Some(j)) = (first_in, last_out) {
                if j > i {
                    v.push((
                        "echo/op-sent-back-to-the-peer-it-came-from".into(),
                        format!("session {t} wrote Live({name}) to its remote after having received Live({name}) from that remote"),
                    ));
                }
            }
            if n_out >= 1 && !published(t, o) {
                forwards += 1;
                let same_topic_source = (0..N_SESSIONS)
                    .any(|s| s != t && TOPIC_OF[s] == TOPIC_OF[t] && ins(s, o) > 0);
                if !same_topic_source {
                    let other_topic_source =
                        (0..N_SESSIONS).any(|s| TOPIC_OF[s] != TOPIC_OF[t] && (ins(s, o) > 0 || published(s, o)));
                    if other_topic_source {
                        v.push((
                            "cross-topic-forward".into(),
                            format!("session {t} (topic T{}) wrote Live({name}) although {name} only ever arrived on the other topic", TOPIC_OF[t]),
                        ));
                    } else {
                        v.push((
                            "spurious-send".into(),
                            format!("session {t} wrote Live({name}) although no other session of its topic received it and it was not published to it"),
                        ));
                    }
                }
            }
        }
        // completeness, for operations that reached this node only from remotes
        let locally_published = (0..N_SESSIONS).any(|t| published(t, o));
        if !locally_published && !obs.horizon && obs.panic.is_none() {
            for topic_id in [1u8, 2u8] {
                let members: Vec<usize> = (0..N_SESSIONS).filter(|&t| TOPIC_OF[t] == topic_id).collect();
                let receivers: Vec<usize> = members.iter().copied().filter(|&t| ins(t, o) > 0).collect();
                if receivers.is_empty() {
                    continue;
                }
                for &t in &members {
                    if receivers.contains(&t) || obs.ends[t] != SessEnd::Live || closing(t) {
                        continue;
                    }
                    if outs(t, o) != 1 {
                        // Two different classes: every session that announced the operation
                        // has ended by now (its queued event can be lost once the manager drops
                        // the ended session), or a session that is still running announced it.
                        let announcers: Vec<usize> = receivers
                            .iter()
                            .copied()
                            .filter(|&r| obs.accepted[r].contains(&o))
                            .collect();
                        let all_ended = !announcers.is_empty()
                            && announcers.iter().all(|&r| obs.ends[r] != SessEnd::Live);
                        let reported = obs.consumer_ops.iter().any(|(_, i)| *i == o);
                        let key = if all_ended {
                            "not-forwarded/event-of-ended-session-lost"
                        } else {
                            "not-forwarded/live-session-missed-op"
                        };
                        v.push((
                            key.into(),
                            format!("Live({name}) was received by session(s) {receivers:?} of topic T{topic_id}, session {t} is live on the same topic and never received it from its own remote, but wrote Live({name}) {} times; the manager event stream {} OperationReceived({name})", outs(t, o), if reported { "reported" } else { "never reported" }),
                        ));
                    }
                }
            }
        }
        let seen = obs.consumer_ops.iter().filter(|(_, i)| *i == o).count();
        if seen > 1 {
            v.push((
                "consumer-duplicate/op-reported-twice".into(),
                format!("the manager event stream reported OperationReceived({name}) {seen} times: {:?}", obs.consumer_ops),
            ));
        }
    }
    Verdict {
        violations: v,
        nontrivial: collide && forwards > 0,
        forwards,
    }
}

pub fn run(mut rep: Report) -> i32 {
    let thorough = rep.thorough();
    rep.rule = "execution = (canonical action script, where the consumer subscribed, schedule); non-trivial when some operation reached the node from at least two sources (two remotes, the same remote twice, or remote + local publish) and at least one forward to another session's remote was observed".into();
    rep.assume("scripts are canonical up to renaming of the three same-topic sessions and of the two operations (first use order); the manager keys sessions by id in hash maps and does not order them");
    rep.assume("nothing is addressed to a session after its Close action; a scripted remote closes its stream when it receives a Close frame");
    rep.assume("'the peer it came from' is read per session: a session never writes an operation to its remote after having read that operation from that remote; 'forwarded to every other live session' is demanded at quiescence for sessions that are still live, were not asked to close, and did not receive the operation from their own remote; it is demanded only for operations that were never published locally in the execution");
    rep.assume("all sessions complete an empty sync phase under the default schedule before the script starts; the schedule of the setup phase is not explored");
    rep.assume("de-duplication windows (1024) are never exceeded (2 operations)");
    rep.assume("std RandomState decides HashSet/HashMap iteration order inside SessionTopicMap and TopicSyncManager::subscribe; it only permutes the order of channel sends inside one poll, which E-TASK's scheduling rule (lowest task id among the woken) does not observe");
    rep.assume("MemStore (refmodel) instead of SqliteStore; no tokio runtime: sessions, manager event stream and consumer are E-TASK tasks");

    rep.set("alphabet", json!(alphabet().iter().map(|a| a.text()).collect::<Vec<_>>()));
    // (part name, max script length, deviation bound, wall cap in seconds)
    let parts: Vec<(&str, usize, usize, u64)> = if thorough {
        vec![("len<=4/dev<=2", 4, 2, 400), ("len<=3/dev<=4", 3, 4, 200)]
    } else {
        vec![("len<=3/dev<=2", 3, 2, 30)]
    };
    let mut all: Collector<Obs> = Collector::new();
    let mut total_forwards = 0u64;
    let mut part_info = vec![];
    for (name, max_len, max_dev, wall) in parts {
        let all_scripts = scripts(max_len);
        let n_scripts = all_scripts.len();
        part_info.push(json!({"part": name, "max_script_len": max_len, "deviation_bound": max_dev, "canonical_scripts": n_scripts, "subscribe_modes": SUB_MODES}));
        let cfg = DfsCfg {
            max_dev,
            max_execs: u64::MAX,
            wall: std::time::Duration::from_secs(wall),
            threads: rep.args.threads,
        };
        let mut coll: Collector<Obs> = Collector::new();
        let st = dfs_par(
            &cfg,
            |ch| {
                let si = ch.choose_free(n_scripts, "script");
                let sub = ch.choose_free(SUB_MODES, "subscribe");
                let obs = run_one(&all_scripts[si], sub, ch);
                (si, sub, obs)
            },
            |ch, (si, sub, obs)| {
                let script = &all_scripts[si];
                let verdict = judge(&obs);
                total_forwards += verdict.forwards as u64;
                if !obs.setup_ok {
                    // the setup is an honest, fault-free sync phase of four sessions on E-TASK
                    // (deterministic): a session that does not reach live mode is the subject's doing
                    rep.violation(
                        "setup/session-did-not-reach-live-mode".to_string(),
                        format!("four honest sessions with empty stores (consumer subscribed {}): not every session reached live mode; script {si}", SUB_TEXT[sub]),
                        json!({"part": "setup", "script": si, "subscribe_mode": sub}),
                    );
                }
                rep.state(&(&obs.io, &obs.consumer_ops, &obs.ends));
                rep.outcome(&(&obs.io, &obs.accepted, &obs.consumer_ops, &obs.ends));
                if verdict.nontrivial {
                    rep.nontrivial(&(script, sub, &ch.vector()[2..]));
                }
                for (key, detail) in verdict.violations {
                    let vector = ch.vector();
                    let rank = (ch.deviations() as u64, script.len() as u64, vector.clone());
                    coll.add(key, rank, &obs, || {
                        (
                            format!(
                                "script [{}], consumer subscribed {}, {} deviation(s) [{}]: {}. I/O per session: {:?}; OperationReceived emitted per session: {:?}; consumer saw (session, op) {:?}; session ends {:?}",
                                script.iter().map(|a| a.text()).collect::<Vec<_>>().join("; "),
                                SUB_TEXT[sub], ch.deviations(), brief(ch), detail, obs.io, obs.accepted, obs.consumer_ops, obs.ends
                            ),
                            json!({"part": name, "script_index": si, "script": format!("{script:?}"), "subscribe_mode": sub, "vector": vector, "choices": ch.describe()}),
                        )
                    });
                }
            },
        );
        for (key, e) in &coll.map {
            for _ in 0..2 {
                let ch = Chooser::new(e.rank.2.clone());
                let si = ch.choose_free(n_scripts, "script");
                let sub = ch.choose_free(SUB_MODES, "subscribe");
                let again = run_one(&all_scripts[si], sub, &ch);
                if again != e.obs {
                    rep.machinery_error(format!("C23 {name}: witness of {key} is not reproducible (uncaptured nondeterminism)"));
                }
            }
        }
        // real cases for the evidence file
        for si in [n_scripts / 3, n_scripts / 2, n_scripts - 1] {
            if rep.want_sample() {
                let ch = Chooser::new(vec![si as u32, 0]);
                let si = ch.choose_free(n_scripts, "script");
                let sub = ch.choose_free(SUB_MODES, "subscribe");
                let obs = run_one(&all_scripts[si], sub, &ch);
                rep.sample(json!({
                    "script": all_scripts[si].iter().map(|a| a.text()).collect::<Vec<_>>(),
                    "subscribe": SUB_TEXT[sub], "schedule": "default",
                    "wire_log_per_session": format!("{:?}", obs.io),
                    "consumer_saw": format!("{:?}", obs.consumer_ops),
                    "session_ends": format!("{:?}", obs.ends),
                }));
            }
        }
        for (key, e) in coll.map {
            match all.map.get_mut(&key) {
                Some(a) => {
                    a.count += e.count;
                    if e.rank < a.rank {
                        let c = a.count;
                        *a = e;
                        a.count = c;
                    }
                }
                None => {
                    all.map.insert(key, e);
                }
            }
        }
        rep.absorb_dfs(name, &st, max_dev);
    }
    all.flush(&mut rep);
    rep.set("exploration_parts", json!(part_info));
    rep.set("forwards_observed", json!(total_forwards));
    rep.finish()
}
