//! Deterministic, honestly signed operation chains (fixed key seeds) and common type aliases.
use std::sync::OnceLock;

use p2panda_core::{Body, Header, Operation, SigningKey, Topic, VerifyingKey};
use p2panda_sync::protocols::{LogSyncMessage, TopicLogSyncEvent, TopicLogSyncMessage};

pub type L = u64;
pub type E = u64;
pub type Msg = TopicLogSyncMessage<L, E>;
pub type Event = TopicLogSyncEvent<E>;
pub type Op = Operation<E>;

pub const LOG: L = 0;

pub fn key(seed: u8) -> SigningKey {
    SigningKey::from_bytes(&[seed; 32])
}

pub fn topic(n: u8) -> Topic {
    Topic::from([n; 32])
}

/// One signed operation with its encoded header.
#[derive(Clone, Debug)]
pub struct Signed {
    pub op: Op,
    pub header_bytes: Vec<u8>,
}

impl Signed {
    pub fn body_bytes(&self) -> Option<Vec<u8>> {
        self.op.body.as_ref().map(|b| b.to_bytes())
    }
    pub fn size(&self) -> u32 {
        self.header_bytes.len() as u32 + self.op.header.payload_size
    }
    pub fn live(&self) -> Msg {
        Msg::Live(self.op.header.clone(), self.op.body.clone())
    }
    pub fn sync_op(&self) -> Msg {
        Msg::Sync(LogSyncMessage::Operation(
            self.header_bytes.clone(),
            self.body_bytes(),
        ))
    }
}

/// A hash-linked chain `seq 0..n` of one author in log `LOG`.
pub fn chain(seed: u8, n: usize) -> Vec<Signed> {
    let sk = key(seed);
    let mut out: Vec<Signed> = Vec::new();
    for i in 0..n {
        let body = Body::new(format!("author {seed} op {i}").as_bytes());
        let mut header = Header::<E> {
            version: 1,
            verifying_key: sk.verifying_key(),
            signature: None,
            payload_size: body.size(),
            payload_hash: Some(body.hash()),
            seq_num: i as u32,
            backlink: out.last().map(|s| s.op.hash),
            extensions: LOG,
        };
        header.sign(&sk);
        assert!(header.verify());
        let header_bytes = header.to_bytes();
        out.push(Signed {
            op: Operation {
                hash: header.hash(),
                header,
                body: Some(body),
            },
            header_bytes,
        });
    }
    out
}

pub struct Fix {
    /// Local author's chain (seed 1), 5 operations.
    pub local: Vec<Signed>,
    /// Remote author's chain (seed 2), 6 operations.
    pub remote: Vec<Signed>,
    /// Third-party author (seed 9): the live operations x, y of C23.
    pub third: Vec<Signed>,
    pub local_key: VerifyingKey,
    pub remote_key: VerifyingKey,
}

pub fn fix() -> &'static Fix {
    static F: OnceLock<Fix> = OnceLock::new();
    F.get_or_init(|| Fix {
        local: chain(1, 5),
        remote: chain(2, 6),
        third: chain(9, 2),
        local_key: key(1).verifying_key(),
        remote_key: key(2).verifying_key(),
    })
}
