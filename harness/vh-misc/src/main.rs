//! Checks on small self-contained source files of p2panda that are compiled into the harness by
//! `#[path]` inclusion (no networking crates needed): C14 (processor/tasks.rs).
use explorer::{Args, Report};

mod c14;

fn main() {
    let args = Args::parse();
    explorer::quiet_panics();
    let code = explorer::guard_main(&args.property, || match args.property.as_str() {
        "C14" => c14::run(Report::new(&args, "model_checking")),
        other => {
            eprintln!("vh-misc: unknown property {other}");
            2
        }
    });
    std::process::exit(code);
}
