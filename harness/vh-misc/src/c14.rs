//! C14 Every pipeline submission completes with its own result.
//!
//! E-THREAD on the *included* real `p2panda/src/processor/tasks.rs`.  Submitter threads do what
//! `Pipeline::process` does (`track(id)`, hand the event to the pipeline, `ready()`), the pipeline
//! thread does what the pipeline loop does (`mark_as_done(id, result)` per received event).  Every
//! tokio synchronisation operation (RwLock/Mutex acquire and release, `notified()`,
//! `notify_waiters()`, `Notified::poll`) is a schedule point (seam S2); all interleavings within a
//! preemption bound are explored.  Oracle: no deadlock, every submitter returns the result that
//! was produced for *its* operation id.
use std::sync::{Arc, Mutex};

use explorer::thread::{run_threads, ThreadCtx, ThreadEnd};
use explorer::{dfs_par, json, DfsCfg, Report};
use tokio::sync::mpsc;

#[allow(dead_code)]
#[path = "/repo/p2panda/src/processor/tasks.rs"]
mod tasks;
use tasks::TaskTracker;

/// (operation id, serial number of the pipeline run that produced it)
type ResultT = (u32, u32);

struct Scenario {
    name: &'static str,
    /// per submitter thread: the ids it submits, one after the other
    submitters: Vec<Vec<u32>>,
}

fn scenarios(thorough: bool) -> Vec<Scenario> {
    let mut v = vec![
        Scenario { name: "one-submitter", submitters: vec![vec![7]] },
        Scenario { name: "resubmit-same-id", submitters: vec![vec![7, 7]] },
        Scenario { name: "two-submitters-same-id", submitters: vec![vec![7], vec![7]] },
        Scenario { name: "two-submitters-different-ids", submitters: vec![vec![7], vec![8]] },
    ];
    if thorough {
        v.push(Scenario { name: "same-id-and-resubmit", submitters: vec![vec![7, 7], vec![7]] });
        v.push(Scenario { name: "three-submitters-same-id", submitters: vec![vec![7], vec![7], vec![7]] });
    }
    v
}

pub fn run(mut rep: Report) -> i32 {
    let thorough = rep.thorough();
    let bound = if thorough { 3 } else { 2 };
    rep.rule = format!("scenarios of 1-3 submitter threads (same id, different ids, re-submission after completion) plus the pipeline thread on the real TaskTracker; every interleaving of their tokio synchronisation operations with at most {bound} preemptions; non-trivial = execution with at least one preemption in which every submitter returned");
    // executions are independent (own scheduler, own threads, thread-local hooks): explore them on
    // several workers; the set of executions explored does not depend on the worker count
    let threads = rep.args.threads.clamp(1, 12);
    let start = std::time::Instant::now();
    let budget = std::time::Duration::from_secs(if thorough { 1200 } else { 45 });
    // iterative context bounding, breadth first: every scenario with 0 preemptions, then every
    // scenario with <= 1, ...; a scenario stops at the first bound with a violation so the
    // reported counterexample has the fewest preemptions
    let scs = scenarios(thorough);
    let mut fired: std::collections::BTreeSet<&'static str> = Default::default();
    for b in 0..=bound {
        for sc in &scs {
        if fired.contains(sc.name) {
            continue;
        }
        let total: usize = sc.submitters.iter().map(|s| s.len()).sum();
        let before = rep.violation_count();
        let remaining = budget.saturating_sub(start.elapsed());
        if remaining.is_zero() {
            rep.not_exhaustive(&format!("{}: wall budget used up before preemption bound {b}", sc.name));
            continue;
        }
        let mut outcomes: Vec<(Vec<u32>, explorer::thread::ThreadRun, Vec<Option<Vec<ResultT>>>, usize)> = vec![];
        let stats = dfs_par(
            &DfsCfg { max_dev: b, wall: remaining, threads, ..Default::default() },
            |ch| {
                let tracker: TaskTracker<ResultT, u32> = TaskTracker::new();
                let (tx, mut rx) = mpsc::unbounded_channel::<u32>();
                let results: Arc<Mutex<Vec<Option<Vec<ResultT>>>>> = Arc::new(Mutex::new(vec![None; sc.submitters.len()]));
                let mut bodies: Vec<(String, Box<dyn FnOnce(ThreadCtx) + Send>)> = vec![];
                for (si, ids) in sc.submitters.iter().enumerate() {
                    let (tracker, tx, results, ids) = (tracker.clone(), tx.clone(), results.clone(), ids.clone());
                    bodies.push((
                        format!("submitter{si}"),
                        Box::new(move |cx: ThreadCtx| {
                            let got = cx.block_on(async {
                                let mut got = vec![];
                                for id in ids {
                                    // == Pipeline::process
                                    let task = tracker.track(id).await;
                                    let _ = tx.send(id);
                                    got.push(task.ready().await);
                                }
                                got
                            });
                            results.lock().unwrap()[si] = Some(got);
                        }),
                    ));
                }
                drop(tx);
                {
                    let tracker = tracker.clone();
                    bodies.push((
                        "pipeline".into(),
                        Box::new(move |cx: ThreadCtx| {
                            cx.block_on(async {
                                let mut serial = 0;
                                // == the pipeline loop: one mark_as_done per processed event
                                for _ in 0..total {
                                    let Some(id) = rx.recv().await else { break };
                                    serial += 1;
                                    tracker.mark_as_done(id, (id, serial)).await;
                                }
                            })
                        }),
                    ));
                }
                let run = run_threads(ch, 5_000, bodies);
                let res = results.lock().unwrap().clone();
                (run, res)
            },
            |ch, (run, res)| outcomes.push((ch.vector(), run, res, ch.deviations())),
        );
        rep.absorb_dfs(&format!("{}/preemptions<={b}", sc.name), &stats, b);
        for (vector, run, res, devs) in outcomes {
            if devs < b {
                continue; // already evaluated at the previous bound
            }
            rep.state(&(sc.name, &run.trace));
            rep.outcome(&(sc.name, format!("{:?}", run.end), &res));
            let replay = json!({"part": sc.name, "vector": vector, "schedule": run.trace});
            match &run.end {
                ThreadEnd::Completed => {
                    let mut ok = true;
                    for (si, ids) in sc.submitters.iter().enumerate() {
                        match &res[si] {
                            Some(got) if got.len() == ids.len() && got.iter().zip(ids).all(|(g, id)| g.0 == *id) => {}
                            other => {
                                ok = false;
                                rep.violation(
                                    "wrong-result",
                                    format!("scenario {}: submitter {si} submitted {ids:?} but got {other:?}; schedule {:?}", sc.name, run.trace),
                                    replay.clone(),
                                );
                            }
                        }
                    }
                    if ok && devs > 0 {
                        rep.nontrivial(&(sc.name, &run.trace));
                        if rep.want_sample() && devs == bound.min(2) {
                            rep.sample(json!({"scenario": sc.name, "schedule": run.trace, "results": format!("{res:?}")}));
                        }
                    }
                }
                ThreadEnd::Deadlock(who) => {
                    let waiting_submitters = who.iter().filter(|w| w.starts_with("submitter")).count();
                    rep.violation(
                        format!("deadlock/{}", if waiting_submitters > 0 { "submitter-never-returns" } else { "pipeline-stuck" }),
                        format!("scenario {}: threads {who:?} parked for ever with {devs} preemption(s); schedule {:?}", sc.name, run.trace),
                        replay,
                    );
                }
                ThreadEnd::Horizon => rep.violation("livelock", format!("scenario {}: schedule-point horizon exceeded; schedule {:?}", sc.name, run.trace), replay),
                ThreadEnd::Panicked(m) => rep.violation("panic", format!("scenario {}: {m}; schedule {:?}", sc.name, run.trace), replay),
            }
        }
        if rep.violation_count() > before {
            fired.insert(sc.name);
        }
        }
    }
    rep.set("preemption_bound", json!(bound));
    rep.assume("tokio's synchronisation primitives are linearizable; interleavings are explored between them, not inside them");
    rep.assume("memory-ordering effects below tokio's primitives are not modelled");
    rep.finish()
}
