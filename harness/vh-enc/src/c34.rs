//! C34 Message ratchet yields the sender's key for any delivery order.
//!
//! E-ENUM with shared prefixes (the ratchet state is `Clone` under `test_utils`): for every window
//! pair (F = maximum forward distance, T = out-of-order tolerance) every sequence of requested
//! generations (repeats = replays, gaps = loss, any order) is fed to the real
//! `DecryptionRatchet::secret_for_decryption`; the sender side is the real
//! `RatchetSecret::ratchet_forward` chain from the same secret.  Oracle = `RatchetWindow`, a
//! boring model of what the property states:
//!   accept  <=>  head - T <= g <= head + F  and  g was not handed out before
//!   (head = 1 + highest generation handed out so far, 0 initially),
//! an accepted request returns exactly the sender's (key, nonce) of that generation, a rejected
//! request leaves the (cloned) state usable.
use std::collections::BTreeSet;

use explorer::{Report, json};
use p2panda_core::cbor::decode_cbor;
use p2panda_encryption::crypto::Secret;
use p2panda_encryption::message_scheme::ratchet::RatchetKeyMaterial;
use p2panda_encryption::message_scheme::{DecryptionRatchet, DecryptionRatchetState, Generation, RatchetError, RatchetSecret};

use crate::par::{Acc, run_tasks};

fn secret32(bytes: [u8; 32]) -> Secret<32> {
    // `Secret::from_bytes` is crate-private; the public way in is serde (a 32-byte CBOR string).
    let mut cbor = vec![0x58, 0x20];
    cbor.extend_from_slice(&bytes);
    decode_cbor(&cbor[..]).expect("32-byte CBOR byte string decodes into Secret<32>")
}

fn sender_keys(seed: [u8; 32], n: usize) -> Vec<RatchetKeyMaterial> {
    let mut y = RatchetSecret::init(secret32(seed));
    let mut out = Vec::with_capacity(n);
    for i in 0..n {
        let (y2, g, km) = RatchetSecret::ratchet_forward(y).expect("sender ratchet");
        assert_eq!(g as usize, i, "sender generation numbering");
        out.push(km);
        y = y2;
    }
    out
}

#[derive(Clone, Default)]
struct RatchetWindow {
    head: u64,
    handed: BTreeSet<u64>,
}

#[derive(Clone, Copy, PartialEq, Eq, Debug, Hash)]
enum Verdict {
    Accept,
    TooFarAhead,
    TooOld,
    AlreadyHandedOut,
}

impl RatchetWindow {
    fn request(&mut self, g: u64, f: u64, t: u64) -> Verdict {
        if g > self.head + f {
            return Verdict::TooFarAhead;
        }
        if g + t < self.head {
            return Verdict::TooOld;
        }
        if self.handed.contains(&g) {
            return Verdict::AlreadyHandedOut;
        }
        self.handed.insert(g);
        if g >= self.head {
            self.head = g + 1;
        }
        Verdict::Accept
    }
}

fn err_name(e: &RatchetError) -> &'static str {
    match e {
        RatchetError::Hkdf(_) => "Hkdf",
        RatchetError::TooDistantInTheFuture => "TooDistantInTheFuture",
        RatchetError::TooDistantInThePast => "TooDistantInThePast",
        RatchetError::IndexOutOfBounds => "IndexOutOfBounds",
        RatchetError::SecretReuse => "SecretReuse",
    }
}

struct Ctx<'a> {
    f: u32,
    t: u32,
    keys: &'a [RatchetKeyMaterial],
    part: &'static str,
    acc: Acc,
    want_sample_len: usize,
}

/// Flags describing what a sequence exercised (for the non-triviality rule).
#[derive(Clone, Copy, Default)]
struct Seen {
    ooo: bool,
    skip: bool,
    reject: bool,
    replay: bool,
}

fn step(
    cx: &mut Ctx,
    real: &DecryptionRatchetState,
    model: &RatchetWindow,
    seq: &mut Vec<u64>,
    seen: Seen,
    g: u64,
) -> Option<(DecryptionRatchetState, RatchetWindow, Seen)> {
    cx.acc.evals += 1;
    cx.acc.transitions += 1;
    seq.push(g);
    let mut m2 = model.clone();
    let verdict = m2.request(g, cx.f as u64, cx.t as u64);
    let res = explorer::catch(|| DecryptionRatchet::secret_for_decryption(real.clone(), g as Generation, cx.f, cx.t));
    let mut s2 = seen;
    let replay = || json!({"part": cx.part, "max_forward": cx.f, "ooo_tolerance": cx.t, "generations": seq.clone()});
    let out = match res {
        Err(p) => {
            let r = replay();
            cx.acc.violation(
                "ratchet-panics",
                format!("F={} T={} generations {:?}: secret_for_decryption panicked: {p}", cx.f, cx.t, seq),
                r,
                seq.len() as u64,
            );
            None
        }
        Ok(Ok((y2, km))) => {
            cx.acc.outcome(&("ok", verdict));
            if verdict != Verdict::Accept {
                let class = match verdict {
                    Verdict::TooFarAhead => "beyond-forward-window",
                    Verdict::TooOld => "older-than-ooo-window",
                    Verdict::AlreadyHandedOut => "generation-handed-out-twice",
                    Verdict::Accept => unreachable!(),
                };
                let r = replay();
                cx.acc.violation(
                    format!("accepted-but-must-reject/{class}"),
                    format!(
                        "F={} T={} generations {:?}: the last request (generation {g}, ratchet head {} before it) returned key material, the window model says {verdict:?}",
                        cx.f, cx.t, seq, model.head
                    ),
                    r,
                    seq.len() as u64,
                );
                None
            } else if cx.keys.get(g as usize) != Some(&km) {
                let r = replay();
                cx.acc.violation(
                    format!("wrong-key-material/{}", if g < model.head { "out-of-order-generation" } else if g > model.head { "skipped-ahead-generation" } else { "next-generation" }),
                    format!(
                        "F={} T={} generations {:?}: key material returned for generation {g} differs from what the sender's ratchet produced for that generation",
                        cx.f, cx.t, seq
                    ),
                    r,
                    seq.len() as u64,
                );
                None
            } else {
                if g < model.head {
                    s2.ooo = true;
                }
                if g > model.head {
                    s2.skip = true;
                }
                cx.acc.state(&(cx.f, cx.t, m2.head, &m2.handed));
                Some((y2, m2, s2))
            }
        }
        Ok(Err(e)) => {
            cx.acc.outcome(&(err_name(&e), verdict));
            if verdict == Verdict::Accept {
                let r = replay();
                cx.acc.violation(
                    format!(
                        "rejected-inside-windows/{}/{}",
                        if g < model.head { "out-of-order-generation" } else if g > model.head { "skipped-ahead-generation" } else { "next-generation" },
                        err_name(&e)
                    ),
                    format!(
                        "F={} T={} generations {:?}: generation {g} is inside the windows (head {}), was never handed out, but the ratchet answered {e}",
                        cx.f, cx.t, seq, model.head
                    ),
                    r,
                    seq.len() as u64,
                );
                None
            } else {
                s2.reject = true;
                if verdict == Verdict::AlreadyHandedOut {
                    s2.replay = true;
                }
                // the caller keeps its previous state (the function consumed a clone)
                Some((real.clone(), m2, s2))
            }
        }
    };
    if let Some((_, _, s)) = &out {
        if (s.ooo || s.skip) && s.reject {
            cx.acc.nontrivial += 1;
        }
        if seq.len() == cx.want_sample_len && s.ooo && s.skip && s.replay && cx.acc.samples.len() < 1 {
            cx.acc.samples.push(json!({"part": cx.part, "max_forward": cx.f, "ooo_tolerance": cx.t, "generations": seq.clone(), "model_head_after": out.as_ref().unwrap().1.head}));
        }
    }
    out
}

/// Part "absolute": every sequence of length <= len over generations 0..=gmax.
fn dfs_abs(cx: &mut Ctx, real: &DecryptionRatchetState, model: &RatchetWindow, seq: &mut Vec<u64>, seen: Seen, len: usize, gmax: u64, first: Option<u64>) {
    if seq.len() == len {
        return;
    }
    for g in 0..=gmax {
        // work splitting: a task owns the sequences starting with its `first` generation
        if seq.is_empty() && first.is_some_and(|f| f != g) {
            continue;
        }
        if let Some((r2, m2, s2)) = step(cx, real, model, seq, seen, g) {
            dfs_abs(cx, &r2, &m2, seq, s2, len, gmax, None);
        }
        seq.pop();
    }
}

/// Part "relative": requests are chosen relative to the model's head and window edges, so large
/// windows and large generations are probed exactly at their boundaries.
fn dfs_rel(cx: &mut Ctx, real: &DecryptionRatchetState, model: &RatchetWindow, seq: &mut Vec<u64>, seen: Seen, len: usize) {
    if seq.len() == len {
        return;
    }
    let (h, f, t) = (model.head as i64, cx.f as i64, cx.t as i64);
    let mut cands: Vec<i64> = vec![h + f + 1, h + f, h + 1, h, h - 1, h - t, h - t - 1, h - t + 1, h + f - 1];
    if let Some(x) = model.handed.iter().next_back() {
        cands.push(*x as i64);
    }
    // lowest in-window generation not handed out yet
    if let Some(x) = ((h - t).max(0)..h).find(|x| !model.handed.contains(&(*x as u64))) {
        cands.push(x);
    }
    let mut gs: Vec<u64> = cands.into_iter().filter(|x| *x >= 0 && (*x as usize) < cx.keys.len()).map(|x| x as u64).collect();
    gs.sort();
    gs.dedup();
    for g in gs {
        if let Some((r2, m2, s2)) = step(cx, real, model, seq, seen, g) {
            dfs_rel(cx, &r2, &m2, seq, s2, len);
        }
        seq.pop();
    }
}

pub fn run(mut rep: Report) -> i32 {
    let thorough = rep.thorough();
    let (wmax, gmax, len) = if thorough { (4u32, 7u64, 8usize) } else { (3u32, 5u64, 6usize) };
    // u32::MAX = "unlimited", the largest value the configuration type admits
    let rel_windows: Vec<u32> = if thorough { vec![0, 1, 2, 7, 40, 300, u32::MAX - 1, u32::MAX] } else { vec![0, 1, 5, 40, u32::MAX] };
    let rel_len = if thorough { 6 } else { 4 };
    rep.rule = format!(
        "part absolute: windows F,T in 0..={wmax} x every request sequence of length <= {len} over generations 0..={gmax} (every prefix is one case); part relative: windows F,T in {rel_windows:?} x every sequence of length <= {rel_len} over requests placed on the window edges relative to the current head (head+F+1, head+F, head+F-1, head+1, head, head-1, head-T+1, head-T, head-T-1, latest handed-out, oldest not-handed-out); each request compared with the RatchetWindow model (accept/reject) and the sender's real key material; non-trivial = sequence with at least one accepted out-of-order or skipped-ahead generation and at least one rejection"
    );
    let seed = [7u8; 32];
    let nkeys = 2200usize;
    let keys = sender_keys(seed, nkeys);
    // sanity: the sender chain has no repeated key material (otherwise "exactly the key" is weak)
    for i in 1..64 {
        if keys[i] == keys[i - 1] {
            rep.machinery_error("sender ratchet produced identical key material for consecutive generations".into());
        }
    }

    #[derive(Clone)]
    struct Task {
        part: &'static str,
        f: u32,
        t: u32,
        first: Option<u64>,
    }
    let mut tasks = vec![];
    for f in 0..=wmax {
        for t in 0..=wmax {
            for g in 0..=gmax {
                tasks.push(Task { part: "absolute", f, t, first: Some(g) });
            }
        }
    }
    for &f in &rel_windows {
        for &t in &rel_windows {
            tasks.push(Task { part: "relative", f, t, first: None });
        }
    }
    let results = run_tasks(rep.args.threads, &tasks, |_, task| {
        let mut cx = Ctx { f: task.f, t: task.t, keys: &keys, part: task.part, acc: Acc::default(), want_sample_len: if task.part == "absolute" { len } else { rel_len } };
        let real = DecryptionRatchet::init(secret32(seed));
        let model = RatchetWindow::default();
        let mut seq = vec![];
        if task.part == "absolute" {
            dfs_abs(&mut cx, &real, &model, &mut seq, Seen::default(), len, gmax, task.first);
        } else {
            dfs_rel(&mut cx, &real, &model, &mut seq, Seen::default(), rel_len);
        }
        (task.clone(), cx.acc)
    });
    let mut accs = vec![];
    let mut per_window: std::collections::BTreeMap<(&'static str, u32, u32), (u64, u64)> = Default::default();
    for (task, acc) in results {
        let e = per_window.entry((task.part, task.f, task.t)).or_default();
        e.0 += acc.evals;
        e.1 += acc.nontrivial;
        accs.push(acc);
    }
    crate::par::merge_all(&mut rep, accs);
    for ((part, f, t), (n, nt)) in per_window {
        rep.part(json!({"part": part, "max_forward": f, "ooo_tolerance": t, "sequences": n, "nontrivial": nt}));
    }
    rep.assume("generations near u32::MAX (the overflow guard of the forward-window test) are not reachable by ratcheting and are outside the bound");
    rep.assume("window semantics as documented in ratchet.rs: a request g is inside the windows iff head - ooo_tolerance <= g <= head + maximum_forward_distance with head = next generation of the chain");
    rep.finish()
}
