//! Seam S3: the wall clock read by std `SystemTime::now()` (p2panda-encryption lifetimes and group
//! secret timestamps).
//!
//! The harness binary defines the C symbol `clock_gettime`; the statically linked std resolves its
//! reference to this definition.  Every call is forwarded to the raw syscall; for `CLOCK_REALTIME`
//! the calling thread's setting is applied afterwards:
//!
//! * `freeze(secs)`  — the wall clock reads exactly `secs.000000000` (deterministic boundary tests;
//!   the real clock keeps ticking, a pure offset would make `now == not_before` cases flaky);
//! * `set_offset(d)` — real time plus `d` seconds;
//! * `release()`     — stock behaviour.
//!
//! The setting is thread-local (const-initialised `Cell`s, no destructor, so the access is a plain
//! TLS load that is valid at any point of a thread's life): worker threads of a parallel
//! exploration own their clocks independently.  `CLOCK_MONOTONIC` (std `Instant`) is untouched.
use std::cell::Cell;
use std::time::{SystemTime, UNIX_EPOCH};

const UNSET: i64 = i64::MIN;

thread_local! {
    static FROZEN: Cell<i64> = const { Cell::new(UNSET) };
    static OFFSET: Cell<i64> = const { Cell::new(0) };
    static READS: Cell<u64> = const { Cell::new(0) };
}

#[unsafe(no_mangle)]
pub extern "C" fn clock_gettime(clk: libc::clockid_t, ts: *mut libc::timespec) -> libc::c_int {
    let r = unsafe { libc::syscall(libc::SYS_clock_gettime, clk as libc::c_long, ts) } as libc::c_int;
    if r == 0 && clk == libc::CLOCK_REALTIME && !ts.is_null() {
        let frozen = FROZEN.with(|c| c.get());
        READS.with(|c| c.set(c.get().wrapping_add(1)));
        unsafe {
            if frozen != UNSET {
                (*ts).tv_sec = frozen as libc::time_t;
                (*ts).tv_nsec = 0;
            } else {
                (*ts).tv_sec += OFFSET.with(|c| c.get()) as libc::time_t;
            }
        }
    }
    r
}

/// The wall clock of this thread reads exactly `secs` (UNIX seconds) from now on.
pub fn freeze(secs: u64) {
    FROZEN.with(|c| c.set(secs as i64));
}

pub fn set_offset(secs: i64) {
    FROZEN.with(|c| c.set(UNSET));
    OFFSET.with(|c| c.set(secs));
}

pub fn release() {
    FROZEN.with(|c| c.set(UNSET));
    OFFSET.with(|c| c.set(0));
}

/// Number of wall-clock readings taken on this thread through the seam.
pub fn reads() -> u64 {
    READS.with(|c| c.get())
}

pub fn now_secs() -> u64 {
    SystemTime::now().duration_since(UNIX_EPOCH).map(|d| d.as_secs()).unwrap_or(0)
}

/// Machinery self-test: `SystemTime::now()` must follow the seam exactly.  `Err` = the seam is not
/// in effect (symbol not interposed, std using another clock source, ...) and no verdict of a
/// clock-driven check can be trusted.
pub fn self_test() -> Result<(), String> {
    release();
    let before = reads();
    let real = now_secs();
    if reads() == before {
        return Err("SystemTime::now() did not call the harness clock_gettime (symbol not interposed)".into());
    }
    if real < 1_600_000_000 {
        return Err(format!("implausible real wall clock {real}"));
    }
    for t in [1u64, 1_000_000, 4_102_444_800, real + 12_345] {
        freeze(t);
        let d = SystemTime::now().duration_since(UNIX_EPOCH).map_err(|e| e.to_string())?;
        if d.as_secs() != t || d.subsec_nanos() != 0 {
            release();
            return Err(format!("frozen clock {t} but SystemTime::now() reads {}.{:09}", d.as_secs(), d.subsec_nanos()));
        }
    }
    for off in [-86_400i64, 1000, 10_000_000] {
        set_offset(off);
        let got = now_secs() as i64;
        release();
        let real2 = now_secs() as i64;
        // real time may tick between the two readings
        if !(got - off >= real as i64 && got - off <= real2 + 1) {
            return Err(format!("offset {off}: SystemTime::now() reads {got}, real clock {real}..{real2}"));
        }
    }
    // a second thread must not see this thread's setting
    freeze(777);
    let other = std::thread::spawn(now_secs).join().map_err(|_| "clock self-test thread panicked".to_string())?;
    let mine = now_secs();
    release();
    if mine != 777 || other == 777 {
        return Err(format!("thread-local clock broken: this thread reads {mine}, other thread reads {other}"));
    }
    // Instant must be unaffected
    freeze(5);
    let i0 = std::time::Instant::now();
    let i1 = std::time::Instant::now();
    release();
    if i1 < i0 {
        return Err("Instant went backwards under a frozen wall clock".into());
    }
    Ok(())
}
