//! C36 Latest group secret is chosen deterministically and new secrets are newer.
//!
//! Part "latest" (E-ENUM): a pool of secrets with colliding timestamps; every subset, every
//! insertion order, built through every construction path of `SecretBundle` (insert one by one,
//! `from_secrets`, every two-way `extend` split in both merge directions, CBOR round trip, removal
//! of every element).  Oracle: `latest()` is the maximum by (timestamp, id) of the secrets in the
//! bundle.  Every bundle is a fresh `HashMap` (fresh `RandomState`), the oracle does not depend on
//! iteration order.
//!
//! Part "generate" (seam S3): the wall clock is frozen behind / at / ahead of the bundle's latest
//! timestamp; `SecretBundle::generate` must return a secret strictly later (by (timestamp, id))
//! than the current latest, also along every sequence of generate+insert steps under every
//! clock-reading sequence.
use explorer::{Report, json};
use p2panda_core::cbor::{decode_cbor, encode_cbor};
use p2panda_encryption::Rng;
use p2panda_encryption::data_scheme::{GroupSecret, GroupSecretId, SecretBundle, SecretBundleState};

use crate::clock;

type Key = (u64, GroupSecretId);

fn key(s: &GroupSecret) -> Key {
    (s.timestamp(), s.id())
}

fn expect_latest(pool: &[GroupSecret], members: &[usize]) -> Option<Key> {
    members.iter().map(|i| key(&pool[*i])).max()
}

fn hex4(id: &GroupSecretId) -> String {
    id[..4].iter().map(|b| format!("{b:02x}")).collect()
}

struct Case<'a> {
    pool: &'a [GroupSecret],
    order: &'a [usize],
    path: String,
}

fn check_latest(rep: &mut Report, y: &SecretBundleState, c: &Case, members: &[usize]) {
    rep.transition();
    let want = expect_latest(c.pool, members);
    let got = y.latest().map(key);
    rep.outcome(&(want.map(|w| w.0), members.len()));
    let mut uniq: Vec<usize> = members.to_vec();
    uniq.sort();
    uniq.dedup();
    if y.len() != uniq.len() || !uniq.iter().all(|i| y.contains(&c.pool[*i].id())) {
        rep.violation(
            format!("bundle-content-wrong/{}", c.path.split(':').next().unwrap_or("")),
            format!("order {:?} via {}: bundle holds {} secrets, expected exactly the {} inserted ones", c.order, c.path, y.len(), uniq.len()),
            json!({"part": "latest", "order": c.order, "path": c.path}),
        );
        return;
    }
    if got != want {
        let class = match (&got, &want) {
            (None, Some(_)) => "none-for-non-empty-bundle",
            (Some(_), None) => "some-for-empty-bundle",
            (Some(g), Some(w)) if g.0 != w.0 => "older-timestamp-chosen",
            _ => "timestamp-tie-not-broken-by-highest-id",
        };
        let show = |k: &Option<Key>| k.as_ref().map(|k| format!("(ts {}, id {}..)", k.0, hex4(&k.1))).unwrap_or("none".into());
        rep.violation(
            format!("latest-not-maximum/{class}"),
            format!(
                "secrets (timestamp,id) {:?} put into a bundle in order {:?} via {}: latest() = {}, maximum by (timestamp, id) = {}",
                members.iter().map(|i| format!("({}, {}..)", c.pool[*i].timestamp(), hex4(&c.pool[*i].id()))).collect::<Vec<_>>(),
                c.order,
                c.path,
                show(&got),
                show(&want)
            ),
            json!({"part": "latest", "order": c.order, "path": c.path}),
        );
    }
}

fn permutations(items: &[usize], f: &mut dyn FnMut(&[usize])) {
    fn rec(cur: &mut Vec<usize>, rest: &mut Vec<usize>, f: &mut dyn FnMut(&[usize])) {
        if rest.is_empty() {
            f(cur);
            return;
        }
        for i in 0..rest.len() {
            let x = rest.remove(i);
            cur.push(x);
            rec(cur, rest, f);
            cur.pop();
            rest.insert(i, x);
        }
    }
    rec(&mut vec![], &mut items.to_vec(), f);
}

fn part_latest(rep: &mut Report, timestamps: &[u64], repeats: usize) {
    let pool: Vec<GroupSecret> = timestamps.iter().enumerate().map(|(i, t)| GroupSecret::new([(i as u8).wrapping_mul(37).wrapping_add(11); 32], *t)).collect();
    let n = pool.len();
    for mask in 0u32..(1 << n) {
        let subset: Vec<usize> = (0..n).filter(|i| mask & (1 << i) != 0).collect();
        let ts: Vec<u64> = subset.iter().map(|i| pool[*i].timestamp()).collect();
        let top = ts.iter().max().copied();
        let tie_at_top = top.map(|t| ts.iter().filter(|x| **x == t).count() >= 2).unwrap_or(false);
        permutations(&subset, &mut |order| {
            for rep_i in 0..repeats {
                rep.eval();
                if tie_at_top {
                    rep.nontrivial(&(mask, order, rep_i));
                }
                // path 1: insert one by one, checking after every step
                let mut y = SecretBundle::init();
                for (k, i) in order.iter().enumerate() {
                    y = SecretBundle::insert(y, pool[*i].clone());
                    check_latest(rep, &y, &Case { pool: &pool, order, path: format!("insert:{k}") }, &order[..=k]);
                }
                if order.is_empty() {
                    check_latest(rep, &y, &Case { pool: &pool, order, path: "init".into() }, &[]);
                }
                rep.state(&{
                    let mut s = order.to_vec();
                    s.sort();
                    s
                });
                // path 2: from_secrets in this order
                let y2 = SecretBundle::from_secrets(order.iter().map(|i| pool[*i].clone()).collect());
                check_latest(rep, &y2, &Case { pool: &pool, order, path: "from_secrets".into() }, order);
                // path 3: re-inserting the first element again at the end (duplicate) changes nothing
                if let Some(first) = order.first() {
                    let y3 = SecretBundle::insert(y.clone(), pool[*first].clone());
                    check_latest(rep, &y3, &Case { pool: &pool, order, path: "insert-duplicate".into() }, order);
                }
                // path 4: every two-way split merged with extend, both directions, and overlapping halves
                for p in 0..=order.len() {
                    let build = |idx: &[usize]| idx.iter().fold(SecretBundle::init(), |b, i| SecretBundle::insert(b, pool[*i].clone()));
                    let (l, r) = order.split_at(p);
                    let m1 = SecretBundle::extend(build(l), build(r));
                    check_latest(rep, &m1, &Case { pool: &pool, order, path: format!("extend:{p}:left<-right") }, order);
                    let m2 = SecretBundle::extend(build(r), build(l));
                    check_latest(rep, &m2, &Case { pool: &pool, order, path: format!("extend:{p}:right<-left") }, order);
                    if p > 0 && p < order.len() {
                        // overlapping: right half also contains the last element of the left half
                        let m3 = SecretBundle::extend(build(l), build(&order[p - 1..]));
                        check_latest(rep, &m3, &Case { pool: &pool, order, path: format!("extend:{p}:overlap") }, order);
                    }
                }
                // path 5: CBOR round trip (welcome messages carry bundles this way)
                match encode_cbor(&y).map_err(|e| e.to_string()).and_then(|b| decode_cbor::<SecretBundleState, _>(&b[..]).map_err(|e| e.to_string())) {
                    Ok(y5) => check_latest(rep, &y5, &Case { pool: &pool, order, path: "cbor-roundtrip".into() }, order),
                    Err(e) => rep.violation(
                        "bundle-cbor-roundtrip-fails",
                        format!("bundle of {:?} does not survive encode/decode: {e}", order),
                        json!({"part": "latest", "order": order, "path": "cbor-roundtrip"}),
                    ),
                }
                // path 6: removal of every element
                for (k, i) in order.iter().enumerate() {
                    let (y6, removed) = SecretBundle::remove(y.clone(), &pool[*i].id());
                    let rest: Vec<usize> = order.iter().copied().filter(|x| x != i).collect();
                    if removed.as_ref().map(key) != Some(key(&pool[*i])) {
                        rep.violation(
                            "remove-returns-wrong-secret",
                            format!("order {:?}: remove of element {k} returned {:?}", order, removed.map(|s| s.timestamp())),
                            json!({"part": "latest", "order": order, "path": format!("remove:{k}")}),
                        );
                    }
                    check_latest(rep, &y6, &Case { pool: &pool, order, path: format!("remove:{k}") }, &rest);
                }
            }
            if rep.want_sample() && tie_at_top && order.len() == n {
                rep.sample(json!({"part": "latest", "timestamps_in_insertion_order": order.iter().map(|i| pool[*i].timestamp()).collect::<Vec<_>>(), "expected_latest": expect_latest(&pool, order).map(|k| format!("ts {} id {}..", k.0, hex4(&k.1)))}));
            }
        });
    }
}

fn gen_violation(rep: &mut Report, class: &str, what: String, replay: explorer::Value) {
    rep.violation(format!("generated-secret-not-newer/{class}"), what, replay);
}

/// One generate under a frozen clock; returns the new secret if the oracle passed.
fn generate_checked(rep: &mut Report, y: &SecretBundleState, clock_at: u64, rng: &Rng, ctx: &explorer::Value) -> Option<GroupSecret> {
    rep.transition();
    clock::freeze(clock_at);
    let before = clock::reads();
    let r = explorer::catch(|| SecretBundle::generate(y, rng));
    let read_clock = clock::reads() > before;
    let latest = y.latest().map(key);
    let rel = match latest {
        None => "empty-bundle",
        Some((t, _)) if clock_at < t => "clock-behind-latest",
        Some((t, _)) if clock_at == t => "clock-equal-latest",
        Some(_) => "clock-ahead-of-latest",
    };
    match r {
        Err(p) => {
            gen_violation(rep, &format!("{rel}/panic"), format!("generate() with wall clock {clock_at} and latest {:?} panicked: {p}", latest.map(|l| l.0)), ctx.clone());
            None
        }
        Ok(Err(e)) => {
            gen_violation(rep, &format!("{rel}/error"), format!("generate() with wall clock {clock_at} and latest {:?} failed: {e}", latest.map(|l| l.0)), ctx.clone());
            None
        }
        Ok(Ok(s)) => {
            if !read_clock {
                rep.machinery_error("SecretBundle::generate did not read the wall clock through seam S3".into());
            }
            rep.outcome(&(rel, latest.map(|l| s.timestamp() as i128 - l.0 as i128), s.timestamp() == clock_at));
            let newer = match latest {
                None => true,
                Some(l) => key(&s) > l,
            };
            if !newer {
                gen_violation(
                    rep,
                    rel,
                    format!(
                        "bundle latest has timestamp {}, wall clock reads {clock_at}: generate() returned a secret with timestamp {} which is not strictly later than the latest by (timestamp, id)",
                        latest.unwrap().0,
                        s.timestamp()
                    ),
                    ctx.clone(),
                );
                return None;
            }
            // inserting it must make it the latest
            let y2 = SecretBundle::insert(y.clone(), s.clone());
            if y2.latest().map(key) != Some(key(&s)) {
                gen_violation(
                    rep,
                    &format!("{rel}/not-latest-after-insert"),
                    format!("wall clock {clock_at}: generated secret (ts {}) is not latest() after insertion (latest ts {:?})", s.timestamp(), y2.latest().map(|l| l.timestamp())),
                    ctx.clone(),
                );
                return None;
            }
            Some(s)
        }
    }
}

fn part_generate(rep: &mut Report, thorough: bool) {
    // base bundles: (name, timestamps)
    let t0: u64 = 1_700_000_000;
    let bases: Vec<(&str, Vec<u64>)> = vec![
        ("empty", vec![]),
        ("single", vec![t0]),
        ("tie-at-top", vec![t0 - 5, t0, t0]),
        ("latest-far-future", vec![t0, t0 + 1_000_000_000]),
        ("latest-zero", vec![0]),
        ("latest-one", vec![0, 1]),
        ("latest-max-minus-one", vec![t0, u64::MAX - 1]),
    ];
    let deltas: Vec<i64> = if thorough { vec![-1_000_000, -100, -1, 0, 1, 100, 1_000_000] } else { vec![-100, -1, 0, 1, 100] };
    let repeats = if thorough { 8 } else { 3 };
    for (name, tss) in &bases {
        let secrets: Vec<GroupSecret> = tss.iter().enumerate().map(|(i, t)| GroupSecret::new([(i as u8) ^ 0x5a; 32], *t)).collect();
        let y = SecretBundle::from_secrets(secrets);
        let latest_ts = y.latest().map(|l| l.timestamp());
        let mut clocks: Vec<u64> = vec![];
        match latest_ts {
            None => clocks.extend([0, 1, t0]),
            Some(l) => {
                for d in &deltas {
                    if let Some(c) = (l as i128 + *d as i128).try_into().ok().filter(|c: &u64| *c <= i64::MAX as u64) {
                        clocks.push(c);
                    }
                }
                clocks.extend([0, t0]);
            }
        }
        clocks.sort();
        clocks.dedup();
        for &c in &clocks {
            for k in 0..repeats {
                rep.eval();
                let rng = Rng::from_seed([(k as u8).wrapping_mul(17).wrapping_add(3); 32]);
                let ctx = json!({"part": "generate-single", "base": name, "base_timestamps": tss, "clock": c, "seed": k});
                let r = generate_checked(rep, &y, c, &rng, &ctx);
                if latest_ts.is_some_and(|l| c <= l) {
                    rep.nontrivial(&("single", name, c, k));
                }
                if let (Some(s), true) = (&r, rep.want_sample()) {
                    if latest_ts.is_some_and(|l| c < l) {
                        rep.sample(json!({"part": "generate-single", "base": name, "latest_timestamp": latest_ts, "clock": c, "generated_timestamp": s.timestamp()}));
                    }
                }
            }
        }
    }
    // sequences: generate+insert repeatedly under every clock-reading sequence (relative to the
    // running latest): the wall clock may jump backwards, stand still or move on between steps.
    let steps = if thorough { 6 } else { 4 };
    let rel: Vec<i64> = if thorough { vec![-50, -1, 0, 1, 50] } else { vec![-50, 0, 50] };
    let k = rel.len() as u64;
    for (name, tss) in bases.iter().filter(|b| matches!(b.0, "empty" | "single" | "tie-at-top")) {
        let secrets: Vec<GroupSecret> = tss.iter().enumerate().map(|(i, t)| GroupSecret::new([(i as u8) ^ 0x5a; 32], *t)).collect();
        for len in 1..=steps {
            for code in 0..k.pow(len as u32) {
                rep.eval();
                let mut c = code;
                let mut y = SecretBundle::from_secrets(secrets.clone());
                let rng = Rng::from_seed([9; 32]);
                let mut readings = vec![];
                let mut nontrivial = false;
                for _ in 0..len {
                    let d = rel[(c % k) as usize];
                    c /= k;
                    let base = y.latest().map(|l| l.timestamp()).unwrap_or(t0);
                    let at = (base as i128 + d as i128).max(0) as u64;
                    readings.push(at);
                    if y.latest().is_some() && d <= 0 {
                        nontrivial = true;
                    }
                    let ctx = json!({"part": "generate-sequence", "base": name, "base_timestamps": tss, "clock_readings": readings});
                    match generate_checked(rep, &y, at, &rng, &ctx) {
                        Some(s) => y = SecretBundle::insert(y, s),
                        None => break,
                    }
                }
                if nontrivial {
                    rep.nontrivial(&("seq", name, &readings));
                }
                rep.state(&("seq", name, &readings));
            }
        }
    }
    clock::release();
}

pub fn run(mut rep: Report) -> i32 {
    let thorough = rep.thorough();
    let timestamps: Vec<u64> = if thorough { vec![0, 0, 5, 5, 6, 6, 7, 7] } else { vec![5, 5, 6, 6, 7, 7] };
    let repeats = if thorough { 2 } else { 3 };
    rep.rule = format!(
        "part latest: pool of secrets with timestamps {timestamps:?}, every subset x every insertion order x {repeats} fresh HashMap instances, bundle built by insert / from_secrets / duplicate insert / every extend split (both directions, overlapping) / CBOR round trip / removal of each element, latest() compared with max by (timestamp, id) after every step; part generate: frozen wall clock behind/at/ahead of the latest timestamp for 7 base bundles, and every generate+insert sequence under every clock-reading sequence; non-trivial = (latest) the highest timestamp is shared by >= 2 secrets of the subset, (generate) the wall clock is not ahead of the current latest"
    );
    part_latest(&mut rep, &timestamps, repeats);
    part_generate(&mut rep, thorough);
    // Information only (ill-formed input, not part of the verdict): the id is the hash of the key
    // bytes alone, so the same key inserted with two timestamps overwrites — the surviving
    // timestamp, and with it possibly latest(), depends on the insertion order.
    {
        let other = GroupSecret::new([9; 32], 6);
        let (k5, k7) = (GroupSecret::new([8; 32], 5), GroupSecret::new([8; 32], 7));
        let a = [other.clone(), k5.clone(), k7.clone()].into_iter().fold(SecretBundle::init(), SecretBundle::insert);
        let b = [other.clone(), k7, k5].into_iter().fold(SecretBundle::init(), SecretBundle::insert);
        rep.set(
            "info_same_key_inserted_with_two_timestamps",
            json!({"insert_order_5_then_7_latest_ts": a.latest().map(|l| l.timestamp()), "insert_order_7_then_5_latest_ts": b.latest().map(|l| l.timestamp()),
                   "order_dependent": a.latest().map(key) != b.latest().map(key), "in_verdict": false}),
        );
    }
    rep.assume("std HashMap iteration order (RandomState) is not owned: every case builds fresh maps and is repeated; the oracle (max by (timestamp,id) of the contents) does not depend on iteration order, so no false alarm is possible");
    rep.assume("secrets in one bundle have distinct key bytes (distinct ids); the same key with two different timestamps is an ill-formed input and outside the property");
    rep.assume("latest timestamp = u64::MAX excluded: no strictly later timestamp exists");
    rep.finish()
}
