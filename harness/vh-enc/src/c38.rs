//! C38 Expired or invalid key bundles are never accepted or used.
//!
//! E-DFS with shared prefixes (`KeyRegistryState` is `Clone`) under the owned wall clock (seam S3,
//! frozen readings).  Alphabet: add_longterm(b) / add_onetime(b) for every bundle b of a pool
//! (lifetimes before / straddling / after "now" including the exact boundary values, signatures
//! valid / one flipped bit / made with another identity's secret), set the wall clock to one of a
//! few readings (forwards into expiry, onto the boundaries, and backwards), key_bundle(long-term),
//! key_bundle(one-time), remove_expired.  Every action sequence up to the depth bound.
//!
//! Oracle (safety, exactly the property): an add succeeds only if the signature verifies and
//! not_before < now < not_after at the current reading; every bundle returned by
//! `KeyRegistry::key_bundle` has a verifying signature and a lifetime valid at the reading at which
//! it is returned, and was accepted for that member.  (Conversely a bundle with a valid signature
//! whose lifetime strictly contains "now" must be accepted — otherwise the check would be vacuous.)
use explorer::{Report, json};
use p2panda_encryption::Rng;
use p2panda_encryption::crypto::x25519::SecretKey;
use p2panda_encryption::crypto::xeddsa::XSignature;
use p2panda_encryption::key_bundle::{Lifetime, LongTermKeyBundle, OneTimeKeyBundle, OneTimePreKey, PreKey};
use p2panda_encryption::key_registry::{KeyRegistry, KeyRegistryState};
use p2panda_encryption::traits::{KeyBundle, PreKeyRegistry};

use crate::clock;
use crate::par::{Acc, run_tasks};

const T0: u64 = 1_800_000_000;

#[derive(Clone, Copy, PartialEq, Eq, Debug, Hash)]
enum Sig {
    Valid,
    FlippedBit,
    OtherIdentity,
}

#[derive(Clone)]
struct PoolBundle {
    name: String,
    nb: u64,
    na: u64,
    sig: Sig,
    longterm: LongTermKeyBundle,
    onetime: OneTimeKeyBundle,
}

impl PoolBundle {
    fn lifetime_valid(&self, now: u64) -> bool {
        self.nb < now && now < self.na
    }
    fn lifetime_class(&self, now: u64) -> &'static str {
        if self.nb >= self.na {
            "lifetime-empty"
        } else if now == self.nb || now == self.na {
            "lifetime-boundary"
        } else if now > self.na {
            "lifetime-expired"
        } else if now < self.nb {
            "lifetime-not-yet-valid"
        } else {
            "lifetime-valid"
        }
    }
}

fn build_pool(full: bool) -> Vec<PoolBundle> {
    let rng = Rng::from_seed([3; 32]);
    let identity = SecretKey::from_bytes(rng.random_array().unwrap());
    let other = SecretKey::from_bytes(rng.random_array().unwrap());
    let identity_key = identity.verifying_key().unwrap();
    // (name, not_before, not_after)
    let lifetimes: Vec<(&str, u64, u64)> = vec![
        ("past", T0 - 200, T0 - 100),
        ("future", T0 + 100, T0 + 200),
        ("straddle-short", T0 - 100, T0 + 50),
        ("straddle-long", T0 - 100, T0 + 1000),
        ("starts-at-T0", T0, T0 + 100),
        ("ends-at-T0", T0 - 100, T0),
        ("empty", T0 + 10, T0 - 10),
    ];
    let mut pool = vec![];
    let mut onetime_id = 0u64;
    for (lname, nb, na) in &lifetimes {
        // The bundles of one lifetime share their signed pre-key (as the one-time bundles of a
        // member do) and differ in signature and one-time pre-key: a bad signature must be
        // refused also when a good bundle with the same pre-key is already stored.
        let prekey_secret = SecretKey::from_bytes(rng.random_array().unwrap());
        for sig in [Sig::Valid, Sig::FlippedBit, Sig::OtherIdentity] {
            if !full && sig != Sig::Valid && !matches!(*lname, "straddle-short" | "straddle-long") {
                continue;
            }
            let prekey = PreKey::new(prekey_secret.verifying_key().unwrap(), Lifetime::from_range(*nb, *na));
            let signature = match sig {
                Sig::Valid => prekey.sign(&identity, &rng).unwrap(),
                Sig::OtherIdentity => prekey.sign(&other, &rng).unwrap(),
                Sig::FlippedBit => {
                    let mut b = prekey.sign(&identity, &rng).unwrap().to_bytes();
                    b[17] ^= 0x04;
                    XSignature::from_bytes(b)
                }
            };
            let onetime_secret = SecretKey::from_bytes(rng.random_array().unwrap());
            let onetime_prekey = OneTimePreKey::new(onetime_secret.verifying_key().unwrap(), onetime_id);
            onetime_id += 1;
            pool.push(PoolBundle {
                name: format!("{lname}/{sig:?}"),
                nb: *nb,
                na: *na,
                sig,
                longterm: LongTermKeyBundle::new(identity_key, prekey, signature),
                onetime: OneTimeKeyBundle::new(identity_key, prekey, signature, Some(onetime_prekey)),
            });
        }
    }
    pool
}

#[derive(Clone, Copy, PartialEq, Eq, Debug, Hash)]
enum Act {
    AddLong(usize),
    AddOnce(usize),
    Clock(u64),
    GetLong,
    GetOnce,
    RemoveExpired,
}

fn act_name(pool: &[PoolBundle], a: &Act) -> String {
    match a {
        Act::AddLong(i) => format!("add_longterm({})", pool[*i].name),
        Act::AddOnce(i) => format!("add_onetime({})", pool[*i].name),
        Act::Clock(c) => format!("clock=T0{:+}", *c as i64 - T0 as i64),
        Act::GetLong => "key_bundle(long-term)".into(),
        Act::GetOnce => "key_bundle(one-time)".into(),
        Act::RemoveExpired => "remove_expired".into(),
    }
}

#[derive(Clone, Default)]
struct Model {
    accepted_long: Vec<usize>,
    accepted_once: Vec<usize>,
    /// some bundle was accepted and the clock moved afterwards (non-triviality)
    clock_moved_after_add: bool,
    returned: u32,
}

struct Cx<'a> {
    pool: &'a [PoolBundle],
    acts: &'a [Act],
    depth: usize,
    acc: Acc,
}

const MEMBER: usize = 0;

fn step(cx: &mut Cx, y: &KeyRegistryState<usize>, m: &Model, now: u64, path: &mut Vec<Act>, a: Act) -> Option<(KeyRegistryState<usize>, Model, u64)> {
    cx.acc.evals += 1;
    cx.acc.transitions += 1;
    path.push(a);
    clock::freeze(now);
    let pool = cx.pool;
    let replay = |path: &Vec<Act>| json!({"part": "registry", "actions": path.iter().map(|a| act_name(pool, a)).collect::<Vec<_>>()});
    let trace = |path: &Vec<Act>| path.iter().map(|a| act_name(pool, a)).collect::<Vec<_>>().join(" ; ");
    let mut m2 = m.clone();
    let out = match a {
        Act::Clock(c) => {
            if !(m.accepted_long.is_empty() && m.accepted_once.is_empty()) && c != now {
                m2.clock_moved_after_add = true;
            }
            Some((y.clone(), m2, c))
        }
        Act::RemoveExpired => {
            let r = explorer::catch(|| KeyRegistry::remove_expired(y.clone()));
            match r {
                Ok(y2) => Some((y2, m2, now)),
                Err(p) => {
                    let rp = replay(path);
                    cx.acc.violation("registry-panics/remove_expired", format!("[{}] panicked: {p}", trace(path)), rp, rank(path, now, None));
                    None
                }
            }
        }
        Act::AddLong(i) | Act::AddOnce(i) => {
            let b = &pool[i];
            let kind = if matches!(a, Act::AddLong(_)) { "longterm" } else { "onetime" };
            let r = explorer::catch(|| match a {
                Act::AddLong(_) => KeyRegistry::add_longterm_bundle(y.clone(), MEMBER, b.longterm.clone()).map_err(|e| e.to_string()),
                _ => KeyRegistry::add_onetime_bundle(y.clone(), MEMBER, b.onetime.clone()).map_err(|e| e.to_string()),
            });
            let ok_expected = b.sig == Sig::Valid && b.lifetime_valid(now);
            cx.acc.outcome(&("add", kind, b.sig, b.lifetime_class(now), r.as_ref().map(|x| x.is_ok()).unwrap_or(false)));
            match r {
                Err(p) => {
                    let rp = replay(path);
                    cx.acc.violation(format!("registry-panics/add_{kind}"), format!("[{}] panicked: {p}", trace(path)), rp, rank(path, now, None));
                    None
                }
                Ok(Ok(y2)) => {
                    if !ok_expected {
                        let why = if b.sig != Sig::Valid { format!("signature-{:?}", b.sig).to_lowercase() } else { b.lifetime_class(now).to_string() };
                        let rp = replay(path);
                        cx.acc.violation(
                            format!("accepted-invalid/{kind}/{why}"),
                            format!(
                                "[{}] at wall clock T0{:+}: add_{kind}_bundle accepted a bundle with lifetime (T0{:+}, T0{:+}) and signature {:?}",
                                trace(path),
                                now as i64 - T0 as i64,
                                b.nb as i64 - T0 as i64,
                                b.na as i64 - T0 as i64,
                                b.sig
                            ),
                            rp,
                            rank(path, now, None),
                        );
                        None
                    } else {
                        if kind == "longterm" { m2.accepted_long.push(i) } else { m2.accepted_once.push(i) }
                        Some((y2, m2, now))
                    }
                }
                Ok(Err(e)) => {
                    if ok_expected {
                        let rp = replay(path);
                        cx.acc.violation(
                            format!("rejected-valid/{kind}"),
                            format!("[{}] at wall clock T0{:+}: a correctly signed bundle whose lifetime (T0{:+}, T0{:+}) strictly contains now was rejected: {e}", trace(path), now as i64 - T0 as i64, b.nb as i64 - T0 as i64, b.na as i64 - T0 as i64),
                            rp,
                            rank(path, now, None),
                        );
                        None
                    } else {
                        Some((y.clone(), m2, now))
                    }
                }
            }
        }
        Act::GetLong | Act::GetOnce => {
            let kind = if a == Act::GetLong { "longterm" } else { "onetime" };
            // (new state, index of the returned pool bundle or usize::MAX for an unknown one)
            let r: Result<Result<(KeyRegistryState<usize>, Option<usize>), String>, String> = explorer::catch(|| {
                if a == Act::GetLong {
                    <KeyRegistry<usize> as PreKeyRegistry<usize, LongTermKeyBundle>>::key_bundle(y.clone(), &MEMBER)
                        .map(|(y2, b)| (y2, b.map(|b| pool.iter().position(|p| p.longterm == b).unwrap_or(usize::MAX))))
                        .map_err(|e| e.to_string())
                } else {
                    <KeyRegistry<usize> as PreKeyRegistry<usize, OneTimeKeyBundle>>::key_bundle(y.clone(), &MEMBER)
                        .map(|(y2, b)| (y2, b.map(|b| pool.iter().position(|p| p.onetime == b).unwrap_or(usize::MAX))))
                        .map_err(|e| e.to_string())
                }
            });
            match r {
                Err(p) => {
                    let rp = replay(path);
                    cx.acc.violation(format!("registry-panics/key_bundle_{kind}"), format!("[{}] panicked: {p}", trace(path)), rp, rank(path, now, None));
                    None
                }
                Ok(Err(e)) => {
                    cx.acc.outcome(&("get", kind, "err", e));
                    Some((y.clone(), m2, now))
                }
                Ok(Ok((y2, None))) => {
                    let had_valid = if kind == "longterm" { &m.accepted_long } else { &m.accepted_once }.iter().any(|i| pool[*i].lifetime_valid(now));
                    cx.acc.outcome(&("get", kind, "none", had_valid));
                    Some((y2, m2, now))
                }
                Ok(Ok((y2, Some(i)))) => {
                    if i == usize::MAX {
                        let rp = replay(path);
                        cx.acc.violation(format!("returned-unknown-bundle/{kind}"), format!("[{}]: key_bundle returned a bundle that was never added", trace(path)), rp, rank(path, now, None));
                        return None;
                    }
                    let b = &pool[i];
                    let accepted = if kind == "longterm" { &m.accepted_long } else { &m.accepted_once };
                    cx.acc.outcome(&("get", kind, "some", b.sig, b.lifetime_class(now)));
                    // the real verdict of the bundle's own verify() at this reading, for the report
                    let self_check = if kind == "longterm" { b.longterm.verify().is_ok() } else { b.onetime.verify().is_ok() };
                    if !accepted.contains(&i) {
                        let rp = replay(path);
                        cx.acc.violation(format!("returned-never-accepted-bundle/{kind}"), format!("[{}]: key_bundle returned bundle {} which the registry had rejected", trace(path), b.name), rp, rank(path, now, None));
                        None
                    } else if b.sig != Sig::Valid {
                        let rp = replay(path);
                        cx.acc.violation(format!("returned-invalid/{kind}/signature"), format!("[{}]: key_bundle returned bundle {} whose signature does not verify", trace(path), b.name), rp, rank(path, now, None));
                        None
                    } else if !b.lifetime_valid(now) {
                        let rp = replay(path);
                        cx.acc.violation(
                            format!("returned-invalid/{kind}/lifetime"),
                            format!(
                                "[{}]: at wall clock T0{:+} key_bundle({kind}) returned a bundle whose lifetime is (T0{:+}, T0{:+}) ({}); the bundle's own verify() at this moment says {}",
                                trace(path),
                                now as i64 - T0 as i64,
                                b.nb as i64 - T0 as i64,
                                b.na as i64 - T0 as i64,
                                b.lifetime_class(now),
                                if self_check { "valid" } else { "invalid" }
                            ),
                            rp,
                            rank(path, now, Some(b.lifetime_class(now))),
                        );
                        // keep exploring behind the violation: the state is still meaningful
                        m2.returned += 1;
                        Some((y2, m2, now))
                    } else {
                        m2.returned += 1;
                        Some((y2, m2, now))
                    }
                }
            }
        }
    };
    if let Some((_, m3, _)) = &out {
        if m3.clock_moved_after_add && m3.returned > 0 {
            cx.acc.nontrivial += 1;
        }
        if path.len() == cx.depth && m3.clock_moved_after_add && m3.returned > 1 && cx.acc.samples.is_empty() {
            cx.acc.samples.push(json!({"actions": path.iter().map(|a| act_name(pool, a)).collect::<Vec<_>>(), "bundles_returned": m3.returned}));
        }
    }
    out
}

/// Representative choice: fewest actions first, then clearly expired before not-yet-valid before
/// the exact boundary, then the shortest text.
fn rank(path: &[Act], _now: u64, class: Option<&str>) -> u64 {
    let c = match class {
        Some("lifetime-expired") => 0,
        Some("lifetime-not-yet-valid") => 1,
        Some("lifetime-boundary") => 2,
        _ => 3,
    };
    path.len() as u64 * 10 + c
}

fn dfs(cx: &mut Cx, y: &KeyRegistryState<usize>, m: &Model, now: u64, path: &mut Vec<Act>, first: Option<usize>) {
    if path.len() == cx.depth {
        return;
    }
    for (ai, a) in cx.acts.iter().enumerate() {
        if path.is_empty() && first.is_some_and(|f| f != ai) {
            continue;
        }
        // setting the clock to the reading it already has is the Δ = 0 case; keep it only once per position
        if let Some((y2, m2, now2)) = step(cx, y, m, now, path, *a) {
            cx.acc.state(&(&m2.accepted_long, &m2.accepted_once, now2, m2.returned));
            dfs(cx, &y2, &m2, now2, path, None);
        }
        path.pop();
    }
}

pub fn run(mut rep: Report) -> i32 {
    let thorough = rep.thorough();
    let depth = if thorough { 5 } else { 4 };
    let pool = build_pool(false);
    let clocks: Vec<u64> = vec![T0 - 1, T0, T0 + 1, T0 + 50, T0 + 150];
    let mut acts: Vec<Act> = vec![];
    for i in 0..pool.len() {
        acts.push(Act::AddLong(i));
        acts.push(Act::AddOnce(i));
    }
    acts.extend(clocks.iter().map(|c| Act::Clock(*c)));
    acts.extend([Act::GetLong, Act::GetOnce, Act::RemoveExpired]);
    rep.rule = format!(
        "every action sequence of length <= {depth} over {} actions: add_longterm/add_onetime of {} pool bundles (7 lifetimes relative to T0: past, future, straddling short/long, starting exactly at T0, ending exactly at T0, empty; signatures valid everywhere, flipped-bit and other-identity on the two straddling lifetimes), wall clock set to T0-1/T0/T0+1/T0+50/T0+150 (frozen readings through seam S3), key_bundle(long-term), key_bundle(one-time), remove_expired; start reading T0; non-trivial = a bundle was accepted, the clock moved afterwards and key_bundle returned a bundle",
        acts.len(),
        pool.len()
    );
    // self-check of the pool against the real verify() at T0 (binds the harness' notion of
    // valid/invalid to the code's for the signature dimension)
    clock::freeze(T0 + 1);
    for b in &pool {
        let real = b.longterm.verify().is_ok();
        let want = b.sig == Sig::Valid && b.lifetime_valid(T0 + 1);
        if b.sig == Sig::Valid && b.lifetime_valid(T0 + 1) && !real {
            rep.machinery_error(format!("pool bundle {} should verify at T0+1 but does not", b.name));
        }
        let _ = want;
    }
    let tasks: Vec<usize> = (0..acts.len()).collect();
    let results = run_tasks(rep.args.threads, &tasks, |_, first| {
        let mut cx = Cx { pool: &pool, acts: &acts, depth, acc: Acc::default() };
        let y = KeyRegistry::<usize>::init();
        let mut path = vec![];
        dfs(&mut cx, &y, &Model::default(), T0, &mut path, Some(*first));
        clock::release();
        cx.acc
    });
    for (i, acc) in results.iter().enumerate() {
        rep.part(json!({"part": "registry", "first_action": act_name(&pool, &acts[i]), "sequences": acc.evals}));
    }
    crate::par::merge_all(&mut rep, results);
    // Full cross product lifetimes x signatures, single adds at every clock reading (depth 2:
    // clock, add) — covers the combinations left out of the sequence alphabet.
    let full = build_pool(true);
    for b in &full {
        for &c in &clocks {
            for kind in ["longterm", "onetime"] {
                rep.eval();
                rep.transition();
                clock::freeze(c);
                let y = KeyRegistry::<usize>::init();
                let ok = if kind == "longterm" {
                    KeyRegistry::add_longterm_bundle(y, MEMBER, b.longterm.clone()).is_ok()
                } else {
                    KeyRegistry::add_onetime_bundle(y, MEMBER, b.onetime.clone()).is_ok()
                };
                let want = b.sig == Sig::Valid && b.lifetime_valid(c);
                rep.outcome(&("single", kind, b.sig, b.lifetime_class(c), ok));
                if ok && !want {
                    let why = if b.sig != Sig::Valid { format!("signature-{:?}", b.sig).to_lowercase() } else { b.lifetime_class(c).to_string() };
                    rep.violation(
                        format!("accepted-invalid/{kind}/{why}"),
                        format!("at wall clock T0{:+}: add_{kind}_bundle accepted bundle {} (lifetime (T0{:+}, T0{:+}))", c as i64 - T0 as i64, b.name, b.nb as i64 - T0 as i64, b.na as i64 - T0 as i64),
                        json!({"part": "single-add", "bundle": b.name, "clock": c as i64 - T0 as i64, "kind": kind}),
                    );
                } else if !ok && want {
                    rep.violation(
                        format!("rejected-valid/{kind}"),
                        format!("at wall clock T0{:+}: add_{kind}_bundle rejected valid bundle {}", c as i64 - T0 as i64, b.name),
                        json!({"part": "single-add", "bundle": b.name, "clock": c as i64 - T0 as i64, "kind": kind}),
                    );
                }
            }
        }
    }
    clock::release();
    rep.assume("one member id; all pool bundles carry the same identity key (a bundle of a different identity for an already known member id trips a sanity assert_eq! in add_*_bundle, which is outside this property)");
    rep.assume("the signature covers the pre-key bytes only, not the lifetime (documented in key_bundle/mod.rs); 'signature does not verify' is evaluated as the code defines it");
    rep.assume("lifetime validity is the code's strict inequality not_before < now < not_after at one-second granularity");
    rep.finish()
}
