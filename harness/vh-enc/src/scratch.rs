//! Scratch experiments (not a check).
use explorer::Report;
use p2panda_encryption::Rng;
use p2panda_encryption::data_scheme::{EncryptionGroup, GroupOutput};
use p2panda_encryption::test_utils::data_scheme::network::init_group_state;

pub fn run(_rep: Report) -> i32 {
    crate::clock::freeze(1_000_000);
    let rng = Rng::from_seed([1; 32]);
    let [a, b, c, d] = init_group_state([0, 1, 2, 3], &rng);
    let (a, m0) = EncryptionGroup::create(a, vec![0, 1, 2], &rng).unwrap();
    let (b, _) = EncryptionGroup::receive(b, &m0).unwrap();
    let (c, _) = EncryptionGroup::receive(c, &m0).unwrap();
    let (d, o) = EncryptionGroup::receive(d, &m0).unwrap();
    println!("d after create: welcomed={} out={}", d.is_welcomed, o.len());
    let (a, m1) = EncryptionGroup::add(a, 3, &rng).unwrap();
    let r = EncryptionGroup::receive(d, &m1);
    match r {
        Ok((d, o)) => {
            println!("d after add: welcomed={} members={:?} secrets={} out={:?}", d.is_welcomed, EncryptionGroup::members(&d).unwrap(), d.secrets.len(),
                o.iter().map(|x| match x { GroupOutput::Removed => "removed", GroupOutput::Control(_) => "control", GroupOutput::Application{..} => "app" }).collect::<Vec<_>>());
            let s = EncryptionGroup::send(d, b"hi", &rng);
            println!("d send: {:?}", s.as_ref().map(|_| ()).map_err(|e| e.to_string()));
        }
        Err(e) => println!("d add err {e}"),
    }
    let (b, _) = EncryptionGroup::receive(b, &m1).unwrap();
    println!("b members {:?}", EncryptionGroup::members(&b).unwrap());
    println!("a members {:?}", EncryptionGroup::members(&a).unwrap());
    let _ = c;
    0
}
