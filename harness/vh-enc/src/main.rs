//! Checks on p2panda-encryption (C34 … C38).
use explorer::{Args, Report};

mod c34;
mod c35;
mod c36;
mod c37;
mod c38;
mod clock;
mod par;

fn main() {
    let args = Args::parse();
    if std::env::var_os("VH_LOUD_PANICS").is_none() {
        explorer::quiet_panics();
    }
    // Seam S3 must work for every check of this binary (C36/C38 drive it, C35 depends on it for
    // deterministic secret timestamps); a broken seam is a machinery error, never a verdict.
    if let Err(e) = clock::self_test() {
        eprintln!("MACHINERY-ERROR property={} wall-clock seam S3 self-test failed: {e}", args.property);
        std::process::exit(2);
    }
    let code = explorer::guard_main(&args.property, || match args.property.as_str() {
        "C34" => c34::run(Report::new(&args, "model_checking")),
        "C35" => c35::run(Report::new(&args, "model_checking")),
        "C36" => c36::run(Report::new(&args, "model_checking")),
        "C37" => c37::run(Report::new(&args, "model_checking")),
        "C38" => c38::run(Report::new(&args, "model_checking")),
        other => {
            eprintln!("vh-enc: unknown property {other}");
            2
        }
    });
    std::process::exit(code);
}
