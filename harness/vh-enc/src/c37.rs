//! C37 Two-party messaging decrypts in any interleaving and rejects replays.
//!
//! DFS with shared prefixes over the real 2SM implementation (`TwoPartyState` and
//! `KeyManagerState` are `Clone`): actions {A-send, B-send, A-receive-next, B-receive-next}; every
//! action sequence up to the depth bound ("receive-next" = the oldest not yet delivered message of
//! the other direction, i.e. send order per direction).  A failed `receive` returns no state, the
//! caller keeps its previous one — therefore a rejected replay is a self-loop and *every* replay
//! action (replay-to-A(i), replay-to-B(i) for every already processed message i) is evaluated in
//! every reached state instead of being a branching action; this covers every sequence over the
//! six-action alphabet of DESIGN.md §6 C37 up to depth+1.
//!
//! Oracle: every in-order receive returns exactly the plaintext that was sent; every replay of an
//! already processed message returns `Err`; `send` never fails once a session exists.
//!
//! Sessions: "initiator" (A holds B's one-time bundle, B waits), "both-initiate" (each side holds
//! the other's one-time bundle and may send first — the situation of two concurrent DCGKA
//! operations), and for information only "long-term" (no one-time pre-key: a replay of the very
//! first message is expected to be accepted, see two_party.rs docs; not part of the verdict).
use explorer::{Report, json};
use p2panda_encryption::Rng;
use p2panda_encryption::crypto::x25519::SecretKey;
use p2panda_encryption::key_bundle::{Lifetime, LongTermKeyBundle, OneTimeKeyBundle};
use p2panda_encryption::key_manager::{KeyManager, KeyManagerState};
use p2panda_encryption::traits::{KeyBundle, PreKeyManager};
use p2panda_encryption::two_party::{TwoParty, TwoPartyError, TwoPartyMessage, TwoPartyState};

use crate::clock;
use crate::par::{Acc, run_tasks};

const T0: u64 = 1_750_000_000;

#[derive(Clone, Copy, PartialEq, Eq, Debug, Hash)]
enum Act {
    ASend,
    BSend,
    ARecv,
    BRecv,
}
const ACTS: [Act; 4] = [Act::ASend, Act::BSend, Act::ARecv, Act::BRecv];

fn act_name(a: &Act) -> &'static str {
    match a {
        Act::ASend => "A-send",
        Act::BSend => "B-send",
        Act::ARecv => "A-recv-next",
        Act::BRecv => "B-recv-next",
    }
}

struct Party<KB: KeyBundle> {
    y: TwoPartyState<KB>,
    mgr: KeyManagerState,
    /// messages sent by this party, in send order: (wire message, plaintext, kind of key used)
    sent: Vec<(TwoPartyMessage, Vec<u8>, String)>,
    /// how many of the other party's messages this party has processed
    processed: usize,
}

impl<KB: KeyBundle + Clone> Clone for Party<KB> {
    fn clone(&self) -> Self {
        Party { y: self.y.clone(), mgr: self.mgr.clone(), sent: self.sent.clone(), processed: self.processed }
    }
}

fn key_kind(m: &TwoPartyMessage) -> String {
    // `key_used` is a private field; the serde form exposes it (PreKey / ReceivedKey / OwnKey)
    let v = serde_json::to_value(m).unwrap_or(json!(null));
    match v.get("key_used") {
        Some(serde_json::Value::String(s)) => s.clone(),
        Some(serde_json::Value::Object(o)) => o.keys().next().cloned().unwrap_or("?".into()),
        _ => "?".into(),
    }
}

fn err_class(e: &TwoPartyError) -> &'static str {
    match e {
        TwoPartyError::Hpke(_) => "Hpke",
        TwoPartyError::X3dh(_) => "X3dh",
        TwoPartyError::Rng(_) => "Rng",
        TwoPartyError::Encode(_) => "Encode",
        TwoPartyError::Decode(_) => "Decode",
        TwoPartyError::X25519(_) => "X25519",
        TwoPartyError::PreKeyReuse => "PreKeyReuse",
        TwoPartyError::UnknownSecretUsed(_) => "UnknownSecretUsed",
        TwoPartyError::UnknownPreKeyUsed(_) => "UnknownPreKeyUsed",
        TwoPartyError::InvalidCiphertextType => "InvalidCiphertextType",
    }
}

struct Cx {
    session: &'static str,
    depth: usize,
    acc: Acc,
    /// informational mode: replays that are accepted are counted, not reported
    informational: bool,
    replays_accepted_info: u64,
}

fn path_json(session: &str, path: &[Act]) -> explorer::Value {
    json!({"session": session, "actions": path.iter().map(act_name).collect::<Vec<_>>()})
}

fn seed_for(path: &[Act]) -> [u8; 32] {
    let h = explorer::h64(&path.iter().map(|a| *a as u8).collect::<Vec<_>>());
    let mut s = [0u8; 32];
    for i in 0..4 {
        s[i * 8..i * 8 + 8].copy_from_slice(&h.wrapping_mul(0x9e3779b97f4a7c15u64.wrapping_add(i as u64)).to_le_bytes());
    }
    s
}

/// Replay every already processed message to `who` (0 = A, 1 = B); none may be accepted.
fn check_replays<KB: KeyBundle + Clone>(cx: &mut Cx, a: &Party<KB>, b: &Party<KB>, who: usize, path: &[Act]) {
    let (recv, sender) = if who == 0 { (a, b) } else { (b, a) };
    for i in 0..recv.processed {
        cx.acc.transitions += 1;
        let (msg, plain, kind) = &sender.sent[i];
        let r = explorer::catch(|| TwoParty::<KeyManager, KB>::receive(recv.y.clone(), recv.mgr.clone(), msg.clone()));
        match r {
            Err(p) => {
                let rp = path_json(cx.session, path);
                cx.acc.violation(
                    format!("two-party-panics/replay/{kind}"),
                    format!("[{}] then replaying message #{i} of {} to {}: panic {p}", path.iter().map(act_name).collect::<Vec<_>>().join(" "), if who == 0 { "B" } else { "A" }, if who == 0 { "A" } else { "B" }),
                    rp,
                    path.len() as u64,
                );
            }
            Ok(Err(e)) => cx.acc.outcome(&("replay-rejected", kind, err_class(&e))),
            Ok(Ok((_, _, got))) => {
                if cx.informational {
                    cx.replays_accepted_info += 1;
                    cx.acc.outcome(&("replay-accepted-info", kind));
                } else {
                    let rp = json!({"session": cx.session, "actions": path.iter().map(act_name).collect::<Vec<_>>(), "replay_to": if who == 0 { "A" } else { "B" }, "message_index": i});
                    cx.acc.violation(
                        format!("replay-accepted/{kind}"),
                        format!(
                            "session {}: after [{}], message #{i} sent by {} (encrypted with {kind}, already processed by {}) was processed again and returned {} plaintext {:?}",
                            cx.session,
                            path.iter().map(act_name).collect::<Vec<_>>().join(" "),
                            if who == 0 { "B" } else { "A" },
                            if who == 0 { "A" } else { "B" },
                            if &got == plain { "the original" } else { "a different" },
                            String::from_utf8_lossy(&got)
                        ),
                        rp,
                        path.len() as u64,
                    );
                }
            }
        }
    }
}

fn dfs<KB: KeyBundle + Clone>(cx: &mut Cx, a: &Party<KB>, b: &Party<KB>, path: &mut Vec<Act>, flags: (bool, bool), first: Option<&[Act]>) {
    if path.len() == cx.depth {
        return;
    }
    for act in ACTS {
        if let Some(f) = first {
            if path.len() < f.len() && f[path.len()] != act {
                continue;
            }
        }
        let (mut a2, mut b2) = (a.clone(), b.clone());
        let mut fl = flags;
        path.push(act);
        let mut ok = true;
        // work splitting: the nodes of the shared prefix levels are executed by every task below
        // them but accounted only by the task whose remaining prefix is all A-send
        let owned = first.is_none_or(|f| path.len() >= f.len() || f[path.len()..].iter().all(|x| *x == Act::ASend));
        let snapshot = (cx.acc.evals, cx.acc.transitions);
        match act {
            Act::ASend | Act::BSend => {
                let who = if act == Act::ASend { 0 } else { 1 };
                let (me, other) = if who == 0 { (&mut a2, &b2) } else { (&mut b2, &a2) };
                let _ = other;
                let n = me.sent.len();
                let plain = format!("{}#{n}", if who == 0 { "A" } else { "B" }).into_bytes();
                let rng = Rng::from_seed(seed_for(path));
                let r = explorer::catch(|| TwoParty::<KeyManager, KB>::send(me.y.clone(), &me.mgr, &plain, &rng));
                match r {
                    Ok(Ok((y2, msg))) => {
                        cx.acc.evals += 1;
                        cx.acc.transitions += 1;
                        let kind = key_kind(&msg);
                        cx.acc.outcome(&("sent", kind.clone()));
                        me.y = y2;
                        me.sent.push((msg, plain, kind));
                    }
                    Ok(Err(e)) => {
                        // A party that holds no pre-key bundle of the peer and has not received
                        // anything yet has no session: not an enabled action.
                        let no_session = me.processed == 0 && me.sent.is_empty() && matches!(e, TwoPartyError::PreKeyReuse);
                        if !no_session {
                            cx.acc.evals += 1;
                            let rp = path_json(cx.session, path);
                            cx.acc.violation(
                                format!("send-failed/{}", err_class(&e)),
                                format!("session {}: [{}]: the last send failed: {e}", cx.session, path.iter().map(act_name).collect::<Vec<_>>().join(" ")),
                                rp,
                                path.len() as u64,
                            );
                        }
                        ok = false;
                    }
                    Err(p) => {
                        cx.acc.evals += 1;
                        let rp = path_json(cx.session, path);
                        cx.acc.violation("two-party-panics/send", format!("session {}: [{}]: panic {p}", cx.session, path.iter().map(act_name).collect::<Vec<_>>().join(" ")), rp, path.len() as u64);
                        ok = false;
                    }
                }
                if ok {
                    check_replays(cx, &a2, &b2, who, path);
                }
            }
            Act::ARecv | Act::BRecv => {
                let who = if act == Act::ARecv { 0 } else { 1 };
                let (me, other) = if who == 0 { (&mut a2, &b2) } else { (&mut b2, &a2) };
                if me.processed >= other.sent.len() {
                    ok = false; // nothing pending: not an enabled action
                } else {
                    cx.acc.evals += 1;
                    cx.acc.transitions += 1;
                    let i = me.processed;
                    let (msg, plain, kind) = &other.sent[i];
                    // crossing = the receiver has itself sent messages the sender had not seen when sending
                    if !me.sent.is_empty() && other.processed < me.sent.len() {
                        if who == 0 { fl.0 = true } else { fl.1 = true }
                    }
                    let r = explorer::catch(|| TwoParty::<KeyManager, KB>::receive(me.y.clone(), me.mgr.clone(), msg.clone()));
                    match r {
                        Ok(Ok((y2, mgr2, got))) => {
                            if &got != plain {
                                let rp = path_json(cx.session, path);
                                cx.acc.violation(
                                    format!("wrong-plaintext/{kind}"),
                                    format!("session {}: [{}]: message #{i} decrypted to {:?}, sent was {:?}", cx.session, path.iter().map(act_name).collect::<Vec<_>>().join(" "), String::from_utf8_lossy(&got), String::from_utf8_lossy(plain)),
                                    rp,
                                    path.len() as u64,
                                );
                                ok = false;
                            } else {
                                cx.acc.outcome(&("received", kind));
                                me.y = y2;
                                me.mgr = mgr2;
                                me.processed += 1;
                            }
                        }
                        Ok(Err(e)) => {
                            let rp = path_json(cx.session, path);
                            cx.acc.violation(
                                format!("in-order-receive-failed/{kind}/{}", err_class(&e)),
                                format!(
                                    "session {}: [{}]: the last action delivered message #{i} of {} (encrypted with {kind}) in send order and it was rejected: {e}",
                                    cx.session,
                                    path.iter().map(act_name).collect::<Vec<_>>().join(" "),
                                    if who == 0 { "B" } else { "A" }
                                ),
                                rp,
                                path.len() as u64,
                            );
                            ok = false;
                        }
                        Err(p) => {
                            let rp = path_json(cx.session, path);
                            cx.acc.violation("two-party-panics/receive", format!("session {}: [{}]: panic {p}", cx.session, path.iter().map(act_name).collect::<Vec<_>>().join(" ")), rp, path.len() as u64);
                            ok = false;
                        }
                    }
                    if ok {
                        check_replays(cx, &a2, &b2, who, path);
                    }
                }
            }
        }
        if !owned {
            (cx.acc.evals, cx.acc.transitions) = snapshot;
        }
        if ok {
            // non-trivial: both directions carried messages that crossed each other and at least
            // one replay per direction was evaluated
            if owned && fl.0 && fl.1 && a2.processed > 0 && b2.processed > 0 {
                cx.acc.nontrivial += 1;
                if path.len() == cx.depth && cx.acc.samples.is_empty() {
                    cx.acc.samples.push(json!({"session": cx.session, "actions": path.iter().map(act_name).collect::<Vec<_>>(), "a_sent": a2.sent.len(), "b_sent": b2.sent.len(), "a_processed": a2.processed, "b_processed": b2.processed}));
                }
            }
            cx.acc.state(&(cx.session, &path[..]));
            dfs(cx, &a2, &b2, path, fl, first);
        }
        path.pop();
    }
}

fn managers() -> (KeyManagerState, KeyManagerState, Rng) {
    let rng = Rng::from_seed([21; 32]);
    let a_id = SecretKey::from_bytes(rng.random_array().unwrap());
    let b_id = SecretKey::from_bytes(rng.random_array().unwrap());
    let a = KeyManager::init_and_generate_prekey(&a_id, Lifetime::from_range(T0 - 3600, T0 + 86_400), &rng).unwrap();
    let b = KeyManager::init_and_generate_prekey(&b_id, Lifetime::from_range(T0 - 3600, T0 + 86_400), &rng).unwrap();
    (a, b, rng)
}

fn prefixes(n: usize) -> Vec<Vec<Act>> {
    let mut out: Vec<Vec<Act>> = vec![vec![]];
    for _ in 0..n {
        out = out.into_iter().flat_map(|p| ACTS.iter().map(move |a| { let mut q = p.clone(); q.push(*a); q })).collect();
    }
    out
}

pub fn run(mut rep: Report) -> i32 {
    let thorough = rep.thorough();
    let depth = if thorough { 12 } else { 9 };
    let depth_info = if thorough { 7 } else { 5 };
    rep.rule = format!(
        "sessions initiator / both-initiate with one-time pre-key bundles: every sequence of length <= {depth} over {{A-send, B-send, A-recv-next, B-recv-next}} (actions that are not enabled — nothing pending, no session yet — are skipped), and in every reached state every replay of every already processed message to the party whose state just changed; one case = one action sequence (prefix); non-trivial = both parties received a message that crossed one of their own in flight and both have processed messages that are then replayed"
    );
    clock::freeze(T0);
    let split = if thorough { 4 } else { 3 };
    let pre = prefixes(split);
    #[derive(Clone)]
    struct Task {
        session: &'static str,
        prefix: Vec<Act>,
        depth: usize,
    }
    let mut tasks = vec![];
    for s in ["initiator", "both-initiate"] {
        for p in &pre {
            tasks.push(Task { session: s, prefix: p.clone(), depth });
        }
    }
    for p in &pre {
        tasks.push(Task { session: "long-term(info)", prefix: p.clone(), depth: depth_info });
    }
    let results = run_tasks(rep.args.threads, &tasks, |_, t| {
        clock::freeze(T0);
        let (a_mgr, b_mgr, rng) = managers();
        let mut cx = Cx { session: t.session, depth: t.depth, acc: Acc::default(), informational: t.session.starts_with("long-term"), replays_accepted_info: 0 };
        let mut path = vec![];
        // shorter sequences are prefixes of the split prefixes: count them only in the first task
        match t.session {
            "long-term(info)" => {
                let b_bundle: LongTermKeyBundle = KeyManager::prekey_bundle(&b_mgr).unwrap();
                let a = Party { y: TwoParty::<KeyManager, LongTermKeyBundle>::init_to_send(b_bundle), mgr: a_mgr, sent: vec![], processed: 0 };
                let b = Party { y: TwoParty::<KeyManager, LongTermKeyBundle>::init_to_receive(), mgr: b_mgr, sent: vec![], processed: 0 };
                dfs(&mut cx, &a, &b, &mut path, (false, false), Some(&t.prefix));
            }
            s => {
                let (b_mgr, b_bundle): (_, OneTimeKeyBundle) = KeyManager::generate_onetime_bundle(b_mgr, &rng).unwrap();
                let (a_mgr, a_bundle): (_, OneTimeKeyBundle) = KeyManager::generate_onetime_bundle(a_mgr, &rng).unwrap();
                let a = Party { y: TwoParty::<KeyManager, OneTimeKeyBundle>::init_to_send(b_bundle), mgr: a_mgr, sent: vec![], processed: 0 };
                let b = Party {
                    y: if s == "both-initiate" { TwoParty::<KeyManager, OneTimeKeyBundle>::init_to_send(a_bundle) } else { TwoParty::<KeyManager, OneTimeKeyBundle>::init_to_receive() },
                    mgr: b_mgr,
                    sent: vec![],
                    processed: 0,
                };
                dfs(&mut cx, &a, &b, &mut path, (false, false), Some(&t.prefix));
            }
        }
        clock::release();
        (t.clone(), cx.acc, cx.replays_accepted_info)
    });
    // The split re-executes the nodes of the shared prefix levels in every task that shares them;
    // evaluations therefore count executed actions (re-executions included), states count
    // distinct action sequences.
    let mut accs = vec![];
    let mut per_session: std::collections::BTreeMap<&'static str, (u64, u64, u64)> = Default::default();
    for (t, acc, info) in results {
        let e = per_session.entry(t.session).or_default();
        e.0 += acc.evals;
        e.1 += acc.transitions;
        e.2 += info;
        accs.push(acc);
    }
    crate::par::merge_all(&mut rep, accs);
    for (s, (e, t, info)) in &per_session {
        rep.part(json!({"session": s, "actions_executed": e, "actions_and_replays": t, "replays_accepted(informational only)": info}));
    }
    rep.set("longterm_session_replays_accepted_info", json!(per_session.get("long-term(info)").map(|x| x.2).unwrap_or(0)));
    clock::release();
    rep.assume("hpke-rs draws its ephemeral KEM key from its own OS-seeded RNG (hpke_seal takes no rng): ciphertext bytes are not reproducible, the oracle (plaintext equality, accept/reject) does not depend on them");
    rep.assume("all other randomness is deterministic: Rng::from_seed with a seed derived from the action sequence");
    rep.assume("the long-term (no one-time pre-key) session is explored for information only: replay protection of the first message is anchored on one-time pre-keys");
    rep.finish()
}
