//! Tiny deterministic work splitter: `tasks` are pulled by `threads` workers, results are returned
//! in task order so merged evidence does not depend on scheduling.
use std::collections::BTreeSet;
use std::sync::Mutex;
use std::sync::atomic::{AtomicUsize, Ordering};

use explorer::{Report, Value};

pub fn run_tasks<T: Sync, R: Send>(threads: usize, tasks: &[T], f: impl Fn(usize, &T) -> R + Sync) -> Vec<R> {
    let next = AtomicUsize::new(0);
    let out: Mutex<Vec<Option<R>>> = Mutex::new((0..tasks.len()).map(|_| None).collect());
    std::thread::scope(|s| {
        for _ in 0..threads.max(1).min(tasks.len().max(1)) {
            s.spawn(|| {
                loop {
                    let i = next.fetch_add(1, Ordering::SeqCst);
                    if i >= tasks.len() {
                        return;
                    }
                    let r = f(i, &tasks[i]);
                    out.lock().unwrap()[i] = Some(r);
                }
            });
        }
    });
    out.into_inner().unwrap().into_iter().map(|r| r.expect("task finished")).collect()
}

/// Per-task accumulator merged into the `Report` in task order.
#[derive(Default)]
pub struct Acc {
    pub evals: u64,
    pub transitions: u64,
    pub nontrivial: u64,
    pub states: BTreeSet<u64>,
    pub outcomes: BTreeSet<u64>,
    pub samples: Vec<Value>,
    /// (key, what, replay, rank): the lowest rank per key becomes the reported representative
    pub violations: Vec<(String, String, Value, u64)>,
    pub capped: Option<String>,
    pub dropped_violations: u64,
    pub extra: Vec<(String, u64)>,
}

impl Acc {
    pub fn violation(&mut self, key: impl Into<String>, what: impl Into<String>, replay: Value, rank: u64) {
        // keep memory bounded: the report aggregates by key anyway
        if self.violations.len() < 20_000 {
            self.violations.push((key.into(), what.into(), replay, rank));
        } else {
            self.dropped_violations += 1;
        }
    }
    pub fn outcome<T: std::hash::Hash + ?Sized>(&mut self, t: &T) {
        self.outcomes.insert(explorer::h64(t));
    }
    pub fn state<T: std::hash::Hash + ?Sized>(&mut self, t: &T) -> bool {
        self.states.insert(explorer::h64(t))
    }
    #[allow(dead_code)]
    pub fn bump(&mut self, k: &str, n: u64) {
        if let Some(e) = self.extra.iter_mut().find(|e| e.0 == k) {
            e.1 += n;
        } else {
            self.extra.push((k.to_string(), n));
        }
    }
    pub fn merge_into(self, rep: &mut Report, extra: &mut Vec<(String, u64)>) {
        rep.evals(self.evals);
        rep.transitions += self.transitions;
        rep.nontrivial_count(self.nontrivial);
        for s in &self.states {
            rep.state(s);
        }
        for o in &self.outcomes {
            rep.outcome(o);
        }
        for s in self.samples {
            rep.sample(s);
        }
        let mut v = self.violations;
        v.sort_by(|a, b| (a.3, &a.0, a.2.to_string()).cmp(&(b.3, &b.0, b.2.to_string())));
        for (k, w, r, _) in v {
            rep.violation(k, w, r);
        }
        if let Some(c) = self.capped {
            rep.not_exhaustive(&c);
        }
        for (k, n) in self.extra {
            if let Some(e) = extra.iter_mut().find(|e| e.0 == k) {
                e.1 += n;
            } else {
                extra.push((k, n));
            }
        }
    }
}

/// Merge the accumulators of all tasks; violations are merged globally so that the representative
/// of every key is the one with the lowest rank (shortest reproduction) over *all* tasks.
pub fn merge_all(rep: &mut Report, accs: Vec<Acc>) -> Vec<(String, u64)> {
    let mut extra = vec![];
    let mut all = Acc::default();
    let mut dropped = 0;
    for mut a in accs {
        all.violations.append(&mut a.violations);
        dropped += a.dropped_violations;
        a.merge_into(rep, &mut extra);
    }
    if dropped > 0 {
        rep.set("violation_records_dropped_beyond_per_task_cap", explorer::json!(dropped));
    }
    all.merge_into(rep, &mut extra);
    extra
}

/// Work pool for tree explorations: `f(worker_state, task, emit)` processes one task and may emit
/// further tasks (sub-trees); every worker owns one `W` (accumulator) which is returned at the end.
pub fn run_pool<T: Send, W: Send>(
    threads: usize,
    init: Vec<T>,
    mk_worker: impl Fn() -> W + Sync,
    f: impl Fn(&mut W, T, &mut Vec<T>) + Sync,
    fin: impl Fn(&mut W) + Sync,
) -> Vec<W> {
    let queue: Mutex<(Vec<T>, usize)> = Mutex::new((init, 0)); // (work, in flight)
    let out: Mutex<Vec<W>> = Mutex::new(vec![]);
    std::thread::scope(|s| {
        for _ in 0..threads.max(1) {
            s.spawn(|| {
                let mut w = mk_worker();
                loop {
                    let task = {
                        let mut g = queue.lock().unwrap();
                        match g.0.pop() {
                            Some(t) => {
                                g.1 += 1;
                                Some(t)
                            }
                            None if g.1 == 0 => break,
                            None => None,
                        }
                    };
                    let Some(task) = task else {
                        std::thread::sleep(std::time::Duration::from_micros(200));
                        continue;
                    };
                    let mut more = vec![];
                    f(&mut w, task, &mut more);
                    let mut g = queue.lock().unwrap();
                    g.0.append(&mut more);
                    g.1 -= 1;
                }
                fin(&mut w);
                out.lock().unwrap().push(w);
            });
        }
    });
    out.into_inner().unwrap()
}
