//! Tiny deterministic work splitter: `tasks` are pulled by `threads` workers, results are returned
//! in task order so merged evidence does not depend on scheduling.
use std::collections::BTreeSet;
use std::sync::Mutex;
use std::sync::atomic::{AtomicUsize, Ordering};

use explorer::{Report, Value};

pub fn run_tasks<T: Sync, R: Send>(threads: usize, tasks: &[T], f: impl Fn(usize, &T) -> R + Sync) -> Vec<R> {
    let next = AtomicUsize::new(0);
    let out: Mutex<Vec<Option<R>>> = Mutex::new((0..tasks.len()).map(|_| None).collect());
    std::thread::scope(|s| {
        for _ in 0..threads.max(1).min(tasks.len().max(1)) {
            s.spawn(|| {
                loop {
                    let i = next.fetch_add(1, Ordering::SeqCst);
                    if i >= tasks.len() {
                        return;
                    }
                    let r = f(i, &tasks[i]);
                    out.lock().unwrap()[i] = Some(r);
                }
            });
        }
    });
    out.into_inner().unwrap().into_iter().map(|r| r.expect("task finished")).collect()
}

/// Per-task accumulator merged into the `Report` in task order.
#[derive(Default)]
pub struct Acc {
    pub evals: u64,
    pub transitions: u64,
    pub nontrivial: u64,
    pub states: BTreeSet<u64>,
    pub outcomes: BTreeSet<u64>,
    pub samples: Vec<Value>,
    pub violations: Vec<(String, String, Value)>,
    pub capped: Option<String>,
    pub extra: Vec<(String, u64)>,
}

impl Acc {
    pub fn violation(&mut self, key: impl Into<String>, what: impl Into<String>, replay: Value) {
        // keep memory bounded: the report aggregates by key anyway
        if self.violations.len() < 10_000 {
            self.violations.push((key.into(), what.into(), replay));
        }
    }
    pub fn outcome<T: std::hash::Hash + ?Sized>(&mut self, t: &T) {
        self.outcomes.insert(explorer::h64(t));
    }
    pub fn state<T: std::hash::Hash + ?Sized>(&mut self, t: &T) -> bool {
        self.states.insert(explorer::h64(t))
    }
    #[allow(dead_code)]
    pub fn bump(&mut self, k: &str, n: u64) {
        if let Some(e) = self.extra.iter_mut().find(|e| e.0 == k) {
            e.1 += n;
        } else {
            self.extra.push((k.to_string(), n));
        }
    }
    pub fn merge_into(self, rep: &mut Report, extra: &mut Vec<(String, u64)>) {
        rep.evals(self.evals);
        rep.transitions += self.transitions;
        rep.nontrivial_count(self.nontrivial);
        for s in &self.states {
            rep.state(s);
        }
        for o in &self.outcomes {
            rep.outcome(o);
        }
        for s in self.samples {
            rep.sample(s);
        }
        for (k, w, r) in self.violations {
            rep.violation(k, w, r);
        }
        if let Some(c) = self.capped {
            rep.not_exhaustive(&c);
        }
        for (k, n) in self.extra {
            if let Some(e) = extra.iter_mut().find(|e| e.0 == k) {
                e.1 += n;
            } else {
                extra.push((k, n));
            }
        }
    }
}
