//! C14N — companion of C14 on the *real* `Pipeline::process` (p2panda/src/processor/pipeline.rs),
//! its real `TaskTracker` and its real pipeline thread (ingest + log prune on a `SqliteStore`).
//!
//! C14 proper explores thread interleavings of the task tracker with submitter bodies written by
//! the harness after `Pipeline::process`; this part binds that to the real function and adds the
//! dimension the thread exploration does not have: a submitter that goes away.
//!
//! The pipeline thread is not schedulable, but it can be *held*: the harness owns the store's
//! transaction permit, so the ingest processor waits in `begin()` and nothing is marked as done
//! until the harness releases the permit.  Before the release the execution is fully determined by
//! the harness: one step polls one submitter's `process()` future once (no-op waker), or drops a
//! submitter's future (cancellation, at most one per execution), or releases the pipeline.  Every
//! step sequence up to the bound is enumerated.  After the release every remaining submitter is
//! awaited (real wakers); one that does not return within the time limit is a violation.
//! Oracle: every submitter that was not cancelled returns, with the event of *its* operation, not
//! failed (the operations are valid), and the operation is stored.
use std::collections::BTreeSet;
use std::future::Future;
use std::pin::Pin;
use std::sync::atomic::{AtomicU64, Ordering};
use std::task::{Context, Poll};
use std::time::Duration;

use explorer::{dfs_par, json, Chooser, DfsCfg, Report};
use p2panda::operation::{Extensions, LogId};
use p2panda::processor::verif::{new_event, Pipeline, TaskTracker};
use p2panda_core::{Body, Hash, Operation as CoreOperation, PruneFlag, SigningKey, Topic};
use p2panda_store::operations::OperationStore;
use p2panda_store::{SqliteStore, Transaction};

type Operation = CoreOperation<Extensions>;
type Pipe = Pipeline<LogId, Extensions, Topic>;

static SERIAL: AtomicU64 = AtomicU64::new(1);

fn fresh_op(topic: Topic) -> Operation {
    // a new author per operation: seq 0 of its log is always valid, whatever the reused store holds
    let n = SERIAL.fetch_add(1, Ordering::SeqCst);
    let mut seed = [0x14u8; 32];
    seed[..8].copy_from_slice(&n.to_le_bytes());
    let k = SigningKey::from_bytes(&seed);
    let body = Body::new(format!("c14n-{n}").as_bytes());
    let mut header = p2panda::operation::Header {
        version: 1,
        verifying_key: k.verifying_key(),
        signature: None,
        payload_size: body.size(),
        payload_hash: Some(body.hash()),
        seq_num: 0,
        backlink: None,
        extensions: Extensions::from_topic(topic),
    };
    header.sign(&k);
    Operation { hash: header.hash(), header, body: Some(body) }
}

#[derive(Clone, Copy, Debug, PartialEq, Eq, Hash)]
enum Step {
    Poll(usize),
    Cancel(usize),
    Release,
}

impl Step {
    fn name(&self) -> String {
        match self {
            Step::Poll(i) => format!("poll(S{i})"),
            Step::Cancel(i) => format!("drop(S{i})"),
            Step::Release => "release-pipeline".into(),
        }
    }
}

#[derive(Clone, Debug)]
struct Scenario {
    name: &'static str,
    /// per submitter: index of the operation it submits
    ops: Vec<usize>,
}

#[derive(Debug, Clone, PartialEq, Eq, Hash)]
enum End {
    /// returned the event of this operation id (hex), failed flag
    Returned(String, bool),
    Cancelled,
    Hung,
}

#[derive(Debug, Clone)]
struct Obs {
    steps: Vec<String>,
    ends: Vec<End>,
    want: Vec<String>,
    stored: Vec<bool>,
    completed_before_release: Vec<usize>,
}

thread_local! {
    static RT: tokio::runtime::Runtime = tokio::runtime::Builder::new_current_thread().enable_all().build().expect("rt");
    /// One store + pipeline per worker thread (a `Pipeline` owns a thread that never ends); a world
    /// that saw a hang is not used again.
    static WORLD: std::cell::RefCell<Option<std::mem::ManuallyDrop<(SqliteStore, Pipe)>>> = const { std::cell::RefCell::new(None) };
}

fn execute(ch: &Chooser, sc: &Scenario, max_steps: usize, hang_limit: Duration) -> Result<Obs, String> {
    mock_instant::thread_local::MockClock::set_system_time(Duration::from_secs(1_000));
    RT.with(|rt| {
        rt.block_on(async {
            let cached = WORLD.with(|c| c.borrow_mut().take());
            let (store, pipeline) = match cached.map(std::mem::ManuallyDrop::into_inner) {
                Some(sp) => sp,
                None => {
                    let store = SqliteStore::temporary().await;
                    let pipeline = Pipe::new(store.clone(), TaskTracker::new());
                    (store, pipeline)
                }
            };
            let topic = Topic::from([0x14u8; 32]);
            let n_ops = sc.ops.iter().copied().max().unwrap_or(0) + 1;
            let ops: Vec<Operation> = (0..n_ops).map(|_| fresh_op(topic)).collect();
            let want: Vec<String> = sc.ops.iter().map(|o| ops[*o].hash.to_hex()).collect();

            // hold the pipeline: its ingest waits for the transaction permit
            let permit = store.begin().await.map_err(|e| format!("begin: {e}"))?;
            let n = sc.ops.len();
            let pl = &pipeline;
            // (the event type lives in a private module: the future maps it to what the oracle reads)
            let mut futs: Vec<Option<Pin<Box<dyn Future<Output = (String, bool)> + '_>>>> = sc
                .ops
                .iter()
                .map(|o| {
                    let ev = new_event(ops[*o].clone(), LogId::from_topic(topic), topic, PruneFlag::new(false));
                    Some(Box::pin(async move {
                        let out = pl.process(ev).await;
                        (out.header().hash().to_hex(), out.is_failed())
                    }) as Pin<Box<dyn Future<Output = (String, bool)> + '_>>)
                })
                .collect();
            let mut ends: Vec<Option<End>> = vec![None; n];
            let mut polled = vec![false; n];
            // a poll is only offered when something happened since the submitter's last poll
            let mut dirty = vec![true; n];
            let mut cancelled_one = false;
            let mut steps = vec![];
            let mut completed_before_release = vec![];
            let waker = futures_util::task::noop_waker();
            for _ in 0..max_steps {
                let mut menu = vec![Step::Release];
                for i in 0..n {
                    if ends[i].is_none() && dirty[i] {
                        menu.push(Step::Poll(i));
                    }
                }
                if !cancelled_one {
                    for i in 0..n {
                        if ends[i].is_none() && polled[i] {
                            menu.push(Step::Cancel(i));
                        }
                    }
                }
                let st = menu[ch.choose_free(menu.len(), "step")];
                steps.push(st.name());
                match st {
                    Step::Release => break,
                    Step::Poll(i) => {
                        let mut cx = Context::from_waker(&waker);
                        polled[i] = true;
                        dirty[i] = false;
                        if let Some(f) = futs[i].as_mut() {
                            if let Poll::Ready((h, failed)) = f.as_mut().poll(&mut cx) {
                                ends[i] = Some(End::Returned(h, failed));
                                completed_before_release.push(i);
                                futs[i] = None;
                            }
                        }
                        for (j, d) in dirty.iter_mut().enumerate() {
                            if j != i {
                                *d = true;
                            }
                        }
                    }
                    Step::Cancel(i) => {
                        cancelled_one = true;
                        futs[i] = None;
                        ends[i] = Some(End::Cancelled);
                        for d in dirty.iter_mut() {
                            *d = true;
                        }
                    }
                }
            }
            if steps.last().map(|s| s.as_str()) != Some("release-pipeline") {
                steps.push("release-pipeline".into());
            }
            store.rollback(permit).await.map_err(|e| format!("rollback: {e}"))?;
            let mut hung = false;
            for i in 0..n {
                if ends[i].is_some() {
                    continue;
                }
                let f = futs[i].take().expect("unfinished submitter has a future");
                match tokio::time::timeout(hang_limit, f).await {
                    Ok((h, failed)) => ends[i] = Some(End::Returned(h, failed)),
                    Err(_) => {
                        ends[i] = Some(End::Hung);
                        hung = true;
                    }
                }
            }
            drop(futs);
            // a cancelled submission may still be in the pipeline's queue: give it a moment, the
            // stored flag below is only judged for operations some submitter got back
            let mut stored = vec![];
            for o in &sc.ops {
                let has = <SqliteStore as OperationStore<Operation, Hash>>::has_operation(&store, &ops[*o].hash).await.map_err(|e| format!("has_operation: {e}"))?;
                stored.push(has);
            }
            if !hung {
                WORLD.with(|c| *c.borrow_mut() = Some(std::mem::ManuallyDrop::new((store, pipeline))));
            } else {
                std::mem::forget((store, pipeline));
            }
            Ok(Obs { steps, ends: ends.into_iter().map(|e| e.unwrap_or(End::Hung)).collect(), want, stored, completed_before_release })
        })
    })
}

pub fn run(mut rep: Report) -> i32 {
    let thorough = rep.thorough();
    let max_steps = if thorough { 10 } else { 8 };
    let mut scenarios = vec![
        Scenario { name: "two-submitters-same-operation", ops: vec![0, 0] },
        Scenario { name: "two-submitters-different-operations", ops: vec![0, 1] },
    ];
    scenarios.push(Scenario { name: "three-submitters-same-operation", ops: vec![0, 0, 0] });
    if thorough {
        scenarios.push(Scenario { name: "two-same-one-different", ops: vec![0, 0, 1] });
    }
    rep.rule = format!(
        "real Pipeline::process + TaskTracker + pipeline thread on SqliteStore; the pipeline is held (the harness owns the store's transaction permit) until the step 'release'; every sequence of up to {max_steps} steps from {{poll submitter i once, drop submitter i's process() future (at most one cancellation), release}} for 2-3 concurrent submitters of the same / of different operations{}; afterwards every remaining submitter is awaited for 8 s; oracle: each submitter that was not cancelled returns the event of its own operation, not failed, and the operation is stored; non-trivial = sequence with a cancellation after both submitters were polled",
        if thorough { " (also two of one and one of another operation)" } else { "" }
    );
    let threads = rep.args.threads.clamp(1, 8);
    for sc in &scenarios {
        let outs = std::sync::Mutex::new(vec![]);
        let stop = std::sync::atomic::AtomicBool::new(false);
        let stats = dfs_par(
            &DfsCfg { max_dev: usize::MAX, wall: Duration::from_secs(if thorough { 600 } else { 40 }), threads, ..Default::default() },
            |ch| {
                // after the first hang the time limit for further hangs shrinks (the verdict is
                // already a violation; the exploration still visits every step sequence)
                let limit = if stop.load(Ordering::SeqCst) { Duration::from_millis(500) } else { Duration::from_secs(8) };
                let r = execute(ch, sc, max_steps, limit);
                if let Ok(o) = &r {
                    if o.ends.iter().any(|e| *e == End::Hung) {
                        // every hang costs 8 s: the first few are enough
                        stop.store(true, Ordering::SeqCst);
                    }
                }
                Some(r)
            },
            |ch, r| {
                if let Some(r) = r {
                    outs.lock().unwrap().push((ch.vector(), r));
                }
            },
        );
        rep.absorb_dfs(&format!("real-pipeline/{}", sc.name), &stats, usize::MAX);

        let mut outs = outs.into_inner().unwrap();
        outs.sort_by(|a, b| (a.0.len(), &a.0).cmp(&(b.0.len(), &b.0)));
        for (vector, r) in outs {
            let o = match r {
                Ok(o) => o,
                Err(e) => {
                    rep.machinery_error(format!("C14N setup: {e}"));
                    continue;
                }
            };
            rep.eval();
            rep.transitions += o.steps.len() as u64;
            rep.state(&(sc.name, &o.steps));
            rep.outcome(&(sc.name, o.ends.iter().map(|e| matches!(e, End::Returned(..))).collect::<Vec<_>>(), o.completed_before_release.len()));
            let replay = json!({"part": format!("real-pipeline/{}", sc.name), "vector": vector, "steps": o.steps});
            let had_cancel = o.ends.iter().any(|e| *e == End::Cancelled);
            let polled: BTreeSet<&str> = o.steps.iter().filter(|s| s.starts_with("poll")).map(|s| s.as_str()).collect();
            if had_cancel && polled.len() >= sc.ops.len() {
                rep.nontrivial(&(sc.name, &o.steps));
            }
            for (i, e) in o.ends.iter().enumerate() {
                match e {
                    End::Cancelled => {}
                    End::Hung => rep.violation(
                        format!("real-pipeline/submitter-never-returns/{}", if had_cancel { "after-another-submitter-was-dropped" } else { "no-cancellation" }),
                        format!("scenario {}: steps [{}]: submitter S{i} did not return within 8 s after the pipeline was released", sc.name, o.steps.join(", ")),
                        replay.clone(),
                    ),
                    End::Returned(h, failed) => {
                        if *h != o.want[i] {
                            rep.violation("real-pipeline/wrong-result", format!("scenario {}: steps [{}]: submitter S{i} submitted operation {} but got the event of {}", sc.name, o.steps.join(", "), &o.want[i][..8], &h[..8]), replay.clone());
                        } else if *failed {
                            rep.violation("real-pipeline/valid-operation-reported-as-failed", format!("scenario {}: steps [{}]: submitter S{i} got its (valid) operation back as failed", sc.name, o.steps.join(", ")), replay.clone());
                        } else if !o.stored[i] {
                            rep.violation("real-pipeline/processed-but-not-stored", format!("scenario {}: steps [{}]: submitter S{i} got its operation back as processed, but the store does not hold it", sc.name, o.steps.join(", ")), replay.clone());
                        }
                    }
                }
            }
            if rep.want_sample() && had_cancel {
                rep.sample(json!({"scenario": sc.name, "steps": o.steps, "ends": o.ends.iter().map(|e| format!("{e:?}").chars().take(24).collect::<String>()).collect::<Vec<_>>()}));
            }
        }
    }
    rep.assume("the pipeline thread is held by the store's transaction permit until the release step, so everything before it is decided by the enumerated step sequence; after the release the verdict only depends on 'returns within 8 s', which correct code always satisfies");
    rep.finish()
}
