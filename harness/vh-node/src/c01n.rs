//! C01 (node-level companion, dispatched as "C01N" and merged into C01's evidence):
//! "… or reported to the application as Processed only if …".
//!
//! Valid operations carrying the Node API extensions (Basic, prune flag off/on) and every single
//! mutation of them (field edits with a stale signature and re-signed by a foreign key, every
//! bit-0/bit-7 flip of the CBOR header decoded as the sync protocol decodes it, body edits) are
//! fed to the node's real stream entry point `process_operation` (hook) in front of the real
//! Pipeline on SqliteStore — both while the genuine operation is unknown and after it was stored.
//! Oracle: a tampered operation is always answered `ProcessingFailed`, never `Processed` (nor
//! `DecodeFailed`/silently acknowledged), and a dump of operations_v1/topics_v1/cursors_v1 is
//! unchanged; the genuine operation is `Processed` (positive control).
use explorer::{json, Report};
use p2panda::node::AckPolicy;
use p2panda::operation::{Extensions, Header, LogId, Operation};
use p2panda::processor::verif::{Pipeline, TaskTracker};
use p2panda::streams::verif::{process_operation, Acked};
use p2panda::streams::{Source, StreamEvent};
use p2panda_core::cbor::{decode_cbor, encode_cbor};
use p2panda_core::{Body, Hash, SigningKey, Topic};
use p2panda_store::SqliteStore;

fn key(i: u8) -> SigningKey {
    SigningKey::from_bytes(&[i + 1; 32])
}

fn make(k: &SigningKey, topic: Topic, seq: u32, backlink: Option<Hash>, prune: bool, msg: &str) -> Operation {
    let body = Body::new(&encode_cbor(&msg.to_string()).unwrap());
    let mut header = Header {
        version: 1,
        verifying_key: k.verifying_key(),
        signature: None,
        payload_size: body.size(),
        payload_hash: Some(body.hash()),
        seq_num: seq,
        backlink,
        extensions: Extensions::from_topic(topic).set_prune_flag(prune),
    };
    header.sign(k);
    Operation { hash: header.hash(), header, body: Some(body) }
}

async fn dump(store: &SqliteStore) -> Vec<String> {
    let mut out = vec![];
    let rows: Vec<(String, i64, Vec<u8>, Option<Vec<u8>>)> = sqlx::query_as("SELECT hash, seq_num, header, body FROM operations_v1 ORDER BY hash").fetch_all(store.pool()).await.expect("ops");
    for r in rows {
        out.push(format!("op {} {} {} {:?}", r.0, r.1, explorer::h64(&r.2), r.3.map(|b| explorer::h64(&b))));
    }
    let rows: Vec<(Vec<u8>, String, Vec<u8>)> = sqlx::query_as("SELECT topic, author, data_id FROM topics_v1 ORDER BY topic, author, data_id").fetch_all(store.pool()).await.expect("topics");
    for r in rows {
        out.push(format!("topic {} {} {}", explorer::h64(&r.0), r.1, explorer::h64(&r.2)));
    }
    let rows: Vec<(String, Vec<u8>)> = sqlx::query_as("SELECT name, cursor FROM cursors_v1 ORDER BY name").fetch_all(store.pool()).await.expect("cursors");
    for r in rows {
        out.push(format!("cursor {} {}", r.0, explorer::h64(&r.1)));
    }
    out
}

#[derive(Debug, PartialEq, Clone, Copy)]
enum Answer {
    Processed,
    ProcessingFailed,
    DecodeFailed,
    AckFailed,
    SilentlyAccepted,
    Other,
}

async fn feed(pipeline: &Pipeline<LogId, Extensions, Topic>, store: &SqliteStore, topic: Topic, op: &Operation, policy: AckPolicy) -> Result<Answer, String> {
    let acked = Acked::new(store.clone(), topic);
    let r = tokio::time::timeout(std::time::Duration::from_secs(30), process_operation::<String>(op.clone(), topic, pipeline, policy, &acked, Source::ExternalStream { session_id: 7 }))
        .await
        .map_err(|_| "pipeline did not answer".to_string())?;
    Ok(match r {
        Some(StreamEvent::Processed { .. }) => Answer::Processed,
        Some(StreamEvent::ProcessingFailed { .. }) => Answer::ProcessingFailed,
        Some(StreamEvent::DecodeFailed { .. }) => Answer::DecodeFailed,
        Some(StreamEvent::AckFailed { .. }) => Answer::AckFailed,
        None => Answer::SilentlyAccepted,
        Some(_) => Answer::Other,
    })
}

struct Mutant {
    name: String,
    class: &'static str,
    op: Operation,
}

fn mutants(base: &Operation, foreign: &SigningKey, topic: Topic, bits: &[u8]) -> (Vec<Mutant>, u64) {
    let mut v = vec![];
    let h = &base.header;
    let mut push = |v: &mut Vec<Mutant>, name: String, class: &'static str, m: Header, body: Option<Body>| {
        v.push(Mutant { name: format!("{name}/stale-signature"), class, op: Operation { hash: m.hash(), header: m.clone(), body: body.clone() } });
        let mut m2 = m.clone();
        let claimed = m2.verifying_key;
        m2.sign(foreign);
        m2.verifying_key = claimed;
        v.push(Mutant { name: format!("{name}/re-signed-by-foreign-key"), class, op: Operation { hash: m2.hash(), header: m2, body } });
    };
    for ver in [0u16, 2] {
        let mut m = h.clone();
        m.version = ver;
        push(&mut v, format!("version={ver}"), "version", m, base.body.clone());
    }
    {
        let mut m = h.clone();
        m.verifying_key = foreign.verifying_key();
        v.push(Mutant { name: "verifying_key=foreign".into(), class: "verifying_key", op: Operation { hash: m.hash(), header: m, body: base.body.clone() } });
        let mut m = h.clone();
        m.signature = None;
        v.push(Mutant { name: "signature=none".into(), class: "signature", op: Operation { hash: m.hash(), header: m, body: base.body.clone() } });
    }
    for sz in [h.payload_size + 1, h.payload_size - 1, 0] {
        let mut m = h.clone();
        m.payload_size = sz;
        push(&mut v, format!("payload_size={sz}"), "payload_size", m, base.body.clone());
    }
    {
        let mut m = h.clone();
        m.payload_hash = Some(Hash::digest(b"other"));
        push(&mut v, "payload_hash=other".into(), "payload_hash", m, base.body.clone());
        let mut m = h.clone();
        m.seq_num += 1;
        if m.backlink.is_none() {
            m.backlink = Some(Hash::digest(b"x"));
        }
        push(&mut v, "seq_num+1".into(), "seq_num", m, base.body.clone());
        let mut m = h.clone();
        m.backlink = Some(Hash::digest(b"other backlink"));
        if m.seq_num > 0 {
            push(&mut v, "backlink=other".into(), "backlink", m, base.body.clone());
        }
        // extension fields: prune flag flipped, timestamp changed
        let mut m = h.clone();
        m.extensions = h.extensions.clone().set_prune_flag(!*h.extensions.prune_flag());
        push(&mut v, "extensions.prune_flag flipped".into(), "extensions", m, base.body.clone());
        mock_instant::thread_local::MockClock::advance_system_time(std::time::Duration::from_micros(1));
        let mut m = h.clone();
        m.extensions = Extensions::from_topic(topic).set_prune_flag(*h.extensions.prune_flag());
        push(&mut v, "extensions.timestamp+1us".into(), "extensions", m, base.body.clone());
    }
    // body
    let bytes = base.body.as_ref().unwrap().to_bytes();
    for pos in 0..bytes.len() {
        for bit in [0u8, 7] {
            let mut nb = bytes.clone();
            nb[pos] ^= 1 << bit;
            v.push(Mutant { name: format!("body[{pos}]^bit{bit}"), class: "body", op: Operation { hash: base.hash, header: h.clone(), body: Some(Body::new(&nb)) } });
        }
    }
    // header bytes
    let hb = h.to_bytes();
    let mut undecodable = 0;
    for pos in 0..hb.len() {
        for &bit in bits {
            let mut nb = hb.clone();
            nb[pos] ^= 1 << bit;
            match explorer::catch(|| decode_cbor::<Header, _>(&nb[..])) {
                Ok(Ok(d)) if d != *h => v.push(Mutant { name: format!("header[{pos}]^bit{bit}"), class: "header-byte", op: Operation { hash: d.hash(), header: d, body: base.body.clone() } }),
                Ok(Ok(_)) => {}
                Ok(Err(_)) => undecodable += 1,
                Err(p) => v.push(Mutant { name: format!("header[{pos}]^bit{bit}/decoder-panic:{p}"), class: "decoder-panic", op: base.clone() }),
            }
        }
    }
    (v, undecodable)
}

pub fn run(mut rep: Report) -> i32 {
    let thorough = rep.thorough();
    rep.rule = "valid operations with Node API Basic extensions (author x {seq 0, seq 1} x prune flag {off, on}) and every single mutation (field edits with stale signature and re-signed by a foreign key, bit 0 / bit 7 flips (all 8 bits thorough) of the CBOR header, bit flips of the body) through the node's real process_operation + Pipeline on SqliteStore, offered while the genuine operation is unknown and again after it was stored, under both ack policies; tampered => ProcessingFailed and unchanged store dump; non-trivial = mutant offered".into();
    let rt = tokio::runtime::Builder::new_current_thread().enable_all().build().expect("rt");
    let topic = Topic::from([4u8; 32]);
    mock_instant::thread_local::MockClock::set_system_time(std::time::Duration::from_secs(77));
    let bits: Vec<u8> = if thorough { (0..8).collect() } else { vec![0, 7] };
    let mut undec = 0;
    for a in 0..(if thorough { 2u8 } else { 1 }) {
        let k = key(a);
        let foreign = key(a + 9);
        for seq in [0u32, 1] {
            for prune in [false, true] {
                let pred = make(&k, topic, 0, None, false, "pred");
                let base = if seq == 0 { make(&k, topic, 0, None, prune, "hello") } else { make(&k, topic, 1, Some(pred.hash), prune, "hello") };
                let tag = format!("a{a}-seq{seq}-prune{prune}");
                let (ms, u) = mutants(&base, &foreign, topic, &bits);
                undec += u;
                for policy in [AckPolicy::Explicit, AckPolicy::Automatic] {
                    // one store + pipeline per (base, policy); reset by deleting rows
                    let r: Result<(), String> = rt.block_on(async {
                        let store = SqliteStore::temporary().await;
                        let pipeline = Pipeline::<LogId, Extensions, Topic>::new(store.clone(), TaskTracker::new());
                        for stored_first in [false, true] {
                            for m in &ms {
                                for t in ["operations_v1", "topics_v1", "cursors_v1"] {
                                    sqlx::query(&format!("DELETE FROM {t}")).execute(store.pool()).await.map_err(|e| e.to_string())?;
                                }
                                if seq == 1 {
                                    feed(&pipeline, &store, topic, &pred, policy).await?;
                                }
                                if stored_first {
                                    let ctl = feed(&pipeline, &store, topic, &base, policy).await?;
                                    if ctl != Answer::Processed {
                                        return Err(format!("positive control failed for {tag}: {ctl:?}"));
                                    }
                                }
                                let before = dump(&store).await;
                                let ans = feed(&pipeline, &store, topic, &m.op, policy).await?;
                                let after = dump(&store).await;
                                rep.eval();
                                rep.transition();
                                rep.state(&(&tag, &m.name, stored_first));
                                rep.nontrivial(&(&tag, &m.name, stored_first, policy == AckPolicy::Explicit));
                                rep.outcome(&format!("{ans:?}"));
                                let replay = json!({"part": "node", "base": tag, "mutation": m.name, "genuine_stored_first": stored_first, "policy": format!("{policy:?}")});
                                if m.class == "decoder-panic" {
                                    rep.violation("decoder-panics", format!("{tag}: {}", m.name), replay);
                                } else if ans != Answer::ProcessingFailed {
                                    rep.violation(
                                        format!("tampered-{}/{}{}", match ans { Answer::Processed => "reported-as-Processed", Answer::DecodeFailed => "accepted-then-DecodeFailed", Answer::SilentlyAccepted => "silently-accepted", _ => "not-rejected" }, m.class, if stored_first { "/as-duplicate" } else { "" }),
                                        format!("base {tag} (genuine operation stored first: {stored_first}, {policy:?}): mutation {} was answered {ans:?} instead of ProcessingFailed", m.name),
                                        replay,
                                    );
                                } else if before != after {
                                    rep.violation("rejected-but-store-changed", format!("base {tag}: mutation {} rejected but the store dump changed", m.name), replay);
                                } else if rep.want_sample() && m.class != "header-byte" && m.class != "body" {
                                    rep.sample(json!({"base": tag, "mutation": m.name, "genuine_stored_first": stored_first, "answer": format!("{ans:?}")}));
                                }
                            }
                        }
                        Ok(())
                    });
                    if let Err(e) = r {
                        rep.machinery_error(e);
                    }
                }
            }
        }
    }
    rep.set("header_byte_flips_undecodable", json!(undec));
    rep.assume("bytes that do not decode are rejected at the decoding layer of the sync protocol before they reach the node's pipeline");
    rep.finish()
}
