//! Node-level checks (crates p2panda and p2panda-net, hooks enabled).
use explorer::{Args, Report};

mod c01n;
mod c02;
mod c04;
mod c07;
mod c14n;
mod c15;
mod c29;
mod c40;
mod ephemeral;

fn main() {
    // hidden child modes of the crash-enumeration check
    let raw: Vec<String> = std::env::args().collect();
    if raw.get(1).map(|s| s.as_str()) == Some("C15-child") {
        std::process::exit(c15::child_main(&raw[2..]));
    }
    if raw.get(1).map(|s| s.as_str()) == Some("C15-reopen") {
        std::process::exit(c15::reopen_main(&raw[2..]));
    }
    let args = Args::parse();
    explorer::quiet_panics();
    let code = explorer::guard_main(&args.property, || match args.property.as_str() {
        "C01N" => c01n::run(Report::new(&args, "model_checking")),
        "C02" => c02::run(Report::new(&args, "model_checking")),
        "C04" => c04::run(Report::new(&args, "model_checking")),
        "C07" => c07::run(Report::new(&args, "model_checking")),
        "C14N" => c14n::run(Report::new(&args, "model_checking")),
        "C15" => c15::run(Report::new(&args, "fault_enumeration")),
        "C16" => ephemeral::run_c16(Report::new(&args, "model_checking")),
        "C17" => ephemeral::run_c17(Report::new(&args, "model_checking")),
        "C29" => c29::run(Report::new(&args, "model_checking")),
        "C40" => c40::run(Report::new(&args, "model_checking")),
        other => {
            eprintln!("vh-node: unknown property {other}");
            2
        }
    });
    let _ = Report::new(&args, "model_checking");
    std::process::exit(code);
}
