//! Node-level checks (crates p2panda and p2panda-net, hooks enabled).
use explorer::{Args, Report};

mod c02;
mod c04;
mod c07;
mod c29;
mod c40;
mod ephemeral;

fn main() {
    let args = Args::parse();
    explorer::quiet_panics();
    let code = match args.property.as_str() {
        "C02" => c02::run(Report::new(&args, "model_checking")),
        "C04" => c04::run(Report::new(&args, "model_checking")),
        "C07" => c07::run(Report::new(&args, "model_checking")),
        "C16" => ephemeral::run_c16(Report::new(&args, "model_checking")),
        "C17" => ephemeral::run_c17(Report::new(&args, "model_checking")),
        "C29" => c29::run(Report::new(&args, "model_checking")),
        "C40" => c40::run(Report::new(&args, "model_checking")),
        other => {
            eprintln!("vh-node: unknown property {other}");
            2
        }
    };
    let _ = Report::new(&args, "model_checking");
    std::process::exit(code);
}
