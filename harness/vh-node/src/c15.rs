//! C15 Unacknowledged operations are replayed after any crash.
//!
//! E-CRASH at node level.  For every history over {publish (awaited / not awaited), import an
//! operation of a second author, receive one event, acknowledge the oldest received event} up to a
//! length bound (plus: import a body-less operation ingest rejects; import a valid body-less
//! system operation), for every prefix length k and both crash kinds (orderly drop of node and runtime;
//! `abort()`), a *child process* runs the first k steps on a real `p2panda::Node` with a file-backed
//! database and reports what the application observed; the parent then inspects the database
//! file and a second child re-opens the node and the topic stream from its frontier.  Oracle: the
//! replay delivers exactly the stored operations with a body above the persisted acknowledged
//! height, in log order; nothing the application acknowledged (and whose ack call returned) or
//! (automatic policy) already received comes back; with the explicit policy everything stored
//! with a body and not acknowledged does come back.
use std::collections::{BTreeMap, BTreeSet};
use std::io::Write;
use std::process::{Command, Stdio};
use std::time::Duration;

use explorer::{json, Report, Value};
use futures_util::StreamExt;
use p2panda::node::AckPolicy;
use p2panda::operation::{Extensions, LogId, Operation};
use p2panda::streams::{StreamEvent, StreamFrom};
use p2panda_core::cbor::encode_cbor;
use p2panda_core::{Body, Hash, SigningKey, Topic};

const STEPS: [char; 8] = ['P', 'p', 'I', 'R', 'A', 'X', 'Y', 'B'];

fn topic() -> Topic {
    Topic::from([42u8; 32])
}
fn key_a() -> SigningKey {
    SigningKey::from_bytes(&[71; 32])
}
fn key_b() -> SigningKey {
    SigningKey::from_bytes(&[72; 32])
}

/// The next operation of author B for the topic: `seq` / `backlink` as given, with or without a
/// body (a body-less operation is a system-level one: never forwarded, always acknowledged).
fn b_op(seq: u32, backlink: Option<Hash>, with_body: bool) -> Operation {
    let k = key_b();
    let body = with_body.then(|| Body::new(&encode_cbor(&format!("from-b-{seq}")).unwrap()));
    let mut header = p2panda::operation::Header {
        version: 1,
        verifying_key: k.verifying_key(),
        signature: None,
        payload_size: body.as_ref().map(|b| b.size()).unwrap_or(0),
        payload_hash: body.as_ref().map(|b| b.hash()),
        seq_num: seq,
        backlink,
        extensions: Extensions::from_topic(topic()),
    };
    header.sign(&k);
    Operation { hash: header.hash(), header, body }
}

fn say(line: &str) {
    let mut o = std::io::stdout().lock();
    let _ = writeln!(o, "{line}");
    let _ = o.flush();
}

fn policy_of(s: &str) -> AckPolicy {
    if s == "explicit" { AckPolicy::Explicit } else { AckPolicy::Automatic }
}

/// Child: run the first k steps, report, crash.
pub fn child_main(args: &[String]) -> i32 {
    let (db, policy, hist, k, kind) = (&args[0], &args[1], &args[2], args[3].parse::<usize>().unwrap_or(0), &args[4]);
    let rt = tokio::runtime::Builder::new_multi_thread().worker_threads(2).enable_all().build().expect("rt");
    let steps: Vec<char> = hist.chars().take(k).collect();
    let abort = kind == "abort" || kind == "count" || kind.starts_with("commit-");
    rt.block_on(async {
        let node = p2panda::builder().signing_key(key_a()).database_url(&format!("sqlite://{db}")).ack_policy(policy_of(policy)).spawn().await.expect("spawn");
        let (tx, mut rx) = node.stream::<String>(topic()).await.expect("stream");
        // kind "commit-<k>": the process aborts right after the k-th transaction commit of the
        // history (hook in p2panda-store, cfg p2panda_p2panda_verif), wherever inside a step that is;
        // any other kind only counts the commits
        let abort_after: u64 = kind.strip_prefix("commit-").and_then(|k| k.parse().ok()).unwrap_or(0);
        p2panda_store::verif::set_abort_after_commit(abort_after);
        let mut published = 0;
        // author B's log as this node has accepted it so far
        let (mut b_seq, mut b_last): (u32, Option<Hash>) = (0, None);
        let mut received: Vec<Hash> = vec![];
        let mut acked = 0usize;
        for st in steps {
            match st {
                'P' | 'p' => {
                    let fut = tx.publish(format!("from-a-{published}")).await.expect("publish");
                    published += 1;
                    say(&format!("PUBLISHED {}", fut.hash()));
                    if st == 'P' {
                        let _ = fut.await;
                        say("PROCESSED");
                    }
                }
                'I' | 'Y' => {
                    // I: the next operation of B with a body; Y: the next operation of B without
                    // a body (accepted, never forwarded, acknowledged by the stream itself)
                    let op = b_op(b_seq, b_last, st == 'I');
                    let id = op.hash;
                    let imp = tx.import(futures_util::stream::iter(vec![op])).await.expect("import");
                    let _ = imp.await;
                    if st == 'I' {
                        say(&format!("IMPORTED {id}"));
                    } else {
                        say(&format!("SYSTEM-OPERATION {} {b_seq}", key_b().verifying_key().to_hex()));
                    }
                    b_last = Some(id);
                    b_seq += 1;
                }
                'X' => {
                    // a body-less operation of B that ingest must reject: it skips a sequence
                    // number (gap) and so cannot link to the log's tip
                    let op = b_op(b_seq + 1, Some(Hash::digest(b"not the tip")), false);
                    let id = op.hash;
                    let imp = tx.import(futures_util::stream::iter(vec![op])).await.expect("import");
                    let _ = imp.await;
                    say(&format!("OFFERED-INVALID {id}"));
                }
                'R' => loop {
                    match tokio::time::timeout(Duration::from_millis(700), rx.next()).await {
                        Ok(Some(StreamEvent::Processed { operation, .. })) => {
                            received.push(operation.id());
                            say(&format!("RECEIVED {}", operation.id()));
                            break;
                        }
                        Ok(Some(_)) => continue,
                        Ok(None) | Err(_) => {
                            say("RECEIVED-NOTHING");
                            break;
                        }
                    }
                },
                'B' => {
                    // acknowledge the two oldest received events concurrently
                    if acked + 2 <= received.len() {
                        let (i1, i2) = (received[acked], received[acked + 1]);
                        say(&format!("ACKING {i1}"));
                        say(&format!("ACKING {i2}"));
                        let (r1, r2) = tokio::join!(rx.ack(i1), rx.ack(i2));
                        if r1.is_ok() {
                            say(&format!("ACKED {i1}"));
                        }
                        if r2.is_ok() {
                            say(&format!("ACKED {i2}"));
                        }
                        acked += 2;
                    } else {
                        say("ACK-NOTHING");
                    }
                }
                'A' => {
                    if acked < received.len() {
                        let id = received[acked];
                        say(&format!("ACKING {id}"));
                        if rx.ack(id).await.is_ok() {
                            say(&format!("ACKED {id}"));
                        }
                        acked += 1;
                    } else {
                        say("ACK-NOTHING");
                    }
                }
                _ => {}
            }
        }
        say(&format!("COMMITS {}", p2panda_store::verif::commits()));
        say("CRASH");
        if abort {
            std::process::abort();
        }
        drop(tx);
        drop(rx);
        drop(node);
    });
    drop(rt);
    0
}

/// Child: re-open node and stream from the frontier, report the replay.
pub fn reopen_main(args: &[String]) -> i32 {
    let (db, policy) = (&args[0], &args[1]);
    // how many operations the parent expects to be replayed: if some are expected the child waits
    // generously for them (a slow machine must not look like a lost replay); if none are expected a
    // short quiet period suffices
    let expect: usize = args.get(2).and_then(|s| s.parse().ok()).unwrap_or(0);
    let rt = tokio::runtime::Builder::new_multi_thread().worker_threads(2).enable_all().build().expect("rt");
    rt.block_on(async {
        let node = p2panda::builder().signing_key(key_a()).database_url(&format!("sqlite://{db}")).ack_policy(policy_of(policy)).spawn().await.expect("spawn");
        let (_tx, mut rx) = node.stream_from::<String>(topic(), StreamFrom::Frontier).await.expect("stream");
        let mut in_replay = false;
        loop {
            let wait = if expect > 0 || in_replay { Duration::from_secs(60) } else { Duration::from_millis(500) };
            match tokio::time::timeout(wait, rx.next()).await {
                Ok(Some(StreamEvent::ReplayStarted { total_operations })) => {
                    in_replay = true;
                    say(&format!("REPLAY-STARTED {total_operations}"));
                }
                Ok(Some(StreamEvent::ReplayEnded)) => {
                    say("REPLAY-ENDED");
                    break;
                }
                Ok(Some(StreamEvent::Processed { operation, .. })) => {
                    say(&format!("{} {} {} {}", if in_replay { "REPLAYED" } else { "DELIVERED-OUTSIDE-REPLAY" }, operation.id(), operation.author(), operation.id()));
                }
                Ok(Some(other)) => say(&format!("OTHER {}", format!("{other:?}").chars().take(60).collect::<String>())),
                Ok(None) | Err(_) => {
                    say("QUIET");
                    break;
                }
            }
        }
    });
    0
}

struct DbView {
    /// (author hex, seq) -> (id, has body)
    stored: BTreeMap<(String, u32), (String, bool)>,
    /// author hex -> acked height of the topic's log
    cursor: BTreeMap<String, u32>,
}

fn inspect(db: &str) -> Result<DbView, String> {
    let rt = tokio::runtime::Builder::new_current_thread().enable_all().build().map_err(|e| e.to_string())?;
    rt.block_on(async {
        let store = p2panda_store::SqliteStoreBuilder::new().database_url(&format!("sqlite://{db}")).create_database(false).run_default_migrations(false).min_connections(1).max_connections(1).build().await.map_err(|e| e.to_string())?;
        let log = p2panda_core::cbor::encode_cbor(&LogId::from_topic(topic())).map_err(|e| e.to_string())?;
        let rows: Vec<(String, String, i64, Option<Vec<u8>>)> = sqlx::query_as("SELECT hash, verifying_key, seq_num, body FROM operations_v1 WHERE log_id = ? ORDER BY verifying_key, seq_num")
            .bind(log)
            .fetch_all(store.pool())
            .await
            .map_err(|e| e.to_string())?;
        let mut stored = BTreeMap::new();
        for (h, a, s, b) in rows {
            stored.insert((a, s as u32), (h, b.is_some()));
        }
        let mut cursor = BTreeMap::new();
        let c: Option<p2panda_core::Cursor<p2panda_core::VerifyingKey, LogId>> =
            <p2panda_store::SqliteStore as p2panda_store::cursors::CursorStore<p2panda_core::VerifyingKey, LogId>>::get_cursor(&store, topic().to_string()).await.map_err(|e| e.to_string())?;
        if let Some(c) = c {
            for (a, logs) in c.state() {
                if let Some(h) = logs.get(&LogId::from_topic(topic())) {
                    cursor.insert(a.to_hex(), *h);
                }
            }
        }
        store.pool().close().await;
        Ok(DbView { stored, cursor })
    })
}

fn run_child(args: &[&str], timeout: Duration) -> Result<(Vec<String>, Option<i32>), String> {
    let exe = std::env::current_exe().map_err(|e| e.to_string())?;
    let mut child = Command::new(exe).args(args).stdout(Stdio::piped()).stderr(Stdio::null()).spawn().map_err(|e| e.to_string())?;
    let start = std::time::Instant::now();
    loop {
        match child.try_wait().map_err(|e| e.to_string())? {
            Some(st) => {
                let mut out = String::new();
                use std::io::Read;
                if let Some(mut so) = child.stdout.take() {
                    let _ = so.read_to_string(&mut out);
                }
                return Ok((out.lines().map(|l| l.to_string()).collect(), st.code()));
            }
            None => {
                if start.elapsed() > timeout {
                    let _ = child.kill();
                    let _ = child.wait();
                    return Err("child timed out".into());
                }
                std::thread::sleep(Duration::from_millis(10));
            }
        }
    }
}

#[derive(Default)]
struct CaseOut {
    desc: String,
    violations: Vec<(String, String)>,
    machinery: Option<String>,
    nontrivial: bool,
    replayed: usize,
    sample: Option<Value>,
    info_auto_acked_unseen: u64,
}

fn run_case(dir: &str, n: u64, policy: &str, hist: &str, k: usize, kind: &str) -> CaseOut {
    let mut out = CaseOut { desc: format!("policy={policy} history={hist} crash-after={k} kind={kind}"), ..Default::default() };
    let db = format!("{dir}/c15-{}-{n}.sqlite", std::process::id());
    let cleanup = |db: &str| {
        for s in ["", "-wal", "-shm", "-journal"] {
            let _ = std::fs::remove_file(format!("{db}{s}"));
        }
    };
    cleanup(&db);
    let ks = k.to_string();
    let (lines, _code) = match run_child(&["C15-child", &db, policy, hist, &ks, kind], Duration::from_secs(120)) {
        Ok(r) => r,
        Err(e) => {
            out.machinery = Some(format!("{}: {e}", out.desc));
            cleanup(&db);
            return out;
        }
    };
    if !lines.iter().any(|l| l == "CRASH") && !kind.starts_with("commit-") {
        out.machinery = Some(format!("{}: child did not reach the crash point: {lines:?}", out.desc));
        cleanup(&db);
        return out;
    }
    let grab = |p: &str| -> Vec<String> { lines.iter().filter_map(|l| l.strip_prefix(p).map(|s| s.trim().to_string())).collect() };
    let received: BTreeSet<String> = grab("RECEIVED ").into_iter().collect();
    let acked: BTreeSet<String> = grab("ACKED ").into_iter().collect();
    let view = match inspect(&db) {
        Ok(v) => v,
        Err(e) => {
            out.machinery = Some(format!("{}: cannot inspect database: {e}", out.desc));
            cleanup(&db);
            return out;
        }
    };
    let expect_n = view.stored.iter().filter(|((a, s), (_, b))| *b && view.cursor.get(a).is_none_or(|h| s > h)).count().to_string();
    let (rlines, _) = match run_child(&["C15-reopen", &db, policy, &expect_n], Duration::from_secs(180)) {
        Ok(r) => r,
        Err(e) => {
            out.machinery = Some(format!("{}: reopen: {e}", out.desc));
            cleanup(&db);
            return out;
        }
    };
    cleanup(&db);
    let replayed: Vec<String> = rlines.iter().filter_map(|l| l.strip_prefix("REPLAYED ").map(|s| s.split(' ').next().unwrap_or("").to_string())).collect();
    let outside: Vec<String> = rlines.iter().filter_map(|l| l.strip_prefix("DELIVERED-OUTSIDE-REPLAY ").map(|s| s.split(' ').next().unwrap_or("").to_string())).collect();
    out.replayed = replayed.len();
    // expected from the persisted state
    let mut expected: Vec<String> = vec![];
    for ((a, s), (id, has_body)) in &view.stored {
        if *has_body && view.cursor.get(a).is_none_or(|h| s > h) {
            expected.push(id.clone());
        }
    }
    let rset: BTreeSet<String> = replayed.iter().cloned().collect();
    let eset: BTreeSet<String> = expected.iter().cloned().collect();
    if rset.len() != replayed.len() {
        out.violations.push(("replay/duplicate-delivery".into(), format!("{}: an operation was replayed twice: {replayed:?}", out.desc)));
    }
    if !outside.is_empty() {
        out.violations.push(("replay/delivered-outside-replay-markers".into(), format!("{}: {outside:?} delivered outside ReplayStarted/ReplayEnded", out.desc)));
    }
    for id in eset.difference(&rset) {
        out.violations.push((
            "replay/unacknowledged-operation-not-replayed".into(),
            format!("{}: operation {}… is stored with a body above the persisted cursor {:?} but was not replayed (replayed: {} ops; child log {lines:?}; reopen log {rlines:?})", out.desc, &id[..8], view.cursor, replayed.len()),
        ));
    }
    for id in rset.difference(&eset) {
        out.violations.push(("replay/acknowledged-operation-replayed".into(), format!("{}: operation {}… was replayed although the persisted cursor {:?} covers it", out.desc, &id[..8], view.cursor)));
    }
    for id in grab("OFFERED-INVALID ") {
        if view.stored.values().any(|(h, _)| *h == id) {
            out.violations.push(("ingest/invalid-operation-stored".into(), format!("{}: the gap operation {}… was stored", out.desc, &id[..8])));
        }
    }
    // per-author order
    let order_of = |id: &String| view.stored.iter().find(|(_, v)| &v.0 == id).map(|(k, _)| k.clone());
    let mut last: BTreeMap<String, u32> = BTreeMap::new();
    for id in &replayed {
        if let Some((a, s)) = order_of(id) {
            if last.get(&a).is_some_and(|p| *p >= s) {
                out.violations.push(("replay/out-of-log-order".into(), format!("{}: replay order {replayed:?}", out.desc)));
            }
            last.insert(a, s);
        }
    }
    // what the application knows
    for id in &acked {
        if rset.contains(id) {
            out.violations.push(("replay/explicitly-acked-operation-replayed".into(), format!("{}: {}… was acknowledged (ack returned) before the crash and replayed afterwards", out.desc, &id[..8])));
        }
    }
    if policy == "automatic" {
        for id in &received {
            if rset.contains(id) {
                out.violations.push(("replay/received-operation-replayed-under-automatic-acks".into(), format!("{}: {}… had been delivered (automatic ack) before the crash and was replayed", out.desc, &id[..8])));
            }
        }
        out.info_auto_acked_unseen = view.stored.iter().filter(|((a, s), (id, b))| *b && view.cursor.get(a).is_some_and(|h| s <= h) && !received.contains(id)).count() as u64;
    } else {
        // explicit: everything stored with a body and not covered by a returned ack must come back
        let mut acked_height: BTreeMap<String, u32> = BTreeMap::new();
        // an accepted body-less operation is acknowledged by the stream itself: "a later operation
        // of the same log was acknowledged" for everything below it
        for l in grab("SYSTEM-OPERATION ") {
            let mut it = l.split(' ');
            if let (Some(a), Some(Ok(sq))) = (it.next(), it.next().map(|x| x.parse::<u32>())) {
                if view.stored.contains_key(&(a.to_string(), sq)) {
                    let e = acked_height.entry(a.to_string()).or_insert(sq);
                    if *e < sq {
                        *e = sq;
                    }
                }
            }
        }
        for id in &acked {
            if let Some((a, s)) = order_of(id) {
                let e = acked_height.entry(a).or_insert(s);
                if *e < s {
                    *e = s;
                }
            }
        }
        // an acknowledgement that was in flight when the process was aborted inside it (commit-
        // granularity crash points) may or may not have taken effect: if the persisted cursor
        // covers it, it counts as acknowledged
        for id in grab("ACKING ") {
            if acked.contains(&id) {
                continue;
            }
            if let Some((a, s)) = order_of(&id) {
                if view.cursor.get(&a).is_some_and(|h| *h >= s) {
                    let e = acked_height.entry(a).or_insert(s);
                    if *e < s {
                        *e = s;
                    }
                }
            }
        }
        for ((a, s), (id, has_body)) in &view.stored {
            if *has_body && acked_height.get(a).is_none_or(|h| s > h) && !rset.contains(id) {
                out.violations.push((
                    "replay/never-acknowledged-operation-not-replayed".into(),
                    format!("{}: {}… (author {}…, seq {s}) was never acknowledged by the application but was not replayed; persisted cursor {:?}", out.desc, &id[..8], &a[..8], view.cursor),
                ));
            }
        }
    }
    out.nontrivial = !replayed.is_empty() && (!acked.is_empty() || !received.is_empty());
    out.sample = Some(json!({"case": out.desc, "child": lines, "persisted_cursor": format!("{:?}", view.cursor), "stored": view.stored.len(), "replayed": replayed.len()}));
    out
}

pub fn run(mut rep: Report) -> i32 {
    let thorough = rep.thorough();
    let max_len = if thorough { 5 } else { 3 };
    // quick: all histories up to length 2 plus eight length-3 histories around receive/ack
    let has_xy = |h: &str| h.contains('X') || h.contains('Y') || h.contains('B');
    let quick_filter = |h: &str| (h.len() <= 2 && !has_xy(h)) || ["PRA", "IRA", "pRA", "PPR", "PIR", "IPR", "PRP", "IRI", "X", "Y", "IX", "IY", "XI", "YI", "IRX", "IYI", "PIRRB", "PPRRB"].contains(&h);
    // thorough: histories with an invalid (X) or a body-less system operation (Y) up to length 4
    // (two concurrent acknowledgements, B, need two received events: those histories have length 5 and end in B)
    let thorough_filter = |h: &str| !has_xy(h) || h.len() <= 4 || (h.ends_with('B') && h.matches('B').count() == 1 && !h.contains('X') && !h.contains('Y'));
    rep.rule = format!("every history of length <= {max_len} over {{P publish+await processing, p publish without awaiting, I import an operation of a second author, R receive one event, A acknowledge the oldest received event, X import a body-less operation of the second author that ingest rejects (sequence gap), Y import a valid body-less (system-level) operation of the second author, B acknowledge the two oldest received events concurrently}} (X/Y histories up to length 4, B as last step) x both AckPolicy values x every crash point k (after each prefix) x {{orderly drop, abort()}}; in addition, for a few histories, an abort() right after every single transaction commit of the history (commit-granularity crash points inside publish / ingest / acknowledge); histories are reduced to those whose steps are all effective (an R/A with nothing to receive/ack is skipped); child process on a file-backed database, then database inspection and a re-opened node streaming from the frontier; non-trivial = case with a non-empty replay after the application had received or acknowledged something");
    let dir = if std::path::Path::new("/dev/shm").is_dir() { "/dev/shm".to_string() } else { std::env::temp_dir().display().to_string() };
    // enumerate histories (canonical: R only if something can be pending, A only if something received and unacked)
    let mut hists: Vec<String> = vec![];
    fn genh(cur: &mut String, max: usize, out: &mut Vec<String>) {
        if !cur.is_empty() {
            out.push(cur.clone());
        }
        if cur.len() == max {
            return;
        }
        let produced = cur.chars().filter(|c| "PpI".contains(*c)).count();
        let recv = cur.chars().filter(|c| *c == 'R').count();
        let ack = cur.chars().map(|c| match c { 'A' => 1, 'B' => 2, _ => 0 }).sum::<usize>();
        for s in STEPS {
            if s == 'B' && ack + 2 > recv {
                continue;
            }
            if s == 'R' && recv >= produced {
                continue;
            }
            if s == 'A' && ack >= recv {
                continue;
            }
            cur.push(s);
            genh(cur, max, out);
            cur.pop();
        }
    }
    genh(&mut String::new(), max_len.max(5), &mut hists);
    hists.retain(|h| h.len() <= max_len || (h.len() == 5 && h.ends_with('B')));
    // a crash after prefix k of history h is the same case as the full history h[..k] crashed at its
    // end: enumerate every history once, crashed at its end
    let mut cases: Vec<(String, String, String)> = vec![];
    for policy in ["explicit", "automatic"] {
        for h in &hists {
            if (!thorough && !quick_filter(h)) || (thorough && !thorough_filter(h)) {
                continue;
            }
            if policy == "automatic" && (h.contains('A') || h.contains('B')) {
                continue;
            }
            for kind in ["drop", "abort"] {
                cases.push((policy.to_string(), h.clone(), kind.to_string()));
            }
        }
    }
    // commit-granularity crash points: for a few histories the process is aborted right after
    // every single transaction commit (counted by a first, uncrashed run of the history)
    let commit_hists: &[&str] = if thorough { &["P", "p", "I", "PP", "PI", "IP", "PR", "PRA", "IRA", "PPR", "Y", "IY"] } else { &["P", "PI", "PRA"] };
    let mut commit_cases = 0usize;
    for policy in ["explicit", "automatic"] {
        for h in commit_hists {
            if policy == "automatic" && h.contains('A') {
                continue;
            }
            let db = format!("{dir}/c15-{}-count.sqlite", std::process::id());
            for sfx in ["", "-wal", "-shm", "-journal"] {
                let _ = std::fs::remove_file(format!("{db}{sfx}"));
            }
            let ks = h.len().to_string();
            let n = match run_child(&["C15-child", &db, policy, h, &ks, "count"], Duration::from_secs(120)) {
                Ok((lines, _)) => lines.iter().filter_map(|l| l.strip_prefix("COMMITS ").and_then(|x| x.trim().parse::<u64>().ok())).next_back().unwrap_or(0),
                Err(e) => {
                    rep.machinery_error(format!("counting commits of history {h} ({policy}): {e}"));
                    0
                }
            };
            for sfx in ["", "-wal", "-shm", "-journal"] {
                let _ = std::fs::remove_file(format!("{db}{sfx}"));
            }
            for k in 1..=n {
                cases.push((policy.to_string(), h.to_string(), format!("commit-{k}")));
                commit_cases += 1;
            }
        }
    }
    rep.set("commit_granularity_crash_cases", json!(commit_cases));
    let threads = rep.args.threads.clamp(1, 16);
    let counter = std::sync::atomic::AtomicUsize::new(0);
    let deadline = std::time::Instant::now() + Duration::from_secs(if thorough { 2400 } else { 300 });
    let outs: Vec<CaseOut> = std::thread::scope(|sc| {
        let hs: Vec<_> = (0..threads)
            .map(|_| {
                let (cases, counter, dir) = (&cases, &counter, &dir);
                sc.spawn(move || {
                    let mut v = vec![];
                    loop {
                        let i = counter.fetch_add(1, std::sync::atomic::Ordering::SeqCst);
                        if i >= cases.len() || std::time::Instant::now() > deadline {
                            break;
                        }
                        let (p, h, kind) = &cases[i];
                        v.push(run_case(dir, i as u64, p, h, h.len(), kind));
                    }
                    v
                })
            })
            .collect();
        hs.into_iter().flat_map(|h| h.join().expect("worker")).collect()
    });
    if outs.len() < cases.len() {
        rep.not_exhaustive(&format!("wall budget: {} of {} crash cases run", outs.len(), cases.len()));
    }
    let mut unseen = 0;
    for o in outs {
        rep.eval();
        rep.transitions += 2;
        rep.state(&o.desc);
        if let Some(m) = o.machinery {
            rep.machinery_error(m);
            continue;
        }
        rep.outcome(&(o.replayed, o.violations.len()));
        if o.nontrivial {
            rep.nontrivial(&o.desc);
            if rep.want_sample() {
                if let Some(s) = o.sample {
                    rep.sample(s);
                }
            }
        }
        unseen += o.info_auto_acked_unseen;
        for (k, w) in o.violations {
            rep.violation(k, w, json!({"part": "crash", "case": o.desc}));
        }
    }
    rep.set("crash_cases", json!(cases.len()));
    rep.set("info_automatic_policy_ops_acked_before_the_application_received_them", json!(unseen));
    rep.assume("a crash after prefix k of a history equals the history of length k crashed at its end, so every history is crashed once at its end (both kinds); crash points are step boundaries, plus (for the histories listed under commit-granularity) every transaction commit");
    rep.assume("a SQLite commit is durable against process abort; power loss is outside the property");
    rep.assume("under AckPolicy::Automatic an operation counts as acknowledged when the node acknowledged it on delivery into the subscription, even if the application had not yet taken it from the subscription (counted in info_automatic_policy_ops_acked_before_the_application_received_them, not a violation)");
    rep.finish()
}
