//! C40 Topic sync metrics count every session's bytes exactly once.
//!
//! E-BFS on the real `Aggregator` (hook: `p2panda::streams::verif::Aggregator`).  Every session
//! emits a lifecycle-valid event sequence carrying cumulative metrics; all interleavings of 2 (3)
//! sessions' sequences are explored as a graph whose nodes are the positions reached in each
//! sequence.  In every node: running sessions = started − ended; two paths to the same node must
//! agree on all aggregates (differential table); in the terminal node the totals equal the sum of
//! what each session transferred.
use std::collections::HashMap;

use explorer::{json, Report};
use p2panda::streams::verif::{aggregator_process, aggregator_process_phase, Aggregator};
use p2panda_core::SigningKey;
use p2panda_sync::protocols::{Metrics, TopicLogSyncEvent};
use p2panda_sync::FromSync;

#[derive(Clone, Copy, Debug, PartialEq, Eq, Hash)]
enum Ending {
    Finished,
    FailedInSync,
    FailedInLive,
}

#[derive(Clone, Debug, PartialEq, Eq, Hash)]
struct Script {
    with_session_started: bool,
    live: bool,
    ending: Ending,
    sync_sent: u32,
    sync_recv: u32,
    live_sent: u32,
    live_recv: u32,
}

type Ev = TopicLogSyncEvent<()>;

fn m(ss: u32, sr: u32, ls: u32, lr: u32) -> Metrics {
    Metrics {
        outbound_sync_bytes: ss,
        inbound_sync_bytes: sr,
        sent_sync_bytes: ss,
        received_sync_bytes: sr,
        sent_live_bytes: ls,
        received_live_bytes: lr,
        ..Default::default()
    }
}

fn op() -> Box<p2panda_core::Operation<()>> {
    let k = SigningKey::from_bytes(&[9; 32]);
    let mut h = p2panda_core::Header::<()> { verifying_key: k.verifying_key(), ..Default::default() };
    h.sign(&k);
    Box::new(p2panda_core::Operation { hash: h.hash(), header: h, body: None })
}

/// The events of one session, exactly in the shape the real TopicLogSync emits them: metrics are
/// cumulative, `SyncFinished` carries the sync-phase totals, `SessionFinished` the session totals.
fn events(s: &Script) -> Vec<Ev> {
    let mut v = vec![];
    if s.with_session_started {
        v.push(Ev::SessionStarted);
    }
    v.push(Ev::SyncStarted { metrics: Metrics { outbound_sync_bytes: s.sync_sent, inbound_sync_bytes: s.sync_recv, ..Default::default() } });
    // halfway through the sync phase
    v.push(Ev::OperationReceived { operation: op(), metrics: m(s.sync_sent / 2, s.sync_recv / 2, 0, 0) });
    if s.ending == Ending::FailedInSync {
        v.push(Ev::Failed { error: failed() });
        return v;
    }
    v.push(Ev::SyncFinished { metrics: m(s.sync_sent, s.sync_recv, 0, 0) });
    if s.live {
        v.push(Ev::LiveModeStarted);
        v.push(Ev::OperationReceived { operation: op(), metrics: m(s.sync_sent, s.sync_recv, s.live_sent / 2, s.live_recv) });
        if s.ending == Ending::FailedInLive {
            v.push(Ev::Failed { error: failed() });
            return v;
        }
        v.push(Ev::SessionFinished { metrics: m(s.sync_sent, s.sync_recv, s.live_sent, s.live_recv) });
    } else {
        v.push(Ev::SessionFinished { metrics: m(s.sync_sent, s.sync_recv, 0, 0) });
    }
    v
}

fn failed() -> String {
    "injected failure".to_string()
}

/// (lower, upper) bound of the bytes (sent, received) this session transferred.
fn transferred(s: &Script) -> ((u32, u32), (u32, u32)) {
    match s.ending {
        Ending::Finished => {
            let l = if s.live { (s.live_sent, s.live_recv) } else { (0, 0) };
            let t = (s.sync_sent + l.0, s.sync_recv + l.1);
            (t, t)
        }
        // the text does not fix what a failed session counts: at least what SyncFinished reported
        // (nothing if it was never reached), at most the last metrics it reported
        Ending::FailedInSync => ((0, 0), (s.sync_sent / 2, s.sync_recv / 2)),
        Ending::FailedInLive => ((s.sync_sent, s.sync_recv), (s.sync_sent + s.live_sent / 2, s.sync_recv + s.live_recv)),
    }
}

fn scripts(thorough: bool, with_started: bool) -> Vec<Script> {
    let mut v = vec![];
    let bytes: &[u32] = if thorough { &[0, 3, 8] } else { &[0, 4] };
    for &ss in bytes {
        for &sr in bytes {
            for &ls in &[0u32, 6] {
                for live in [false, true] {
                    if !live && ls > 0 {
                        continue;
                    }
                    for ending in [Ending::Finished, Ending::FailedInSync, Ending::FailedInLive] {
                        if ending == Ending::FailedInLive && !live {
                            continue;
                        }
                        v.push(Script { with_session_started: with_started, live, ending, sync_sent: ss, sync_recv: sr, live_sent: ls, live_recv: if live { 2 } else { 0 } });
                    }
                }
            }
        }
    }
    v
}

fn observe(a: &Aggregator) -> (u32, u32, u32) {
    (a.running_sessions(), a.total_bytes_sent(), a.total_bytes_received())
}

fn explore(rep: &mut Report, combo: &[Script]) {
    let k = SigningKey::from_bytes(&[3; 32]).verifying_key();
    let seqs: Vec<Vec<Ev>> = combo.iter().map(events).collect();
    let n = combo.len();
    // BFS over position vectors
    let mut table: HashMap<Vec<usize>, (Aggregator, (u32, u32, u32), Vec<usize>)> = HashMap::new();
    let start = vec![0usize; n];
    table.insert(start.clone(), (Aggregator::new(), (0, 0, 0), vec![]));
    let mut frontier = vec![start];
    let with_started = combo.iter().all(|s| s.with_session_started);
    while !frontier.is_empty() {
        let mut next = vec![];
        for pos in frontier {
            let (agg, _, path) = table[&pos].clone();
            for s in 0..n {
                if pos[s] >= seqs[s].len() {
                    continue;
                }
                rep.transition();
                let mut a2 = agg.clone();
                let ev = seqs[s][pos[s]].clone();
                let r = explorer::catch(|| {
                    let _ = aggregator_process(&mut a2, FromSync { session_id: s as u64 + 1, remote: k, event: ev });
                });
                let mut p2 = pos.clone();
                p2[s] += 1;
                let mut path2 = path.clone();
                path2.push(s);
                let replay = json!({"part": "interleave", "scripts": format!("{combo:?}"), "order": path2});
                if let Err(p) = r {
                    rep.violation("aggregator-panics", format!("scripts {combo:?}, order {path2:?}: {p}"), replay);
                    continue;
                }
                let o = observe(&a2);
                // running sessions = started − ended
                let started = (0..n).filter(|i| p2[*i] > 0).count() as u32;
                let ended = (0..n).filter(|i| p2[*i] == seqs[*i].len()).count() as u32;
                if o.0 != started - ended {
                    rep.violation(
                        if with_started { "running-sessions/wrong-count" } else { "running-sessions/undercount-without-SessionStarted" },
                        format!("scripts {combo:?}, session order {path2:?}: {started} started, {ended} ended, aggregator reports {} running", o.0),
                        replay.clone(),
                    );
                }
                match table.get(&p2) {
                    Some((_, first, first_path)) => {
                        if *first != o {
                            rep.violation(
                                "order-dependent-aggregates",
                                format!("scripts {combo:?}: positions {p2:?} reached by orders {first_path:?} and {path2:?} give (running, sent, received) = {first:?} vs {o:?}"),
                                replay,
                            );
                        }
                    }
                    None => {
                        rep.state(&(combo, &p2));
                        table.insert(p2.clone(), (a2, o, path2));
                        next.push(p2);
                    }
                }
            }
        }
        frontier = next;
    }
    // terminal node
    let end: Vec<usize> = seqs.iter().map(|s| s.len()).collect();
    rep.eval();
    if let Some((_, o, path)) = table.get(&end) {
        let (mut lo, mut hi) = ((0u32, 0u32), (0u32, 0u32));
        for s in combo {
            let (l, h) = transferred(s);
            lo = (lo.0 + l.0, lo.1 + l.1);
            hi = (hi.0 + h.0, hi.1 + h.1);
        }
        let ok = o.1 >= lo.0 && o.1 <= hi.0 && o.2 >= lo.1 && o.2 <= hi.1;
        rep.outcome(&(o.1 as i64 - hi.0 as i64, o.2 as i64 - hi.1 as i64));
        if combo.iter().any(|s| s.sync_sent + s.sync_recv > 0) {
            rep.nontrivial(&combo);
        }
        if !ok {
            let finished_only = combo.iter().all(|s| s.ending == Ending::Finished);
            let over = o.1 > hi.0 || o.2 > hi.1;
            rep.violation(
                format!("totals/{}{}", if over { "bytes-counted-more-than-once" } else { "bytes-missing" }, if finished_only { "" } else { "/with-failed-session" }),
                format!("scripts {combo:?} (order {path:?}): totals sent/received = {}/{} but the sessions transferred sent {}..={} received {}..={}", o.1, o.2, lo.0, hi.0, lo.1, hi.1),
                json!({"part": "totals", "scripts": format!("{combo:?}"), "order": path}),
            );
        } else if rep.want_sample() && combo.len() > 1 {
            rep.sample(json!({"scripts": format!("{combo:?}"), "totals_sent_received": [o.1, o.2], "expected_range": [[lo.0, hi.0], [lo.1, hi.1]]}));
        }
    }
}

/// Session ids repeat when a topic's manager starts counting again: the lifecycle of script `a`
/// and then the lifecycle of script `b` under the *same* session id on one aggregator.  The phase
/// an operation event is attributed to must follow the current lifetime only: "live" exactly when
/// LiveModeStarted was seen since that lifetime's SyncStarted; and the running-session count is
/// back to zero between and after the two lifetimes.
fn explore_id_reuse(rep: &mut Report, a: &Script, b: &Script) {
    let k = SigningKey::from_bytes(&[3; 32]).verifying_key();
    let mut agg = Aggregator::new();
    let mut seen_live;
    rep.eval();
    for (life, sc) in [a, b].into_iter().enumerate() {
        seen_live = false;
        for ev in events(sc) {
            rep.transition();
            let is_op = matches!(ev, Ev::OperationReceived { .. });
            if matches!(ev, Ev::LiveModeStarted) {
                seen_live = true;
            }
            let phase = aggregator_process_phase(&mut agg, FromSync { session_id: 7, remote: k, event: ev });
            if is_op {
                let want = if seen_live { "live" } else { "sync" };
                rep.outcome(&("phase", life, want, phase));
                if phase != Some(want) {
                    rep.violation(
                        format!("phase/operation-of-{want}-phase-attributed-to-{}", phase.unwrap_or("nothing")),
                        format!("session id 7 used by {a:?} and then again by {b:?}: an operation received in the {want} phase of lifetime #{life} was reported as {phase:?}"),
                        json!({"part": "session-id-reuse", "first": format!("{a:?}"), "second": format!("{b:?}")}),
                    );
                    return;
                }
            }
        }
        if a.with_session_started && observe(&agg).0 != 0 {
            rep.violation(
                "running-sessions/not-zero-after-session-ended".to_string(),
                format!("session id 7, lifetime #{life} of [{a:?}, {b:?}] ended but the aggregator reports {} running sessions", observe(&agg).0),
                json!({"part": "session-id-reuse", "first": format!("{a:?}"), "second": format!("{b:?}")}),
            );
            return;
        }
    }
    rep.state(&("id-reuse", a, b));
}

pub fn run(mut rep: Report) -> i32 {
    let thorough = rep.thorough();
    rep.rule = "sessions emit the event sequences the real TopicLogSync emits (cumulative metrics; SyncFinished = sync totals, SessionFinished = session totals; endings: finished, failed in sync, failed in live; with and without live mode; byte values from a small domain), with the documented SessionStarted first and, separately, without it as the current producer emits them; every interleaving of 1, 2 (and 3 in the thorough tier) sessions is explored as a position graph; non-trivial = combination in which some session transferred sync bytes".into();
    for with_started in [true, false] {
        let ss = scripts(thorough, with_started);
        for a in &ss {
            explore(&mut rep, std::slice::from_ref(a));
        }
        for a in &ss {
            for b in &ss {
                explore(&mut rep, &[a.clone(), b.clone()]);
                explore_id_reuse(&mut rep, a, b);
            }
        }
        if thorough {
            // three sessions: all triples over the finished/failed variants with non-zero sync bytes
            let small: Vec<Script> = ss.iter().filter(|s| s.sync_sent > 0 && s.sync_recv > 0 && s.sync_sent == s.sync_recv).cloned().collect();
            for a in &small {
                for b in &small {
                    for c in &small {
                        explore(&mut rep, &[a.clone(), b.clone(), c.clone()]);
                    }
                }
            }
        }
    }
    rep.assume("for sessions ending in Failed only the bounds 'at least what SyncFinished reported, at most the last reported metrics' are demanded");
    rep.finish()
}
