//! C07 Stream cursors only move forward and only for their own topic.
//!
//! Part 1 (E-BFS, pure): every sequence of `Cursor::advance` calls over 2 authors × 2 logs ×
//! heights 0..=3 explored as a state graph to its fixpoint; the state must equal the pointwise
//! maximum of the advances, so all orders agree (differential table is implied by the key).
//! Part 2 (E-BFS on real SQLite, hook `streams::verif::Acked`): acks of operations of two topics by
//! two authors in every order, to the fixpoint of the cursor state; the persisted cursor is
//! monotone, acks of a foreign-topic header fail with `InvalidTopic` and leave the raw persisted
//! row untouched.
//! Part 3: two concurrent acks on clones of one `Acked` in both spawn orders.
use std::collections::{BTreeMap, HashMap, VecDeque};

use explorer::{json, Report};
use p2panda::operation::{Extensions, Header, LogId};
use p2panda::streams::verif::Acked;
use p2panda_core::cursor::Cursor;
use p2panda_core::{SigningKey, Topic, VerifyingKey};
use p2panda_store::SqliteStore;

fn key(i: u8) -> SigningKey {
    SigningKey::from_bytes(&[i + 1; 32])
}

fn part1(rep: &mut Report) {
    type St = BTreeMap<(u8, u8), u32>;
    let authors = [key(0).verifying_key(), key(1).verifying_key()];
    let advances: Vec<(u8, u8, u32)> = (0..2u8).flat_map(|a| (0..2u8).flat_map(move |l| (0..=3u32).map(move |h| (a, l, h)))).collect();
    let mut seen: HashMap<St, Cursor<VerifyingKey, u8>> = HashMap::new();
    let init = Cursor::<VerifyingKey, u8>::new("c", Default::default());
    seen.insert(St::new(), init);
    let mut q: VecDeque<St> = VecDeque::from([St::new()]);
    while let Some(s) = q.pop_front() {
        let cur = seen[&s].clone();
        for &(a, l, h) in &advances {
            rep.transition();
            rep.eval();
            let mut c2 = cur.clone();
            c2.advance(authors[a as usize], l, h);
            // model: pointwise maximum
            let mut m = s.clone();
            let e = m.entry((a, l)).or_insert(h);
            if *e < h {
                *e = h;
            }
            // read the real cursor back
            let mut got = St::new();
            for (ak, logs) in c2.state() {
                let ai = authors.iter().position(|x| x == ak).unwrap() as u8;
                for (l, h) in logs {
                    got.insert((ai, *l), *h);
                }
            }
            if got != m {
                rep.violation(
                    if got.get(&(a, l)).copied() < s.get(&(a, l)).copied() { "advance/moved-backwards" } else { "advance/not-pointwise-max" },
                    format!("cursor {s:?} advance(author {a}, log {l}, height {h}) gives {got:?}, pointwise maximum is {m:?}"),
                    json!({"part": "advance", "state": format!("{s:?}"), "advance": [a, l, h]}),
                );
                continue;
            }
            if m != s {
                rep.nontrivial(&("advance", &s, a, l, h));
            }
            if !seen.contains_key(&m) {
                rep.state(&("advance", &m));
                seen.insert(m.clone(), c2);
                q.push_back(m);
            }
        }
    }
    rep.part(json!({"part": "advance", "states": seen.len(), "advances": advances.len()}));
}

fn header(author: &SigningKey, topic: Topic, seq: u32) -> Header {
    let mut h = Header {
        version: 1,
        verifying_key: author.verifying_key(),
        signature: None,
        payload_size: 0,
        payload_hash: None,
        seq_num: seq,
        backlink: if seq == 0 { None } else { Some(p2panda_core::Hash::digest([seq as u8])) },
        extensions: Extensions::from_topic(topic),
    };
    h.sign(author);
    h
}

async fn raw_cursor_rows(store: &SqliteStore) -> Vec<(String, Vec<u8>)> {
    sqlx::query_as("SELECT name, cursor FROM cursors_v1 ORDER BY name").fetch_all(store.pool()).await.expect("cursor rows")
}

fn part2(rep: &mut Report, rt: &tokio::runtime::Runtime) {
    let t_own = Topic::from([1u8; 32]);
    let t_other = Topic::from([2u8; 32]);
    let (ka, kb) = (key(0), key(1));
    mock_instant::thread_local::MockClock::set_system_time(std::time::Duration::from_secs(1_000));
    let universe: Vec<(String, Header, bool)> = vec![
        ("A/own/0".into(), header(&ka, t_own, 0), true),
        ("A/own/1".into(), header(&ka, t_own, 1), true),
        ("A/own/2".into(), header(&ka, t_own, 2), true),
        ("B/own/0".into(), header(&kb, t_own, 0), true),
        ("B/own/3".into(), header(&kb, t_own, 3), true),
        ("A/other/5".into(), header(&ka, t_other, 5), false),
        ("B/other/0".into(), header(&kb, t_other, 0), false),
    ];
    type St = BTreeMap<String, u32>; // author hex -> acked height (own log only)
    let store = rt.block_on(SqliteStore::temporary());
    let own_log = LogId::from_topic(t_own);
    let mut seen: HashMap<St, Vec<usize>> = HashMap::new();
    seen.insert(St::new(), vec![]);
    let mut q: VecDeque<St> = VecDeque::from([St::new()]);
    let mut transitions = 0u64;
    while let Some(s) = q.pop_front() {
        let path = seen[&s].clone();
        for (ui, (name, h, own)) in universe.iter().enumerate() {
            transitions += 1;
            rep.transition();
            rep.eval();
            let (res, before_rows, after_rows, cursor_after) = rt.block_on(async {
                sqlx::query("DELETE FROM cursors_v1").execute(store.pool()).await.expect("reset");
                let acked = Acked::new(store.clone(), t_own);
                for &p in &path {
                    let _ = acked.ack(&universe[p].1).await;
                }
                let before_rows = raw_cursor_rows(&store).await;
                let res = acked.ack(h).await.map_err(|e| e.to_string());
                let after_rows = raw_cursor_rows(&store).await;
                let c = acked.cursor().await.map_err(|e| e.to_string());
                (res, before_rows, after_rows, c)
            });
            let replay = json!({"part": "ack", "path": path.iter().map(|p| universe[*p].0.clone()).collect::<Vec<_>>(), "ack": name});
            if !own {
                match &res {
                    Err(e) if e.contains("different topic") => {}
                    other => rep.violation("ack/foreign-topic-accepted", format!("path {:?}: ack of {name} (other topic) returned {other:?}", replay["path"]), replay.clone()),
                }
                if before_rows != after_rows {
                    rep.violation("ack/foreign-topic-changed-cursor", format!("path {:?}: ack of {name} (other topic) changed the persisted cursor row", replay["path"]), replay.clone());
                }
                rep.nontrivial(&("foreign", &s, ui));
                continue;
            }
            if let Err(e) = &res {
                rep.violation("ack/own-topic-rejected", format!("path {:?}: ack of {name} failed: {e}", replay["path"]), replay.clone());
                continue;
            }
            let mut m = s.clone();
            let e = m.entry(h.verifying_key.to_hex()).or_insert(h.seq_num);
            if *e < h.seq_num {
                *e = h.seq_num;
            }
            let got: St = match cursor_after {
                Ok(c) => c.state().iter().filter_map(|(a, logs)| logs.get(&own_log).map(|h| (a.to_hex(), *h))).collect(),
                Err(e) => {
                    rep.violation("ack/cursor-unreadable", format!("{e}"), replay);
                    continue;
                }
            };
            if got != m {
                let back = s.iter().any(|(a, h)| got.get(a).is_none_or(|g| g < h));
                rep.violation(
                    if back { "ack/cursor-moved-backwards" } else { "ack/cursor-not-max" },
                    format!("path {:?} then ack {name}: persisted cursor {got:?}, expected pointwise maximum {m:?}", replay["path"]),
                    replay,
                );
                continue;
            }
            if m != s {
                rep.nontrivial(&("ack", &s, ui));
            }
            if rep.want_sample() && path.len() == 2 {
                rep.sample(json!({"acked_before": replay["path"], "ack": name, "persisted_cursor": format!("{got:?}")}));
            }
            if !seen.contains_key(&m) {
                rep.state(&("ack", &m));
                let mut p2 = path.clone();
                p2.push(ui);
                seen.insert(m.clone(), p2);
                q.push_back(m);
            }
        }
    }
    rep.part(json!({"part": "ack", "states": seen.len(), "transitions": transitions}));

    // Part 3: two concurrent acks on clones (shared semaphore), both spawn orders, every pair.
    let local = tokio::task::LocalSet::new();
    for i in 0..universe.len() {
        for j in 0..universe.len() {
            if !universe[i].2 || !universe[j].2 {
                continue;
            }
            for order in 0..2 {
                rep.eval();
                let (hi, hj) = (universe[i].1.clone(), universe[j].1.clone());
                let got = local.block_on(rt, async {
                    sqlx::query("DELETE FROM cursors_v1").execute(store.pool()).await.expect("reset");
                    let acked = Acked::new(store.clone(), t_own);
                    let (a1, a2) = (acked.clone(), acked.clone());
                    let (f1, f2) = (async move { a1.ack(&hi).await.map_err(|e| e.to_string()) }, async move { a2.ack(&hj).await.map_err(|e| e.to_string()) });
                    let (r1, r2) = if order == 0 {
                        let t1 = tokio::task::spawn_local(f1);
                        let t2 = tokio::task::spawn_local(f2);
                        (t1.await.unwrap(), t2.await.unwrap())
                    } else {
                        let t2 = tokio::task::spawn_local(f2);
                        let t1 = tokio::task::spawn_local(f1);
                        (t1.await.unwrap(), t2.await.unwrap())
                    };
                    let c = acked.cursor().await.map_err(|e| e.to_string());
                    (r1, r2, c)
                });
                let mut m = St::new();
                for h in [&universe[i].1, &universe[j].1] {
                    let e = m.entry(h.verifying_key.to_hex()).or_insert(h.seq_num);
                    if *e < h.seq_num {
                        *e = h.seq_num;
                    }
                }
                let replay = json!({"part": "concurrent-acks", "a": universe[i].0, "b": universe[j].0, "spawn_order": order});
                match got {
                    (Ok(()), Ok(()), Ok(c)) => {
                        let g: St = c.state().iter().filter_map(|(a, logs)| logs.get(&own_log).map(|h| (a.to_hex(), *h))).collect();
                        if g != m {
                            rep.violation("concurrent-acks/lost-update", format!("concurrent acks of {} and {} (spawn order {order}): cursor {g:?}, expected {m:?}", universe[i].0, universe[j].0), replay);
                        } else {
                            rep.nontrivial(&("concurrent", i, j, order));
                        }
                    }
                    other => rep.violation("concurrent-acks/failed", format!("{other:?}"), replay),
                }
            }
        }
    }
}

pub fn run(mut rep: Report) -> i32 {
    rep.rule = "part advance: BFS to fixpoint over cursor states with every advance(author in 2, log in 2, height 0..=3) in every state; part ack: BFS to fixpoint over persisted cursor states with every ack from a 7-header universe (two authors, own topic seqs {0,1,2}/{0,3}, two foreign-topic headers) in every state on real SQLite; part concurrent: every ordered pair of own-topic acks issued concurrently in both spawn orders; non-trivial = transition that changes the state, or a foreign-topic ack that must be rejected".into();
    part1(&mut rep);
    let rt = tokio::runtime::Builder::new_current_thread().enable_all().build().expect("rt");
    part2(&mut rep, &rt);
    rep.assume("replacing the cursor through nacked_log_ranges(StreamFrom::Start | Cursor(..)) is an explicit reset API and outside 'acknowledging never moves the cursor backwards'");
    rep.assume("concurrent acks are serialised by Acked's semaphore; interleavings inside one ack are not explored (one store call chain per ack)");
    rep.finish()
}
