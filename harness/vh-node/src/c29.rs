//! C29 Gossip overlay is left exactly when the last handle is gone.
//!
//! E-THREAD on a real `Gossip` (real address book, iroh endpoint and gossip manager actor, all
//! offline; the actor threads are *not* under the baton, their wake-ups are deferred until no
//! baton thread can run).  Scenario: `h0 = gossip.stream(T)`; then thread "streamer" calls
//! `gossip.stream(T)` while thread "dropper" drops `h0`.  Schedule points: tokio lock operations
//! (seam S2) plus the cfg hook points in `gossip/api.rs` (between the liveness check and the
//! reference increment, before the decrement, before sending `Unsubscribe`).  After both finished
//! and the manager's mailbox was drained (an `events()` RPC round trip), a handle returned to the
//! streamer must be backed by an active subscription (publishing on it succeeds), and the overlay
//! was left (`GossipEvent::Left`) exactly as often as the reference count went to zero.
use std::sync::{Arc, Mutex};
use std::time::Duration;

use explorer::thread::{run_threads_ext, ThreadCtx, ThreadEnd};
use explorer::{dfs, json, DfsCfg, Report};
use p2panda_core::Topic;
use p2panda_net::gossip::{Gossip, GossipEvent, GossipHandle};
use p2panda_net::{AddressBook, Endpoint};

#[derive(Clone, Copy, Debug, PartialEq, Eq, Hash)]
enum Variant {
    /// streamer keeps the handle it got
    KeepHandle,
    /// streamer drops its handle again (everything gone at the end)
    DropAgain,
    /// what is dropped concurrently is a subscription created from h0 (h0 itself dropped before)
    DropSubscription,
}

#[derive(Debug, Default, Clone)]
struct Obs {
    got_handle: bool,
    publish_ok: Option<bool>,
    left_events: usize,
    final_counter: Option<usize>,
    /// the manager's view after draining its mailbox: is our node registered for the topic?
    subscribed_view: Option<bool>,
    setup_error: Option<String>,
}

fn install_hooks(cx: &ThreadCtx) {
    let c = cx.clone();
    p2panda_net::verif::set_point_hook(Some(Box::new(move |l| c.point(l))));
}

fn execute(ch: &explorer::Chooser, rt: &tokio::runtime::Runtime, variant: Variant) -> (explorer::thread::ThreadRun, Obs) {
    let topic = Topic::from([9u8; 32]);
    let mut obs = Obs::default();
    let setup = rt.block_on(async {
        let address_book = AddressBook::builder().spawn().await.map_err(|e| e.to_string())?;
        let endpoint = Endpoint::builder(address_book.clone()).spawn().await.map_err(|e| e.to_string())?;
        let gossip = Gossip::builder(address_book.clone(), endpoint.clone()).spawn().await.map_err(|e| e.to_string())?;
        let events = gossip.events().await.map_err(|e| e.to_string())?;
        let h0 = gossip.stream(topic).await.map_err(|e| e.to_string())?;
        Ok::<_, String>((address_book, endpoint, gossip, events, h0))
    });
    let (address_book, endpoint, gossip, mut events, h0) = match setup {
        Ok(s) => s,
        Err(e) => {
            obs.setup_error = Some(e);
            return (explorer::thread::ThreadRun { end: ThreadEnd::Completed, points: 0, switches: 0, trace: vec![] }, obs);
        }
    };
    let to_drop: Box<dyn Send> = match variant {
        Variant::DropSubscription => {
            let sub = h0.subscribe();
            drop(h0);
            Box::new(sub)
        }
        _ => Box::new(h0),
    };
    let result: Arc<Mutex<Option<GossipHandle>>> = Arc::new(Mutex::new(None));
    let (g1, r1) = (gossip.clone(), result.clone());
    let handle_rt = rt.handle().clone();
    let handle_rt2 = rt.handle().clone();
    let bodies: Vec<(String, Box<dyn FnOnce(ThreadCtx) + Send>)> = vec![
        (
            "streamer".into(),
            Box::new(move |cx: ThreadCtx| {
                let _g = handle_rt.enter();
                install_hooks(&cx);
                let h = cx.block_on(async { g1.stream(topic).await });
                p2panda_net::verif::set_point_hook(None);
                match h {
                    Ok(h) => {
                        if variant == Variant::DropAgain {
                            install_hooks(&cx);
                            drop(h);
                            p2panda_net::verif::set_point_hook(None);
                        } else {
                            *r1.lock().unwrap() = Some(h);
                        }
                    }
                    Err(_) => {}
                }
            }),
        ),
        (
            "dropper".into(),
            Box::new(move |cx: ThreadCtx| {
                let _g = handle_rt2.enter();
                install_hooks(&cx);
                drop(to_drop);
                p2panda_net::verif::set_point_hook(None);
            }),
        ),
    ];
    let run = run_threads_ext(ch, 2_000, Some(Duration::from_secs(20)), bodies);
    // quiesce: the manager handles its mailbox in order, an RPC answered = everything before handled
    let h1 = result.lock().unwrap().take();
    obs.got_handle = h1.is_some();
    rt.block_on(async {
        let _ = tokio::time::timeout(Duration::from_secs(10), gossip.events()).await;
        // a session actor that was told to stop needs a moment to drop its end of the channel
        tokio::time::sleep(Duration::from_millis(150)).await;
        if let Some(h) = &h1 {
            obs.final_counter = Some(h.verif_counter());
            let r = tokio::time::timeout(Duration::from_secs(10), h.publish(b"still alive?".to_vec())).await;
            // a second round trip so that a closed session channel is noticed
            let _ = tokio::time::timeout(Duration::from_secs(10), gossip.events()).await;
            let r2 = tokio::time::timeout(Duration::from_secs(10), h.publish(b"still alive!".to_vec())).await;
            obs.publish_ok = Some(matches!(r, Ok(Ok(()))) && matches!(r2, Ok(Ok(()))));
        }
        // the manager registers / unregisters our node for the topic in the address book when it
        // joins / leaves the overlay: that is its view of "subscribed"
        let me = endpoint.node_id();
        if let Ok(Ok(infos)) = tokio::time::timeout(Duration::from_secs(10), address_book.node_infos_by_topics([topic])).await {
            use p2panda_store::address_book::NodeInfo as _;
            obs.subscribed_view = Some(infos.iter().any(|i| i.id() == me));
        }
        while let Ok(ev) = events.try_recv() {
            if matches!(ev, GossipEvent::Left { .. }) {
                obs.left_events += 1;
            }
        }
    });
    drop(h1);
    drop(gossip);
    (run, obs)
}

// ---------------------------------------------------------------------------------------------
// Sequential handle histories (join, leave, re-join, cancelled joins)
// ---------------------------------------------------------------------------------------------

#[derive(Clone, Copy, Debug, PartialEq, Eq, Hash)]
enum HAct {
    /// `gossip.stream(T)` awaited to completion; the handle is kept
    Stream,
    /// `gossip.stream(T)` polled until it has been pending `k` times (the actors get time to
    /// answer between polls), then the future is dropped; if it completes earlier the handle is kept
    CancelledStream(u8),
    /// drop the oldest / the newest live reference
    DropOldest,
    DropNewest,
    /// turn the newest handle into a subscription (the handle itself is dropped)
    NewestToSubscription,
}

impl HAct {
    fn name(&self) -> String {
        match self {
            HAct::Stream => "stream".into(),
            HAct::CancelledStream(k) => format!("stream-dropped-at-pending-poll-{k}"),
            HAct::DropOldest => "drop-oldest".into(),
            HAct::DropNewest => "drop-newest".into(),
            HAct::NewestToSubscription => "newest-handle-to-subscription".into(),
        }
    }
}

#[derive(Debug, Clone)]
struct HStep {
    act: String,
    live_before: usize,
    live_after: usize,
    /// the manager's view after the step settled
    subscribed: Option<bool>,
    left_events_total: usize,
    expected_left_total: usize,
    publish_ok: Option<bool>,
    stream_error: Option<String>,
}

enum Ref {
    Handle(GossipHandle),
    Sub(Box<dyn Send>),
}

/// One history on a fresh real Gossip.  The action at each step is chosen by `pick(live refs,
/// has handle)`; `None` ends the history.
fn run_history(rt: &tokio::runtime::Runtime, mut pick: impl FnMut(usize, bool) -> Option<HAct>) -> Result<Vec<HStep>, String> {
    use std::future::Future;
    use std::task::{Context, Poll};
    let topic = Topic::from([11u8; 32]);
    rt.block_on(async {
        let address_book = AddressBook::builder().spawn().await.map_err(|e| e.to_string())?;
        let endpoint = Endpoint::builder(address_book.clone()).spawn().await.map_err(|e| e.to_string())?;
        let gossip = Gossip::builder(address_book.clone(), endpoint.clone()).spawn().await.map_err(|e| e.to_string())?;
        let mut events = gossip.events().await.map_err(|e| e.to_string())?;
        let me = endpoint.node_id();
        let mut refs: Vec<Ref> = vec![];
        let mut steps = vec![];
        let mut left_total = 0usize;
        let mut expected_left = 0usize;
        // the overlay is joined while at least one reference is alive; a cancelled stream() may
        // have joined and must then leave again, which is a join + leave of its own
        loop {
            let has_handle = refs.iter().any(|r| matches!(r, Ref::Handle(_)));
            let Some(act) = pick(refs.len(), has_handle) else { break };
            let live_before = refs.len();
            let mut stream_error = None;
            match act {
                HAct::Stream => match gossip.stream(topic).await {
                    Ok(h) => refs.push(Ref::Handle(h)),
                    Err(e) => stream_error = Some(e.to_string()),
                },
                HAct::CancelledStream(k) => {
                    let mut fut = Box::pin(gossip.stream(topic));
                    let waker = futures_util::task::noop_waker();
                    let mut cx = Context::from_waker(&waker);
                    let mut pendings = 0u8;
                    let mut done = None;
                    for _ in 0..64 {
                        match fut.as_mut().poll(&mut cx) {
                            Poll::Ready(r) => {
                                done = Some(r);
                                break;
                            }
                            Poll::Pending => {
                                pendings += 1;
                                if pendings >= k {
                                    break;
                                }
                                // let the actors answer before the next poll
                                tokio::time::sleep(Duration::from_millis(60)).await;
                            }
                        }
                    }
                    match done {
                        Some(Ok(h)) => refs.push(Ref::Handle(h)),
                        Some(Err(e)) => stream_error = Some(e.to_string()),
                        None => drop(fut),
                    }
                }
                HAct::DropOldest => {
                    if !refs.is_empty() {
                        drop(refs.remove(0));
                    }
                }
                HAct::DropNewest => {
                    drop(refs.pop());
                }
                HAct::NewestToSubscription => {
                    if let Some(i) = refs.iter().rposition(|r| matches!(r, Ref::Handle(_))) {
                        if let Ref::Handle(h) = refs.remove(i) {
                            let sub = h.subscribe();
                            drop(h);
                            refs.push(Ref::Sub(Box::new(sub)));
                        }
                    }
                }
            }
            let live_after = refs.len();
            if live_before > 0 && live_after == 0 {
                expected_left += 1;
            }
            // settle: the manager handles its mailbox in order (an answered RPC = everything sent
            // before was handled); leaving and unregistering happen asynchronously afterwards, so
            // the expected view is awaited for a while before anything is judged
            let want = live_after > 0;
            let mut subscribed = None;
            let t0 = std::time::Instant::now();
            loop {
                let _ = tokio::time::timeout(Duration::from_secs(10), gossip.events()).await;
                tokio::time::sleep(Duration::from_millis(if want { 150 } else { 50 })).await;
                if let Ok(Ok(infos)) = tokio::time::timeout(Duration::from_secs(10), address_book.node_infos_by_topics([topic])).await {
                    use p2panda_store::address_book::NodeInfo as _;
                    subscribed = Some(infos.iter().any(|i| i.id() == me));
                }
                while let Ok(ev) = events.try_recv() {
                    if matches!(ev, GossipEvent::Left { .. }) {
                        left_total += 1;
                    }
                }
                if want || (subscribed == Some(false) && left_total >= expected_left) || t0.elapsed() > Duration::from_secs(6) {
                    break;
                }
            }
            let mut publish_ok = None;
            if let Some(Ref::Handle(h)) = refs.iter().rev().find(|r| matches!(r, Ref::Handle(_))) {
                let r = tokio::time::timeout(Duration::from_secs(10), h.publish(b"alive?".to_vec())).await;
                let _ = tokio::time::timeout(Duration::from_secs(10), gossip.events()).await;
                let r2 = tokio::time::timeout(Duration::from_secs(10), h.publish(b"alive!".to_vec())).await;
                publish_ok = Some(matches!(r, Ok(Ok(()))) && matches!(r2, Ok(Ok(()))));
            }
            steps.push(HStep { act: act.name(), live_before, live_after, subscribed, left_events_total: left_total, expected_left_total: expected_left, publish_ok, stream_error });
        }
        drop(refs);
        drop(gossip);
        Ok(steps)
    })
}

/// Every history of `depth` actions (pruned: drops only with a live reference, conversion only
/// with a live handle), each on a fresh Gossip, explored on `threads` workers.
fn histories(rep: &mut Report, depth: usize, cancel_polls: &[u8], threads: usize, wall: Duration) {
    let part = format!("handle-histories/depth<={depth}");
    let menu = |live: usize, has_handle: bool| -> Vec<HAct> {
        let mut v = vec![HAct::Stream];
        for k in cancel_polls {
            v.push(HAct::CancelledStream(*k));
        }
        if live > 0 {
            v.push(HAct::DropNewest);
        }
        if live > 1 {
            v.push(HAct::DropOldest);
        }
        if has_handle {
            v.push(HAct::NewestToSubscription);
        }
        v
    };
    let outs: Mutex<Vec<(Vec<u32>, Result<Vec<HStep>, String>)>> = Mutex::new(vec![]);
    let stats = explorer::dfs_par(
        &DfsCfg { max_dev: usize::MAX, wall, threads, ..Default::default() },
        |ch| {
            thread_local! {
                static RT: tokio::runtime::Runtime = tokio::runtime::Builder::new_multi_thread().worker_threads(2).enable_all().build().expect("runtime");
            }
            let mut n = 0usize;
            RT.with(|rt| {
                run_history(rt, |live, has_handle| {
                    if n >= depth {
                        return None;
                    }
                    n += 1;
                    let m = menu(live, has_handle);
                    Some(m[ch.choose_free(m.len(), "action")])
                })
            })
        },
        |ch, r| outs.lock().unwrap().push((ch.vector(), r)),
    );
    rep.absorb_dfs(&part, &stats, usize::MAX);
    let mut outs = outs.into_inner().unwrap();
    outs.sort_by(|a, b| a.0.cmp(&b.0));
    for (vector, r) in outs {
        let steps = match r {
            Ok(s) => s,
            Err(e) => {
                rep.machinery_error(format!("gossip setup failed: {e}"));
                continue;
            }
        };
        let names: Vec<&str> = steps.iter().map(|s| s.act.as_str()).collect();
        rep.state(&("history", &names));
        let replay = json!({"part": part, "vector": vector, "actions": names});
        let rejoin = steps.iter().enumerate().any(|(i, s)| s.live_before == 0 && s.live_after > 0 && steps[..i].iter().any(|p| p.live_before > 0 && p.live_after == 0));
        let cancelled = steps.iter().any(|s| s.act.starts_with("stream-dropped") && s.live_after == s.live_before);
        if rejoin || cancelled {
            rep.nontrivial(&("history", &names));
        }
        for (i, s) in steps.iter().enumerate() {
            rep.transitions += 1;
            rep.outcome(&("history-step", s.live_after > 0, s.subscribed, s.publish_ok, s.left_events_total == s.expected_left_total));
            let hist = names[..=i].join(", ");
            if let Some(e) = &s.stream_error {
                rep.violation("history/stream-failed", format!("history [{hist}]: stream() returned an error: {e}"), replay.clone());
                break;
            }
            if s.subscribed.is_none() {
                rep.machinery_error("address book did not answer".into());
                break;
            }
            if s.live_after > 0 && (s.subscribed == Some(false) || s.publish_ok == Some(false)) {
                let class = if rejoin { "after-rejoin" } else { "first-lifetime" };
                rep.violation(
                    format!("left-while-handle-alive/history/{class}"),
                    format!("history [{hist}]: {} reference(s) alive, but the overlay has been left: manager's view subscribed={:?}, publish ok {:?}, Left events so far {}", s.live_after, s.subscribed, s.publish_ok, s.left_events_total),
                    replay.clone(),
                );
                break;
            }
            if s.live_after == 0 && s.subscribed == Some(true) {
                let class = if s.act.starts_with("stream-dropped") { "after-cancelled-stream" } else { "after-last-drop" };
                rep.violation(
                    format!("overlay-not-left/history/{class}"),
                    format!("history [{hist}]: no handle or subscription is alive, but the node is still registered for the topic 6 s later (Left events so far {})", s.left_events_total),
                    replay.clone(),
                );
                break;
            }
            if s.live_after > 0 && s.left_events_total > s.expected_left_total + steps[..=i].iter().filter(|p| p.act.starts_with("stream-dropped") && p.live_after == p.live_before).count() {
                rep.violation(
                    "left-more-often-than-last-reference-dropped/history".to_string(),
                    format!("history [{hist}]: {} Left events although the last reference went away only {} time(s)", s.left_events_total, s.expected_left_total),
                    replay.clone(),
                );
                break;
            }
        }
        if rep.want_sample() && rejoin {
            rep.sample(json!({"history": names, "subscribed_after_each_step": steps.iter().map(|s| s.subscribed).collect::<Vec<_>>(), "left_events": steps.last().map(|s| s.left_events_total)}));
        }
    }
}

pub fn run(mut rep: Report) -> i32 {
    let thorough = rep.thorough();
    let bound = if thorough { 3 } else { 2 };
    rep.rule = format!("real Gossip with a live handle h0 on topic T; thread 'streamer' runs stream(T) (variants: keeps the handle / drops it again) while thread 'dropper' drops h0 (or a subscription made from it); every interleaving of their schedule points (tokio lock operations and the three hook points of gossip/api.rs) with at most {bound} preemptions; oracle after draining the manager: a kept handle publishes successfully, and Left events match the number of times the last reference went away; non-trivial = execution with at least one preemption.  Part handle-histories: every sequence of up to {} actions from {{stream, stream() dropped at its k-th pending poll, drop oldest, drop newest, newest handle -> subscription}} on a fresh Gossip (join, leave, re-join, several handles in a second lifetime, cancelled joins); after every action the manager's registration of the node for the topic must equal 'a reference is alive' (awaited for up to 6 s when it has to go away)", if thorough { 5 } else { 4 });
    let rt = match tokio::runtime::Builder::new_multi_thread().worker_threads(2).enable_all().build() {
        Ok(rt) => rt,
        Err(e) => {
            rep.machinery_error(format!("runtime: {e}"));
            return rep.finish();
        }
    };
    let variants: &[Variant] = if thorough { &[Variant::KeepHandle, Variant::DropAgain, Variant::DropSubscription] } else { &[Variant::KeepHandle, Variant::DropAgain] };
    let mut retries = 0u64;
    for &variant in variants {
        for b in 0..=bound {
            let before = rep.violation_count();
            let mut outs = vec![];
            let stats = dfs(
                &DfsCfg { max_dev: b, wall: Duration::from_secs(if thorough { 900 } else { 120 }), ..Default::default() },
                |ch| {
                    // The actor threads are outside the scheduler: when the machine is so loaded
                    // that an actor misses the idle window, the run cannot follow its recorded
                    // prefix.  Such a run is repeated (never judged); only a prefix that cannot be
                    // followed three times in a row is a machinery error.
                    let mut r = execute(ch, &rt, variant);
                    for _ in 0..3 {
                        if !ch.off_prefix() {
                            break;
                        }
                        retries += 1;
                        ch.reset();
                        r = execute(ch, &rt, variant);
                    }
                    r
                },
                |ch, r| outs.push((ch.vector(), ch.deviations(), r)),
            );
            rep.absorb_dfs(&format!("{variant:?}/preemptions<={b}"), &stats, b);
            for (vector, devs, (run, obs)) in outs {
                if devs < b {
                    continue;
                }
                let replay = json!({"part": format!("{variant:?}"), "vector": vector, "schedule": run.trace});
                rep.state(&(variant, &run.trace));
                if let Some(e) = &obs.setup_error {
                    rep.machinery_error(format!("gossip setup failed: {e}"));
                    continue;
                }
                match &run.end {
                    ThreadEnd::Completed => {}
                    ThreadEnd::Deadlock(who) => {
                        rep.violation("deadlock", format!("{variant:?}: threads {who:?} never finished; schedule {:?}", run.trace), replay.clone());
                        continue;
                    }
                    other => {
                        rep.violation("abnormal-end", format!("{variant:?}: {other:?}; schedule {:?}", run.trace), replay.clone());
                        continue;
                    }
                }
                rep.outcome(&(variant, obs.got_handle, obs.publish_ok, obs.left_events, obs.subscribed_view));
                if std::env::var("C29_DEBUG").is_ok() {
                    println!("{variant:?} devs={devs} obs={obs:?} schedule={:?}", run.trace);
                }
                if devs > 0 {
                    rep.nontrivial(&(variant, &run.trace));
                }
                match variant {
                    Variant::KeepHandle | Variant::DropSubscription => {
                        if !obs.got_handle {
                            rep.violation("stream-failed", format!("{variant:?}: stream() returned an error; schedule {:?}", run.trace), replay.clone());
                        } else if obs.subscribed_view == Some(false) || obs.publish_ok == Some(false) {
                            let via_clone = !run.trace.iter().any(|l| l.starts_with("streamer:parks"));
                            rep.violation(
                                format!("left-while-handle-alive/{}", if via_clone { "guard-cloned-after-last-drop" } else { "fresh-subscription-cancelled-by-late-unsubscribe" }),
                                format!("{variant:?}: stream() returned a handle (reference count {:?}) while the last other handle was being dropped, but the overlay has been left: manager's view subscribed={:?}, Left events {}, publish ok {:?}; schedule {:?}", obs.final_counter, obs.subscribed_view, obs.left_events, obs.publish_ok, run.trace),
                                replay.clone(),
                            );
                        } else if obs.subscribed_view.is_none() {
                            rep.machinery_error("address book did not answer".into());
                        } else if rep.want_sample() && devs > 0 {
                            rep.sample(json!({"variant": format!("{variant:?}"), "schedule": run.trace, "left_events": obs.left_events, "subscribed": obs.subscribed_view}));
                        }
                    }
                    Variant::DropAgain => {
                        // everything is gone at the end: the overlay must have been left
                        if obs.subscribed_view == Some(true) || obs.left_events == 0 {
                            rep.violation("overlay-not-left", format!("DropAgain: all handles dropped but the node is still registered for the topic (subscribed={:?}, Left events {}); schedule {:?}", obs.subscribed_view, obs.left_events, run.trace), replay.clone());
                        }
                    }
                }
            }
            if rep.violation_count() > before {
                break;
            }
        }
    }
    // sequential histories on a fresh Gossip each: join, leave, re-join, cancelled joins
    let (depth, polls): (usize, &[u8]) = if thorough { (5, &[1, 2, 3]) } else { (4, &[2]) };
    let hist_threads = rep.args.threads.clamp(1, 8);
    histories(&mut rep, depth, polls, hist_threads, Duration::from_secs(if thorough { 900 } else { 100 }));
    rep.set("preemption_bound", json!(bound));
    rep.set("runs_repeated_because_an_actor_missed_the_idle_window", json!(retries));
    rep.assume("actor threads (gossip manager, sessions, endpoint) are not scheduled by the explorer; their wake-ups only take effect when no explored thread can run, and the verdict is read after an RPC round trip that drains the manager's mailbox");
    rep.assume("harness time-outs (20 s without any wake-up) are reported as deadlock of the explored threads");
    rep.finish()
}
