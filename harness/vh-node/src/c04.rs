//! C04 Pruning is authenticated and scoped to the prune operation's own log.
//!
//! E-DFS over short sequences of attacker/honest inputs fed to the node's *real* stream entry point
//! `streams::stream::process_operation` (the function every operation from a sync session, an
//! import or a replay goes through; hook `p2panda::streams::verif::process_operation`) in front of
//! the real processing `Pipeline` (ingest + log prune, own thread).  The store is a real `SqliteStore`.  After every input the set of stored
//! (author, log, seq) entries may change only by the insertion of that (accepted) operation and by
//! the deletion of the strictly smaller entries of its own (author, log) if it is an accepted
//! prune-flagged operation; a failed input changes nothing.
use std::collections::BTreeSet;

use explorer::{json, Chooser, DfsCfg, Report};
use p2panda::operation::{Extensions, LogId, Operation};
use p2panda::node::AckPolicy;
use p2panda::processor::verif::{Pipeline, TaskTracker};
use p2panda::streams::verif::{process_operation, Acked};
use p2panda::streams::{Source, StreamEvent};
use p2panda_core::{Body, Hash, SigningKey, Topic, VerifyingKey};
use p2panda_store::logs::LogStore;
use p2panda_store::SqliteStore;

fn key(i: u8) -> SigningKey {
    SigningKey::from_bytes(&[i + 1; 32])
}

fn make(k: &SigningKey, claimed: VerifyingKey, topic: Topic, seq: u32, backlink: Option<Hash>, prune: bool, body: &[u8]) -> Operation {
    let body = Body::new(body);
    let mut header = p2panda::operation::Header {
        version: 1,
        verifying_key: k.verifying_key(),
        signature: None,
        payload_size: body.size(),
        payload_hash: Some(body.hash()),
        seq_num: seq,
        backlink,
        extensions: Extensions::from_topic(topic).set_prune_flag(prune),
    };
    header.sign(k);
    // a forger claims somebody else's key but can only sign with its own
    header.verifying_key = claimed;
    Operation { hash: header.hash(), header, body: Some(body) }
}

#[derive(Clone)]
struct Input {
    name: String,
    op: Operation,
    /// topic of the stream the operation arrives on
    topic: Topic,
}

type Entry = (String, u8, u32, String); // author tag, topic tag, seq, first 8 hex digits of the operation id

async fn snapshot(store: &SqliteStore, authors: &[(String, VerifyingKey)], topics: &[(u8, Topic)]) -> BTreeSet<Entry> {
    let mut s = BTreeSet::new();
    for (an, a) in authors {
        for (tn, t) in topics {
            let r = <SqliteStore as LogStore<Operation, VerifyingKey, LogId, u32, Hash>>::get_log_entries(store, a, &LogId::from_topic(*t), None, None)
                .await
                .expect("read log");
            for (op, _) in r.unwrap_or_default() {
                s.insert((an.clone(), *tn, op.header.seq_num, op.hash.to_hex()[..8].to_string()));
            }
        }
    }
    s
}

struct World {
    setup: Vec<Input>,
    menu: Vec<Input>,
    authors: Vec<(String, VerifyingKey)>,
    topics: Vec<(u8, Topic)>,
}

fn world(thorough: bool) -> World {
    let (v, x) = (key(0), key(1));
    let (t1, t2) = (Topic::from([1u8; 32]), Topic::from([2u8; 32]));
    mock_instant::thread_local::MockClock::set_system_time(std::time::Duration::from_secs(1_000));
    // victim: 3 operations in topic 1, 2 in topic 2; attacker: 2 operations of its own in topic 1
    let mut setup = vec![];
    let mut prev = None;
    let mut v_t1 = vec![];
    for s in 0..3 {
        let op = make(&v, v.verifying_key(), t1, s, prev, false, format!("v-t1-{s}").as_bytes());
        prev = Some(op.hash);
        v_t1.push(op.clone());
        setup.push(Input { name: format!("V/t1/{s}"), op, topic: t1 });
    }
    let mut prev2 = None;
    for s in 0..2 {
        let op = make(&v, v.verifying_key(), t2, s, prev2, false, format!("v-t2-{s}").as_bytes());
        prev2 = Some(op.hash);
        setup.push(Input { name: format!("V/t2/{s}"), op, topic: t2 });
    }
    let mut prevx = None;
    let mut x_t1 = vec![];
    for s in 0..2 {
        let op = make(&x, x.verifying_key(), t1, s, prevx, false, format!("x-t1-{s}").as_bytes());
        prevx = Some(op.hash);
        x_t1.push(op.clone());
        setup.push(Input { name: format!("X/t1/{s}"), op, topic: t1 });
    }
    let mut menu = vec![];
    let seqs: Vec<u32> = if thorough { vec![1, 2, 3, 10] } else { vec![2, 10] };
    for &s in &seqs {
        // forged: claims V's key, signed by X, prune flag set
        menu.push(Input { name: format!("forged(claims V, signed by X)/t1/prune@{s}"), op: make(&x, v.verifying_key(), t1, s, Some(Hash::digest(b"any")), true, b"forged"), topic: t1 });
        // forged for the other topic's log
        menu.push(Input { name: format!("forged(claims V, signed by X)/t2/prune@{s}"), op: make(&x, v.verifying_key(), t2, s, Some(Hash::digest(b"any")), true, b"forged2"), topic: t2 });
        // garbage signature: a valid V signature of a *different* header
        let mut stolen = make(&v, v.verifying_key(), t1, s, Some(Hash::digest(b"any")), true, b"stolen-sig");
        stolen.header.signature = v_t1[0].header.signature;
        stolen.hash = stolen.header.hash();
        menu.push(Input { name: format!("forged(V's signature of another op)/t1/prune@{s}"), op: stolen, topic: t1 });
    }
    // attacker's own, perfectly valid prune op: may only prune the attacker's log
    menu.push(Input { name: "X-valid/t1/prune@2".into(), op: make(&x, x.verifying_key(), t1, 2, Some(x_t1[1].hash), true, b"x-prune"), topic: t1 });
    // V's honest prune op
    let honest = make(&v, v.verifying_key(), t1, 3, Some(v_t1[2].hash), true, b"v-prune");
    menu.push(Input { name: "V-valid/t1/prune@3".into(), op: honest.clone(), topic: t1 });
    // V's valid non-prune successor
    menu.push(Input { name: "V-valid/t1/3-noprune".into(), op: make(&v, v.verifying_key(), t1, 3, Some(v_t1[2].hash), false, b"v-next"), topic: t1 });
    // a valid V operation of topic 1 arriving on topic 2's stream (the pipeline derives the log from the stream)
    menu.push(Input { name: "V-valid/t1-op-on-t2-stream/prune@3".into(), op: honest, topic: t2 });
    // a prune-flagged first operation of a fresh log: nothing is smaller, nothing may be deleted
    let t3 = Topic::from([3u8; 32]);
    menu.push(Input { name: "V-valid/t3/prune@0".into(), op: make(&v, v.verifying_key(), t3, 0, None, true, b"v-t3-0"), topic: t3 });
    World {
        setup,
        menu,
        authors: vec![("V".into(), v.verifying_key()), ("X".into(), x.verifying_key())],
        topics: vec![(1, t1), (2, t2), (3, t3)],
    }
}

#[derive(Debug)]
struct StepObs {
    input: String,
    failed: bool,
    before: BTreeSet<Entry>,
    after: BTreeSet<Entry>,
    author: String,
    topic_tag: u8,
    own_log_tag: u8,
    seq: u32,
    id8: String,
    prune: bool,
}

/// Feed one operation the way a sync session / import / replay feeds it: through the stream's
/// `process_operation` (system-level processing in the real Pipeline, ack, decoding).
async fn feed(pipeline: &Pipeline<LogId, Extensions, Topic>, store: &SqliteStore, i: &Input, source_kind: usize) -> Result<bool, String> {
    let source = match source_kind {
        0 => Source::ExternalStream { session_id: 1 },
        1 => Source::SyncSession {
            remote_node_id: key(5).verifying_key(),
            session_id: 2,
            sent_operations: 0,
            received_operations: 1,
            sent_bytes: 0,
            received_bytes: 1,
            sent_bytes_topic_total: 0,
            received_bytes_topic_total: 1,
            phase: p2panda::streams::SessionPhase::Sync,
        },
        _ => Source::LocalStore,
    };
    let acked = Acked::new(store.clone(), i.topic);
    let r = tokio::time::timeout(
        std::time::Duration::from_secs(30),
        process_operation::<Vec<u8>>(i.op.clone(), i.topic, pipeline, AckPolicy::Explicit, &acked, source),
    )
    .await
    .map_err(|_| format!("pipeline did not answer for input {}", i.name))?;
    Ok(matches!(r, Some(StreamEvent::ProcessingFailed { .. })))
}

thread_local! {
    static RT: tokio::runtime::Runtime = tokio::runtime::Builder::new_current_thread().enable_all().build().expect("rt");
    /// One store + pipeline per worker thread, emptied before every execution: a `Pipeline` owns a
    /// thread with its own runtime that never ends (processor streams never terminate), so a fresh
    /// pipeline per execution exhausts file descriptors after some thousand executions.
    static WORLD: std::cell::RefCell<Option<std::mem::ManuallyDrop<(SqliteStore, Pipeline<LogId, Extensions, Topic>)>>> = const { std::cell::RefCell::new(None) };
}

fn execute(ch: &Chooser, w: &World, depth: usize, per_input_upto: usize) -> Result<Vec<StepObs>, String> {
    mock_instant::thread_local::MockClock::set_system_time(std::time::Duration::from_secs(1_000));
    RT.with(|rt| execute_on(ch, w, depth, per_input_upto, rt))
}

fn execute_on(ch: &Chooser, w: &World, depth: usize, per_input_upto: usize, rt: &tokio::runtime::Runtime) -> Result<Vec<StepObs>, String> {
    rt.block_on(async {
        let cached = WORLD.with(|c| c.borrow_mut().take());
        // (never dropped at thread exit: sqlx must not be torn down outside a runtime)
        let (store, pipeline) = match cached.map(std::mem::ManuallyDrop::into_inner) {
            Some(sp) => sp,
            None => {
                let store = SqliteStore::temporary().await;
                let pipeline = Pipeline::<LogId, Extensions, Topic>::new(store.clone(), TaskTracker::new());
                (store, pipeline)
            }
        };
        for t in ["operations_v1", "topics_v1", "cursors_v1"] {
            sqlx::query(&format!("DELETE FROM {t}")).execute(store.pool()).await.map_err(|e| format!("cannot empty {t}: {e}"))?;
        }
        let r = execute_in(ch, w, depth, per_input_upto, &store, &pipeline).await;
        if r.is_ok() {
            // only a world that went through an execution without trouble is used again
            WORLD.with(|c| *c.borrow_mut() = Some(std::mem::ManuallyDrop::new((store, pipeline))));
        }
        r
    })
}

async fn execute_in(ch: &Chooser, w: &World, depth: usize, per_input_upto: usize, store: &SqliteStore, pipeline: &Pipeline<LogId, Extensions, Topic>) -> Result<Vec<StepObs>, String> {
    {
        for i in &w.setup {
            if feed(&pipeline, &store, i, 0).await? {
                return Err(format!("setup operation {} failed", i.name));
            }
        }
        let mut out = vec![];
        let len = 1 + ch.choose_free(depth, "length");
        // sequences of up to `per_input_upto` inputs choose the entry point per input, longer ones
        // arrive through one entry point (chosen per sequence)
        let fixed_source = if len > per_input_upto { Some(ch.choose_free(3, "source-of-sequence")) } else { None };
        for _ in 0..len {
            let i = &w.menu[ch.choose_free(w.menu.len(), "input")];
            let before = snapshot(&store, &w.authors, &w.topics).await;
            // entry point the operation arrives through: import, sync session, replay from the local store
            let source_kind = match fixed_source {
                Some(k) => k,
                None => ch.choose_free(3, "source"),
            };
            let failed = feed(&pipeline, &store, i, source_kind).await?;
            let after = snapshot(&store, &w.authors, &w.topics).await;
            let author = w.authors.iter().find(|(_, k)| *k == i.op.header.verifying_key).map(|(n, _)| n.clone()).unwrap_or("?".into());
            let topic_tag = w.topics.iter().find(|(_, t)| *t == i.topic).map(|(n, _)| *n).unwrap();
            // the log the operation itself claims to belong to (header extension)
            let own_log_tag = w.topics.iter().find(|(_, t)| LogId::from_topic(*t) == i.op.header.extensions.log_id()).map(|(n, _)| *n).unwrap_or(0);
            out.push(StepObs { own_log_tag, input: format!("{}@{}", i.name, ["import", "sync", "replay"][source_kind]), failed, before, after, author, topic_tag, seq: i.op.header.seq_num, id8: i.op.hash.to_hex()[..8].to_string(), prune: *i.op.header.extensions.prune_flag() });
        }
        Ok(out)
    }
}

pub fn run(mut rep: Report) -> i32 {
    let thorough = rep.thorough();
    let depth = if thorough { 3 } else { 2 };
    let per_input_upto = if thorough { 2 } else { 1 };
    let w = world(thorough);
    rep.rule = format!("after a fixed honest setup (victim V: 3 ops in topic 1, 2 ops in topic 2; attacker X: 2 ops in topic 1) every sequence of 1..={depth} inputs (each through one of three entry points: import, sync session, replay; chosen per input in sequences of up to {per_input_upto}, per sequence in longer ones) from a menu of {} (forged prune-flagged operations claiming V's key at several seqs and for both topics, signed by X or carrying a stolen signature; X's own valid prune op; V's honest prune op; V's valid non-prune successor; a valid op arriving on the other topic's stream) goes through the real Pipeline (ingest + log prune) on SqliteStore; non-trivial = sequence containing a failed input and an accepted prune", w.menu.len());
    let mut all: Vec<(Vec<u32>, Result<Vec<StepObs>, String>)> = vec![];
    let stats = explorer::dfs_par(
        &DfsCfg { wall: std::time::Duration::from_secs(if thorough { 1500 } else { 120 }), threads: if thorough { 12 } else { 4 }, ..Default::default() },
        |ch| execute(ch, &w, depth, per_input_upto),
        |ch, r| all.push((ch.vector(), r)),
    );
    rep.absorb_dfs("pipeline", &stats, usize::MAX);
    for (vector, r) in all {
        let steps = match r {
            Ok(s) => s,
            Err(e) => {
                rep.machinery_error(e);
                continue;
            }
        };
        let names: Vec<String> = steps.iter().map(|s| s.input.clone()).collect();
        rep.state(&names);
        let mut saw_fail = false;
        let mut saw_prune = false;
        for (si, s) in steps.iter().enumerate() {
            let replay = json!({"part": "pipeline", "vector": vector, "inputs": names, "step": si});
            let removed: BTreeSet<&Entry> = s.before.difference(&s.after).collect();
            let added: BTreeSet<&Entry> = s.after.difference(&s.before).collect();
            if s.failed {
                saw_fail = true;
                if !removed.is_empty() {
                    let foreign = removed.iter().any(|e| e.0 == "V") && s.input.starts_with("forged");
                    rep.violation(
                        format!("failed-input-deleted-entries/{}", if foreign { "forged-prune-deletes-victims-log" } else { "other" }),
                        format!("inputs {names:?}: step {si} ({}) FAILED processing but deleted {removed:?}", s.input),
                        replay.clone(),
                    );
                }
                if !added.is_empty() {
                    rep.violation("failed-input-stored", format!("inputs {names:?}: step {si} ({}) failed but {added:?} was stored", s.input), replay.clone());
                }
                continue;
            }
            // accepted (new or duplicate)
            let me: Entry = (s.author.clone(), s.topic_tag, s.seq, s.id8.clone());
            let allowed_removed: BTreeSet<Entry> = if s.prune { s.before.iter().filter(|e| e.0 == s.author && e.1 == s.own_log_tag && e.2 < s.seq).cloned().collect() } else { BTreeSet::new() };
            if s.prune {
                saw_prune = true;
            }
            for r in &removed {
                if !allowed_removed.contains(*r) {
                    rep.violation(
                        if s.own_log_tag != s.topic_tag { "accepted-input-deleted-foreign-entries/valid-prune-op-replayed-on-another-topics-stream" } else { "accepted-input-deleted-foreign-entries" },
                        format!("inputs {names:?}: step {si} ({}) was accepted and deleted {r:?}, which is not a smaller entry of its own (author, log)", s.input),
                        replay.clone(),
                    );
                }
            }
            if s.prune && s.own_log_tag == s.topic_tag {
                for e in &allowed_removed {
                    if s.after.contains(e) {
                        rep.violation("prune-incomplete", format!("inputs {names:?}: step {si} ({}) accepted but {e:?} (smaller seq of the same log) is still stored", s.input), replay.clone());
                    }
                }
            }
            if s.own_log_tag == s.topic_tag && !s.before.contains(&me) && !s.after.contains(&me) {
                rep.violation("accepted-but-not-stored", format!("inputs {names:?}: step {si} ({}) was accepted but is not stored afterwards", s.input), replay.clone());
            }
            for a in &added {
                if **a != me {
                    rep.violation("accepted-input-stored-something-else", format!("inputs {names:?}: step {si} ({}) stored {a:?}", s.input), replay.clone());
                }
            }
        }
        if saw_fail && saw_prune {
            rep.nontrivial(&names);
            if rep.want_sample() {
                rep.sample(json!({"inputs": names, "stored_after": format!("{:?}", steps.last().map(|s| &s.after))}));
            }
        }
        rep.outcome(&steps.iter().map(|s| (s.failed, s.after.len())).collect::<Vec<_>>());
    }
    rep.assume("events are built as streams::stream builds them (log id from the stream's topic, prune flag from the header); the sync, import, publish and replay entry points all funnel into Pipeline::process");
    rep.finish()
}
