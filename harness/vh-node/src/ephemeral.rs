//! C16 / C17: ephemeral streams on a real node.
//!
//! A real `p2panda::Node` is spawned (offline, loopback); `node.ephemeral_stream::<String>(topic)`
//! yields the real publisher and the real `EphemeralStreamSubscription` backed by a real
//! `GossipSubscription`.  Through the hooks `EphemeralStreamPublisher::verif_gossip_handle()` and
//! `GossipHandle::verif_from_gossip_tx()` the harness owns what arrives on the subscription's
//! broadcast channel: it injects raw byte strings and polls the subscription by hand with a
//! counting waker (the subscription is a plain `Stream`; no network traffic is involved).
//! Published bytes are observed through the `streams::verif::take_published()` tap.
use std::sync::Arc;
use std::task::Poll;

use explorer::task::{poll_once, Flag};
use explorer::{json, Report};
use mock_instant::thread_local::MockClock;
use p2panda::streams::{EphemeralStreamPublisher, EphemeralStreamSubscription};
use p2panda_core::cbor::{decode_cbor, encode_cbor};
use p2panda_core::timestamp::{LamportTimestamp, Timestamp};
use p2panda_core::{Signature, SigningKey, Topic, VerifyingKey};
use tokio::sync::broadcast;

type Wire = (u64, VerifyingKey, Signature, Timestamp, LamportTimestamp, String);

struct Rig {
    rt: tokio::runtime::Runtime,
    _node: p2panda::Node,
    publisher: EphemeralStreamPublisher<String>,
    key: SigningKey,
}

fn rig() -> Result<Rig, String> {
    let rt = tokio::runtime::Builder::new_multi_thread().worker_threads(2).enable_all().build().map_err(|e| e.to_string())?;
    let key = SigningKey::from_bytes(&[21; 32]);
    let k2 = key.clone();
    let (node, publisher) = rt.block_on(async move {
        let node = tokio::time::timeout(std::time::Duration::from_secs(60), p2panda::Node::builder().signing_key(k2).spawn())
            .await
            .map_err(|_| "node spawn timed out".to_string())?
            .map_err(|e| format!("node spawn: {e}"))?;
        let (publisher, _sub) = node.ephemeral_stream::<String>(Topic::from([7u8; 32])).await.map_err(|e| e.to_string())?;
        Ok::<_, String>((node, publisher))
    })?;
    Ok(Rig { rt, _node: node, publisher, key })
}

impl Rig {
    /// A fresh subscription (own broadcast receiver) plus the sender feeding it.
    fn subscription(&self) -> (EphemeralStreamSubscription<String>, broadcast::Sender<Vec<u8>>) {
        let handle = self.publisher.verif_gossip_handle().clone();
        let tx = handle.verif_from_gossip_tx();
        // a second ephemeral stream on the same topic shares the handle's channel
        let (_p, sub) = self.rt.block_on(async { self._node.ephemeral_stream::<String>(Topic::from([7u8; 32])).await }).expect("second stream");
        (sub, tx)
    }

    /// Publish through the real publisher under a given wall-clock reading and return the bytes.
    fn publish(&self, clock_micros: u64, body: &str) -> Result<Vec<u8>, String> {
        MockClock::set_system_time(std::time::Duration::from_micros(clock_micros));
        let _ = p2panda::streams::verif::take_published();
        let publisher = self.publisher.clone();
        let body = body.to_string();
        // the timestamp is taken on the calling thread (before the first await): drive the future here
        let fut = publisher.publish(body);
        let mut fut = std::pin::pin!(fut);
        let flag = Flag::new(true);
        let _guard = self.rt.enter();
        let first = poll_once(fut.as_mut(), &flag);
        let mut v = p2panda::streams::verif::take_published();
        if first.is_pending() {
            // complete the send in the background-capable runtime
            let _ = self.rt.block_on(async { tokio::time::timeout(std::time::Duration::from_secs(5), fut).await });
        }
        v.pop().ok_or_else(|| "publish did not reach the tap".to_string())
    }
}

fn sign_wire(k: &SigningKey, claimed: VerifyingKey, version: u64, ts: u64, logical: u64, body: &str) -> Vec<u8> {
    let unsigned = encode_cbor(&(version, claimed, Timestamp::new(ts), LamportTimestamp::new(logical), body.to_string())).unwrap();
    let sig = k.sign(&unsigned);
    encode_cbor(&(version, claimed, sig, Timestamp::new(ts), LamportTimestamp::new(logical), body.to_string())).unwrap()
}

fn poll_stream<S: futures_util::Stream>(s: std::pin::Pin<&mut S>, flag: &Arc<Flag>) -> Poll<Option<S::Item>> {
    flag.clear();
    let waker = std::task::Waker::from(flag.clone());
    let mut cx = std::task::Context::from_waker(&waker);
    s.poll_next(&mut cx)
}

/// Feed `items` and drain the subscription the way a consumer task would: poll again after every
/// yielded item, but after a `Pending` only once the waker fired.  Returns what was yielded, the
/// number of polls, and whether the poll budget was exceeded (self-waking spin).
fn feed_and_drain(sub: EphemeralStreamSubscription<String>, tx: &broadcast::Sender<Vec<u8>>, items: &[Vec<u8>]) -> (Vec<(VerifyingKey, u64, String)>, u64, bool) {
    let mut sub = Box::pin(sub);
    let flag: Arc<Flag> = Flag::new(true);
    let mut out = vec![];
    let mut polls = 0u64;
    for it in items {
        let _ = tx.send(it.clone());
    }
    let mut must_poll = true;
    loop {
        if !must_poll && !flag.is_woken() {
            // parked: nothing will ever poll it again unless something new is sent
            return (out, polls, false);
        }
        polls += 1;
        if polls > 10_000 {
            return (out, polls, true);
        }
        match poll_stream(sub.as_mut(), &flag) {
            Poll::Ready(Some(m)) => {
                out.push((m.author(), m.timestamp(), m.body().clone()));
                must_poll = true;
            }
            Poll::Ready(None) => return (out, polls, false),
            Poll::Pending => must_poll = false,
        }
    }
}

// ---------------------------------------------------------------------------------------------
// C16
// ---------------------------------------------------------------------------------------------

pub fn run_c16(mut rep: Report) -> i32 {
    let thorough = rep.thorough();
    rep.rule = "part a: a valid wrapped message (from the real publisher) and every single-bit flip (bits 0 and 7; all 8 thorough) of its encoding, every field substitution (version, author key, timestamp +-1, logical +-1, body edit) with the original signature, and the same substitutions re-signed by a foreign key while claiming the original author, injected one by one into a real subscription: only messages whose signature verifies under the reported author over (version, timestamp, logical, body) may be yielded; part b: every sequence of wall-clock readings of length <= 4 (5) over {t-1, t, t+1}, one publish per reading on the real publisher: timestamps strictly increase and encodings are pairwise distinct; part c: two publishes of one publisher in flight on two threads (same body, clock standing still), every interleaving of their tokio synchronisation operations within 2 (3) preemptions: the two messages differ; non-trivial = tampered message actually offered (a) / sequence containing a non-advancing clock (b) / schedule with a preemption (c)".into();
    let rig = match rig() {
        Ok(r) => r,
        Err(e) => {
            rep.machinery_error(format!("cannot spawn node: {e}"));
            return rep.finish();
        }
    };
    let foreign = SigningKey::from_bytes(&[33; 32]);
    // ---- part a
    let valid = match rig.publish(5_000_000, "hello") {
        Ok(v) => v,
        Err(e) => {
            rep.machinery_error(e);
            return rep.finish();
        }
    };
    let (version, vk, sig, ts, logical, body): Wire = decode_cbor(&valid[..]).expect("own message decodes");
    let (ts, logical): (u64, u64) = (ts.into(), {
        let s = format!("{}", logical);
        s.parse().unwrap()
    });
    let mut mutants: Vec<(String, Vec<u8>, bool)> = vec![("unmodified".into(), valid.clone(), true)];
    let bits: Vec<u8> = if thorough { (0..8).collect() } else { vec![0, 7] };
    for pos in 0..valid.len() {
        for &b in &bits {
            let mut m = valid.clone();
            m[pos] ^= 1 << b;
            mutants.push((format!("byte[{pos}]^bit{b}"), m, false));
        }
    }
    let enc = |version: u64, vk: VerifyingKey, sig: Signature, ts: u64, logical: u64, body: &str| encode_cbor(&(version, vk, sig, Timestamp::new(ts), LamportTimestamp::new(logical), body.to_string())).unwrap();
    let subs: Vec<(&str, u64, VerifyingKey, u64, u64, String)> = vec![
        ("version=0", 0, vk, ts, logical, body.clone()),
        ("version=2", 2, vk, ts, logical, body.clone()),
        ("author=foreign", version, foreign.verifying_key(), ts, logical, body.clone()),
        ("timestamp+1", version, vk, ts + 1, logical, body.clone()),
        ("timestamp-1", version, vk, ts - 1, logical, body.clone()),
        ("logical+1", version, vk, ts, logical + 1, body.clone()),
        ("body-edited", version, vk, ts, logical, "hellp".into()),
        ("body-empty", version, vk, ts, logical, String::new()),
    ];
    for (n, v, k, t, l, b) in &subs {
        mutants.push((format!("{n}/original-signature"), enc(*v, *k, sig, *t, *l, b), false));
        // re-signed by a foreign key while claiming the original author
        if *k == vk {
            mutants.push((format!("{n}/re-signed-by-foreign-key"), sign_wire(&foreign, vk, *v, *t, *l, b), false));
        }
    }
    mutants.push(("re-signed-by-foreign-key/unchanged-content".into(), sign_wire(&foreign, vk, version, ts, logical, &body), false));
    // a message honestly signed by the foreign key under its own name is authentic
    mutants.push(("foreign-author-own-signature".into(), sign_wire(&foreign, foreign.verifying_key(), version, ts, logical, &body), true));
    for (name, bytes, must_yield) in &mutants {
        rep.eval();
        rep.transition();
        rep.state(name);
        let (sub, tx) = rig.subscription();
        let (got, _polls, stalled) = feed_and_drain(sub, &tx, std::slice::from_ref(bytes));
        let replay = json!({"part": "a", "mutation": name});
        if stalled {
            rep.violation("subscription-spins", format!("mutation {name}: subscription kept waking itself"), replay);
            continue;
        }
        if !*must_yield {
            rep.nontrivial(name);
        }
        for (a, t, b) in &got {
            // independent authenticity check of whatever was yielded: does some (version=1, logical)
            // exist in the offered bytes that verifies?  The yielded triple must be exactly the
            // content of a validly signed wire message.
            let authentic = match decode_cbor::<Wire, _>(&bytes[..]) {
                Ok((v, k, s, wt, wl, wb)) => {
                    let unsigned = encode_cbor(&(v, k, wt, wl, wb.clone())).unwrap();
                    k == *a && u64::from(wt) == *t && wb == *b && k.verify(&unsigned, &s)
                }
                Err(_) => false,
            };
            if !authentic {
                rep.violation(
                    format!("inauthentic-message-yielded/{}", name.split('/').next_back().unwrap_or("x").split('[').next().unwrap()),
                    format!("mutation {name}: subscription yielded author {}… timestamp {t} body {b:?}, which is not validly signed content", &a.to_hex()[..8]),
                    replay.clone(),
                );
            }
        }
        if *must_yield && got.is_empty() {
            rep.violation("authentic-message-not-yielded", format!("{name}: a validly signed message was not yielded"), replay.clone());
        }
        rep.outcome(&(got.len(), *must_yield));
        if rep.want_sample() && name.contains("re-signed") {
            rep.sample(json!({"mutation": name, "yielded": got.len()}));
        }
    }
    // ---- part b
    let n = if thorough { 5 } else { 4 };
    let base = 9_000_000u64;
    let mut total_seq = 0u64;
    for len in 2..=n {
        for code in 0..3u32.pow(len as u32) {
            let readings: Vec<u64> = (0..len).map(|i| base + ((code / 3u32.pow(i as u32)) % 3) as u64 - 1).collect();
            rep.eval();
            total_seq += 1;
            // a fresh publisher state is not available; the publisher's clock only moves forward, so
            // shift each sequence beyond everything published so far
            let shift = total_seq * 10;
            let mut stamps = vec![];
            let mut encs = std::collections::BTreeSet::new();
            let mut bad = None;
            for (i, r) in readings.iter().enumerate() {
                rep.transition();
                match rig.publish(r + shift, "same body") {
                    Ok(bytes) => {
                        let (_, _, _, wt, wl, _): Wire = decode_cbor(&bytes[..]).expect("decodes");
                        let st = (u64::from(wt), format!("{wl}").parse::<u64>().unwrap());
                        if let Some(prev) = stamps.last() {
                            if st <= *prev {
                                bad = Some(format!("publish #{i} carries timestamp {st:?} after {prev:?}"));
                            }
                        }
                        stamps.push(st);
                        if !encs.insert(bytes) {
                            bad = Some(format!("publish #{i} is byte-identical to an earlier message"));
                        }
                    }
                    Err(e) => {
                        rep.machinery_error(e);
                        return rep.finish();
                    }
                }
            }
            rep.state(&("b", &readings));
            if readings.windows(2).any(|w| w[1] <= w[0]) {
                rep.nontrivial(&("b", &readings));
            }
            if let Some(b) = bad {
                let back = readings.windows(2).any(|w| w[1] < w[0]);
                rep.violation(
                    format!("publish-not-unique/{}", if back { "clock-went-backwards" } else { "clock-stood-still" }),
                    format!("wall-clock readings {readings:?} (relative): {b}; stamps {stamps:?}"),
                    json!({"part": "b", "readings": readings}),
                );
            } else if rep.want_sample() && readings.windows(2).any(|w| w[1] < w[0]) && len == n {
                rep.sample(json!({"clock_readings": readings, "timestamps": format!("{stamps:?}")}));
            }
        }
    }
    // ---- part c: two publishes of one publisher in flight at the same time (two threads on
    // clones of the publisher), same body, wall clock standing still: every interleaving of their
    // schedule points (tokio synchronisation operations, seam S2) within the preemption bound
    let bound = if thorough { 3 } else { 2 };
    let clock = 9_000_000_000u64;
    for b in 0..=bound {
        let before = rep.violation_count();
        let mut outs = vec![];
        let stats = explorer::dfs(
            &explorer::DfsCfg { max_dev: b, wall: std::time::Duration::from_secs(120), ..Default::default() },
            |ch| {
                let results: Arc<std::sync::Mutex<Vec<(usize, Result<Vec<u8>, String>)>>> = Arc::default();
                let bodies: Vec<(String, Box<dyn FnOnce(explorer::thread::ThreadCtx) + Send>)> = (0..2usize)
                    .map(|i| {
                        let publisher = rig.publisher.clone();
                        let handle = rig.rt.handle().clone();
                        let results = results.clone();
                        (
                            format!("publisher{i}"),
                            Box::new(move |cx: explorer::thread::ThreadCtx| {
                                let _g = handle.enter();
                                MockClock::set_system_time(std::time::Duration::from_micros(clock));
                                let _ = p2panda::streams::verif::take_published();
                                let r = cx.block_on(publisher.publish("same body".to_string()));
                                let bytes = p2panda::streams::verif::take_published().pop();
                                let r = match (r, bytes) {
                                    (Ok(()), Some(b)) => Ok(b),
                                    (Err(e), _) => Err(format!("publish failed: {e}")),
                                    (Ok(()), None) => Err("publish did not reach the tap".into()),
                                };
                                results.lock().unwrap().push((i, r));
                            }) as Box<dyn FnOnce(explorer::thread::ThreadCtx) + Send>,
                        )
                    })
                    .collect();
                let run = explorer::thread::run_threads_ext(ch, 5_000, Some(std::time::Duration::from_secs(20)), bodies);
                let r = results.lock().unwrap().clone();
                (run, r)
            },
            |ch, r| outs.push((ch.vector(), ch.deviations(), r)),
        );
        rep.absorb_dfs(&format!("concurrent-publishes/preemptions<={b}"), &stats, b);
        for (vector, devs, (run, results)) in outs {
            if devs < b {
                continue;
            }
            rep.eval();
            rep.state(&("c", &run.trace));
            if devs > 0 {
                rep.nontrivial(&("c", &run.trace));
            }
            let replay = json!({"part": "c", "vector": vector, "schedule": run.trace});
            if run.end != explorer::thread::ThreadEnd::Completed {
                rep.violation("concurrent-publishes/did-not-complete", format!("{:?}; schedule {:?}", run.end, run.trace), replay);
                continue;
            }
            let mut bytes = vec![];
            for (i, r) in &results {
                match r {
                    Ok(b) => bytes.push(b.clone()),
                    Err(e) => rep.machinery_error(format!("part c publisher {i}: {e}")),
                }
            }
            rep.outcome(&("c", bytes.len(), bytes.len() == 2 && bytes[0] == bytes[1]));
            if bytes.len() == 2 && bytes[0] == bytes[1] {
                rep.violation(
                    "publish-not-unique/concurrent-publishes-byte-identical",
                    format!("two publishes of one publisher in flight at the same time (same body, wall clock standing still) produced byte-identical messages; schedule {:?}", run.trace),
                    replay,
                );
            }
        }
        if rep.violation_count() > before {
            break;
        }
    }
    rep.assume("part c: the gossip actor that receives the published bytes is outside the scheduler; the publishes complete without waiting for it (the channel is never full)");
    rep.assume("the gossip overlay itself (iroh) is not involved: bytes are injected into the real subscription's channel and published bytes are observed at the publisher, before they enter the overlay");
    rep.finish()
}

// ---------------------------------------------------------------------------------------------
// C17
// ---------------------------------------------------------------------------------------------

#[derive(Clone, Copy, Debug, PartialEq, Eq, Hash)]
enum Item {
    Valid,
    BadSignature,
    Undecodable,
}

pub fn run_c17(mut rep: Report) -> i32 {
    let thorough = rep.thorough();
    let max_len = if thorough { 6 } else { 4 };
    rep.rule = format!("every sequence of length <= {max_len} over {{valid, bad-signature, undecodable}} is placed on the channel of a real EphemeralStreamSubscription (and, separately, sequences long enough to overflow a lagging receiver, and every run of 1..=127 invalid items followed by a valid one), then the subscription is driven by wake-ups alone (counting waker, a poll happens only after a wake): every valid message must be yielded; a Pending without a wake-up while valid messages are queued is a stall; non-trivial = sequence with a valid message preceded by an invalid one");
    let rig = match rig() {
        Ok(r) => r,
        Err(e) => {
            rep.machinery_error(format!("cannot spawn node: {e}"));
            return rep.finish();
        }
    };
    let k = SigningKey::from_bytes(&[44; 32]);
    let other = SigningKey::from_bytes(&[45; 32]);
    let mk = |it: Item, n: usize| -> Vec<u8> {
        match it {
            Item::Valid => sign_wire(&k, k.verifying_key(), 1, 100 + n as u64, 0, &format!("m{n}")),
            Item::BadSignature => sign_wire(&other, k.verifying_key(), 1, 100 + n as u64, 0, &format!("m{n}")),
            Item::Undecodable => vec![0xff, 0x00, n as u8],
        }
    };
    let alphabet = [Item::Valid, Item::BadSignature, Item::Undecodable];
    for len in 1..=max_len {
        for code in 0..3u32.pow(len as u32) {
            let seq: Vec<Item> = (0..len).map(|i| alphabet[((code / 3u32.pow(i as u32)) % 3) as usize]).collect();
            rep.eval();
            rep.state(&seq);
            let items: Vec<Vec<u8>> = seq.iter().enumerate().map(|(i, it)| mk(*it, i)).collect();
            let want: Vec<String> = seq.iter().enumerate().filter(|(_, it)| **it == Item::Valid).map(|(i, _)| format!("m{i}")).collect();
            let (sub, tx) = rig.subscription();
            let (got, polls, spun) = feed_and_drain(sub, &tx, &items);
            rep.transitions += polls;
            let got_bodies: Vec<String> = got.iter().map(|g| g.2.clone()).collect();
            let first_valid = seq.iter().position(|i| *i == Item::Valid);
            if first_valid.is_some_and(|p| p > 0) {
                rep.nontrivial(&seq);
            }
            rep.outcome(&(got_bodies.len(), want.len()));
            let replay = json!({"part": "sequences", "sequence": format!("{seq:?}")});
            if spun {
                rep.violation("subscription-spins", format!("sequence {seq:?}"), replay);
            } else if got_bodies != want {
                let lost = want.iter().filter(|w| !got_bodies.contains(w)).count();
                rep.violation(
                    if lost > 0 { "stall/valid-message-behind-invalid-not-yielded" } else { "unexpected-message-yielded" },
                    format!("channel holds {seq:?}: driven by wake-ups alone the subscription yielded {got_bodies:?} after {polls} poll(s) and then parked without a wake-up; valid messages queued: {want:?}"),
                    replay,
                );
            } else if rep.want_sample() && first_valid.is_some_and(|p| p > 0) {
                rep.sample(json!({"channel": format!("{seq:?}"), "yielded": got_bodies, "polls": polls}));
            }
        }
    }
    // Lagged receivers: the broadcast channel of a gossip subscription holds 128 items.  Overflow it
    // (the receiver is not polled meanwhile) with every pattern of a short cycle of item kinds, then
    // drive by wake-ups: the valid messages still in the channel must all come out.
    let over = 128 + 40;
    for cycle_len in 1..=3usize {
        for code in 0..3u32.pow(cycle_len as u32) {
            let cycle: Vec<Item> = (0..cycle_len).map(|i| alphabet[((code / 3u32.pow(i as u32)) % 3) as usize]).collect();
            let seq: Vec<Item> = (0..over).map(|i| cycle[i % cycle_len]).collect();
            rep.eval();
            rep.state(&("lag", &cycle));
            let items: Vec<Vec<u8>> = seq.iter().enumerate().map(|(i, it)| mk(*it, i)).collect();
            let (sub, tx) = rig.subscription();
            let (got, polls, spun) = feed_and_drain(sub, &tx, &items);
            rep.transitions += polls;
            // the channel keeps the newest 128 items; the oldest retained valid ones must be yielded
            let retained_valid: Vec<String> = seq.iter().enumerate().skip(over - 128).filter(|(_, it)| **it == Item::Valid).map(|(i, _)| format!("m{i}")).collect();
            let got_bodies: Vec<String> = got.iter().map(|g| g.2.clone()).collect();
            let replay = json!({"part": "lagged", "cycle": format!("{cycle:?}"), "items": over});
            rep.nontrivial(&("lag", &cycle));
            rep.outcome(&("lag", got_bodies.len(), retained_valid.len()));
            if spun {
                rep.violation("subscription-spins", format!("lagged receiver, cycle {cycle:?}"), replay);
            } else if got_bodies != retained_valid {
                rep.violation(
                    "stall/lagged-receiver-does-not-recover",
                    format!("{over} items (cycle {cycle:?}) sent before the first poll: the subscription yielded {} messages after {polls} poll(s) and parked; {} valid messages are retained by the channel", got_bodies.len(), retained_valid.len()),
                    replay,
                );
            }
        }
    }
    // Runs: n invalid items followed by one valid message, for every n the channel can hold
    // (1..=127) and every kind of invalid item (and both alternating): skipping must not depend on
    // how many items are skipped within one poll.
    for kind in 0..3usize {
        for n in 1..=127usize {
            let seq: Vec<Item> = (0..n)
                .map(|i| match kind {
                    0 => Item::BadSignature,
                    1 => Item::Undecodable,
                    _ => [Item::BadSignature, Item::Undecodable][i % 2],
                })
                .chain(std::iter::once(Item::Valid))
                .collect();
            rep.eval();
            rep.state(&("run", kind, n));
            let items: Vec<Vec<u8>> = seq.iter().enumerate().map(|(i, it)| mk(*it, i)).collect();
            let (sub, tx) = rig.subscription();
            let (got, polls, spun) = feed_and_drain(sub, &tx, &items);
            rep.transitions += polls;
            let got_bodies: Vec<String> = got.iter().map(|g| g.2.clone()).collect();
            rep.nontrivial(&("run", kind, n));
            rep.outcome(&("run", got_bodies.len()));
            let kind_name = ["bad-signature", "undecodable", "alternating"][kind];
            let replay = json!({"part": "runs", "invalid_kind": kind_name, "run_length": n});
            if spun {
                rep.violation("subscription-spins", format!("{n} invalid items then a valid one"), replay);
            } else if got_bodies != vec![format!("m{n}")] {
                rep.violation(
                    "stall/valid-message-behind-long-run-of-invalid-not-yielded",
                    format!("channel holds {n} invalid items ({}) followed by one valid message: driven by wake-ups alone the subscription yielded {got_bodies:?} after {polls} poll(s) and parked", ["bad signature", "undecodable", "alternating"][kind]),
                    replay,
                );
            }
        }
    }
    rep.assume("the broadcast channel of a gossip subscription holds 128 items (p2panda-net gossip manager); a lagging receiver is produced by sending 168 items before the first poll");
    rep.finish()
}
