//! C02 Header encoding round-trips and is a deterministic function of the header.
//!
//! E-ENUM over header values (payload, seq, backlink) × extension types: `()`, a custom struct and
//! every variant of the Node API extensions (`Basic` with both prune flags, `Causal` with every
//! subset of a 4-hash alphabet as `previous`, received in every wire order).  For every value:
//! sign, encode, decode K times from the same bytes, re-encode each, compare value, bytes, id and
//! signature validity.  std `HashSet` iteration order (RandomState) is not ownable; each case is
//! repeated on K freshly decoded instances, the oracle does not depend on the seed.
use explorer::{json, Report};
use p2panda::operation::Extensions as NodeExt;
use p2panda_core::cbor::{decode_cbor, encode_cbor};
use p2panda_core::{Body, Hash, Header, SigningKey, Topic};
use serde::{Deserialize, Serialize};

const K: usize = 16;

#[derive(Clone, Debug, Default, PartialEq, Eq, Serialize, Deserialize)]
struct Custom {
    #[serde(rename = "a")]
    a: u64,
    #[serde(rename = "b", skip_serializing_if = "Option::is_none", default)]
    b: Option<String>,
}

fn key(i: u8) -> SigningKey {
    SigningKey::from_bytes(&[i + 1; 32])
}

fn check_header<E>(rep: &mut Report, family: &str, desc: &str, mut h: Header<E>, k: &SigningKey)
where
    E: p2panda_core::Extensions + PartialEq,
{
    rep.eval();
    h.sign(k);
    let bytes = h.to_bytes();
    let id = h.hash();
    let replay = json!({"part": family, "case": desc});
    rep.state(&(family, desc));
    if !h.verify() {
        rep.violation(format!("{family}/signed-header-does-not-verify"), format!("{desc}: verify() is false right after sign()"), replay);
        return;
    }
    // the same value encodes identically every time
    for i in 0..K {
        rep.transition();
        if h.to_bytes() != bytes {
            rep.violation(format!("{family}/re-encoding-differs"), format!("{desc}: encoding #{i} of the same header value differs from the first one"), replay);
            return;
        }
        if h.clone().to_bytes() != bytes {
            rep.violation(format!("{family}/clone-encodes-differently"), format!("{desc}: a clone of the header encodes to different bytes"), replay);
            return;
        }
    }
    let mut seen_bytes = std::collections::BTreeSet::new();
    for i in 0..K {
        rep.transition();
        let d: Header<E> = match decode_cbor(&bytes[..]) {
            Ok(d) => d,
            Err(e) => {
                rep.violation(format!("{family}/decode-fails"), format!("{desc}: decoding the encoded header fails: {e}"), replay);
                return;
            }
        };
        if d != h {
            rep.violation(format!("{family}/decoded-not-equal"), format!("{desc}: decoded header differs from the original value"), replay);
            return;
        }
        let b2 = d.to_bytes();
        seen_bytes.insert(b2.clone());
        if b2 != bytes {
            rep.violation(
                format!("{family}/equal-headers-encode-differently"),
                format!("{desc}: decode #{i} of the same {} bytes yields an equal header that re-encodes to different bytes (so its id is {} instead of {} and verify() = {})", bytes.len(), d.hash(), id, d.verify()),
                replay,
            );
            return;
        }
        if d.hash() != id {
            rep.violation(format!("{family}/id-differs"), format!("{desc}: decoded header has a different operation id"), replay);
            return;
        }
        if !d.verify() {
            rep.violation(format!("{family}/decoded-does-not-verify"), format!("{desc}: decoded header no longer verifies"), replay);
            return;
        }
    }
    rep.outcome(&seen_bytes.len());
    rep.nontrivial(&(family, desc));
    if rep.want_sample() && family != "unit" {
        rep.sample(json!({"family": family, "case": desc, "encoded_len": bytes.len(), "id": id.to_hex()}));
    }
}

/// Headers with arbitrary (also inconsistent) payload / backlink fields: the property speaks about
/// every header that *passes validation*, so whatever `validate_header` lets through must round-trip.
fn odd_shapes<E: Clone>(k: &SigningKey, ext: E) -> Vec<(String, Header<E>)> {
    let mut v = vec![];
    let body = Body::new(&[1u8, 2, 3]);
    for (hn, hash) in [("none", None), ("some", Some(body.hash()))] {
        for size in [0u32, 3] {
            for (bn, backlink) in [("none", None), ("some", Some(Hash::digest(b"p")))] {
                for seq in [0u32, 1] {
                    for version in [1u16, 2] {
                        v.push((
                            format!("odd-hash{hn}-size{size}-backlink{bn}-seq{seq}-v{version}"),
                            Header::<E> { version, verifying_key: k.verifying_key(), signature: None, payload_size: size, payload_hash: hash, seq_num: seq, backlink, extensions: ext.clone() },
                        ));
                    }
                }
            }
        }
    }
    v
}

fn shapes<E: Clone>(k: &SigningKey, ext: E) -> Vec<(String, Header<E>)> {
    let mut v = vec![];
    let bodies: Vec<Option<Body>> = vec![None, Some(Body::new(&[7u8])), Some(Body::new(&[9u8; 300]))];
    for (bi, b) in bodies.iter().enumerate() {
        for seq in [0u32, 1, u32::MAX] {
            let h = Header::<E> {
                version: 1,
                verifying_key: k.verifying_key(),
                signature: None,
                payload_size: b.as_ref().map(|b| b.size()).unwrap_or(0),
                payload_hash: b.as_ref().map(|b| b.hash()),
                seq_num: seq,
                backlink: if seq == 0 { None } else { Some(Hash::digest(format!("prev-{seq}"))) },
                extensions: ext.clone(),
            };
            v.push((format!("body{bi}-seq{seq}"), h));
        }
    }
    v
}

/// Build a Node API `Causal` extension by decoding its wire form (there is no public constructor;
/// this is also exactly how such an extension reaches a node: from a remote peer).
fn causal_from_wire(log_id_topic: Topic, timestamp: u64, previous_in_wire_order: &[Hash]) -> Result<NodeExt, String> {
    let log_id = p2panda::operation::LogId::from_topic(log_id_topic);
    let wire = encode_cbor(&(1u16, 1u16, log_id, timestamp, previous_in_wire_order.to_vec())).map_err(|e| e.to_string())?;
    decode_cbor::<NodeExt, _>(&wire[..]).map_err(|e| e.to_string())
}

fn permutations(items: &[Hash]) -> Vec<Vec<Hash>> {
    if items.len() <= 1 {
        return vec![items.to_vec()];
    }
    let mut out = vec![];
    for i in 0..items.len() {
        let mut rest = items.to_vec();
        let x = rest.remove(i);
        for mut p in permutations(&rest) {
            p.insert(0, x);
            out.push(p);
        }
    }
    out
}

pub fn run(mut rep: Report) -> i32 {
    let thorough = rep.thorough();
    rep.rule = format!("header shapes (payload none/1 B/300 B x seq 0/1/u32::MAX with matching backlink) x extensions: (), a custom struct (3 values), Node API Basic (prune flag x 3 clock readings), Node API Causal (every subset of a {}-hash alphabet as `previous`, received in every wire order); each case: sign, encode {K} times, decode {K} times from the same bytes, re-encode, compare value / bytes / id / verify(); non-trivial = case that passed all comparisons", if thorough { 5 } else { 4 });
    let k = key(0);
    for (d, h) in shapes(&k, ()) {
        check_header(&mut rep, "unit", &d, h, &k);
    }
    // every field combination validate_header accepts must round-trip as well
    let mut passed_validation = 0u64;
    for (d, mut h) in odd_shapes(&k, ()).into_iter().chain(odd_shapes(&k, ()).into_iter().map(|(d, h)| (format!("{d}-again"), h)).take(0)) {
        h.sign(&k);
        if p2panda_core::validate_header(&h).is_ok() {
            passed_validation += 1;
            check_header(&mut rep, "validated", &d, h, &k);
        }
    }
    for (d, mut h) in odd_shapes(&k, Custom { a: 7, b: Some("z".into()) }) {
        h.sign(&k);
        if p2panda_core::validate_header(&h).is_ok() {
            passed_validation += 1;
            check_header(&mut rep, "validated-custom", &d, h, &k);
        }
    }
    rep.set("odd_field_combinations_passing_validate_header", json!(passed_validation));
    for (ci, c) in [Custom::default(), Custom { a: u64::MAX, b: None }, Custom { a: 1, b: Some("x".repeat(40)) }].into_iter().enumerate() {
        for (d, h) in shapes(&k, c.clone()) {
            check_header(&mut rep, "custom", &format!("custom{ci}-{d}"), h, &k);
        }
    }
    // Node API Basic
    let topic = Topic::from([5u8; 32]);
    for clock in [0u64, 1_700_000_000_000_000, u64::MAX / 2] {
        mock_instant::thread_local::MockClock::set_system_time(std::time::Duration::from_micros(clock));
        for prune in [false, true] {
            let ext = NodeExt::from_topic(topic).set_prune_flag(prune);
            for (d, h) in shapes(&k, ext.clone()) {
                check_header(&mut rep, "node-basic", &format!("clock{clock}-prune{prune}-{d}"), h, &k);
            }
        }
    }
    // Node API Causal
    let n = if thorough { 5 } else { 4 };
    let alphabet: Vec<Hash> = (0..n).map(|i| Hash::digest([i as u8; 4])).collect();
    for mask in 0u32..(1 << n) {
        let subset: Vec<Hash> = alphabet.iter().enumerate().filter(|(i, _)| mask & (1 << i) != 0).map(|(_, h)| *h).collect();
        let mut encodings_of_equal_values: std::collections::BTreeSet<Vec<u8>> = Default::default();
        for (pi, perm) in permutations(&subset).into_iter().enumerate() {
            let ext = match causal_from_wire(topic, 42, &perm) {
                Ok(e) => e,
                Err(e) => {
                    rep.violation("node-causal/decode-fails", format!("previous subset {mask:#b} wire order {pi}: {e}"), json!({"part": "node-causal", "mask": mask, "perm": pi}));
                    continue;
                }
            };
            // one representative header shape per extension value keeps the product small; the
            // other fields were varied above
            let (d, h) = shapes(&k, ext).remove(4);
            let desc = format!("previous={mask:#07b}-wire-order{pi}-{d}");
            // equal values (same set, different arrival order) must encode identically
            let mut hs = h.clone();
            hs.sign(&k);
            encodings_of_equal_values.insert(hs.to_bytes());
            check_header(&mut rep, "node-causal", &desc, h, &k);
        }
        if encodings_of_equal_values.len() > 1 {
            rep.violation(
                "node-causal/equal-headers-encode-differently",
                format!("previous subset {mask:#07b} ({} hashes): headers that are equal as values (same set, built from different wire orders) signed and encoded to {} different byte strings", subset.len(), encodings_of_equal_values.len()),
                json!({"part": "node-causal", "mask": mask}),
            );
        }
    }
    rep.assume(&format!("std HashSet iteration order (RandomState) cannot be owned: every case is repeated on {K} freshly decoded instances; the oracle (byte equality) is seed-independent, so a correct tree cannot alarm, and a hasher-dependent encoding of n >= 2 hashes escapes one repetition with probability <= 1/2"));
    rep.exhaustive = true;
    rep.finish()
}

