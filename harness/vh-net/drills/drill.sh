#!/usr/bin/env bash
# vh-net/drills/drill.sh <patch.diff|--none> <Cxx> [more ids...] [-- extra args]
#
# Same procedure as /verif/bin/drill with area "vh-net" (private worktree of /repo under
# /var/tmp/drill-vh-net/, harness copy with /repo/ paths rewritten, own target dir).  Differences:
# * it appends the vh-net properties to the copied bin/properties.map, so the drills can be run
#   before /verif/bin/properties.map has been regenerated from vh-net/checks.json;
# * it merges vh-net/known_findings.fragment.json into the copied known_findings.json: C28 fires
#   on the unchanged tree, with the baseline key known "exit=1" means the mutation produced a key
#   that the unchanged tree does not produce;
# * the drill target dir is seeded once from an existing release target dir (VH_SEED_TARGET,
#   default /var/tmp/vh-target-net) so that iroh & co. are not rebuilt from scratch.
set -u
export CARGO_BUILD_JOBS="${CARGO_BUILD_JOBS:-4}" VERIF_THREADS="${VERIF_THREADS:-4}"   # shared machine
patch="${1:?patch file or --none}"; shift
BASE="/var/tmp/drill-vh-net"
ids=(); extra=()
while [ $# -gt 0 ]; do
  if [ "$1" = "--" ]; then shift; extra=("$@"); break; fi
  ids+=("$1"); shift
done
mkdir -p "$BASE"
if [ ! -d "$BASE/repo" ]; then
  git -C /repo worktree add --detach "$BASE/repo" HEAD >/dev/null 2>&1 || { echo "cannot create worktree" >&2; exit 2; }
else
  git -C "$BASE/repo" checkout -q --detach "$(git -C /repo rev-parse HEAD)" 2>/dev/null
  git -C "$BASE/repo" checkout -q -- . 2>/dev/null
  git -C "$BASE/repo" clean -qfd -e target 2>/dev/null
fi
if ! git -C /repo diff --quiet HEAD; then
  git -C /repo diff HEAD | git -C "$BASE/repo" apply || { echo "cannot carry over /repo working-tree changes" >&2; exit 2; }
fi
if [ "$patch" != "--none" ]; then
  patch_abs="$(readlink -f "$patch")"
  git -C "$BASE/repo" apply "$patch_abs" || { echo "DRILL patch does not apply: $patch" >&2; exit 2; }
fi
mkdir -p "$BASE/verif"
rsync -a --delete --exclude target --exclude '.git' /verif/bin /verif/harness /verif/vendor /verif/known_findings.json "$BASE/verif/"
for id in C26 C27 C28 C18N; do
  grep -q "^$id " "$BASE/verif/bin/properties.map" || echo "$id vh-net" >> "$BASE/verif/bin/properties.map"
done
grep -rl '/repo/' "$BASE/verif/harness" --include=Cargo.toml --include='*.rs' 2>/dev/null | xargs -r sed -i "s|/repo/|$BASE/repo/|g"
sed -i "s|^target-dir = .*|target-dir = \"$BASE/target\"|" "$BASE/verif/harness/.cargo/config.toml"
cp /verif/harness/Cargo.lock "$BASE/verif/harness/Cargo.lock"
seed="${VH_SEED_TARGET:-/var/tmp/vh-target-net}"
if [ ! -d "$BASE/target/release" ] && [ -d "$seed/release/deps" ]; then
  mkdir -p "$BASE/target/release"
  cp -a "$seed/release/deps" "$seed/release/build" "$seed/release/.fingerprint" "$BASE/target/release/"
fi
python3 - "$BASE/verif/known_findings.json" /verif/harness/vh-net/known_findings.fragment.json <<'PY'
import json, sys
dst, frag = sys.argv[1], sys.argv[2]
d = json.load(open(dst)); f = json.load(open(frag))
have = {(x.get("property"), x.get("key")) for x in d.get("findings", [])}
d.setdefault("findings", []).extend(x for x in f["findings"] if (x["property"], x["key"]) not in have)
json.dump(d, open(dst, "w"), indent=1)
PY
mkdir -p "$BASE/verif/evidence" "$BASE/verif/replays"
rc=0
for id in "${ids[@]}"; do
  "$BASE/verif/bin/check" "$id" "${extra[@]}" > "$BASE/out-$id.txt" 2>&1
  code=$?
  grep -E "^(VIOLATION|KNOWN-FINDING|MACHINERY-ERROR|$id tier)" "$BASE/out-$id.txt" | head -12
  grep -A1 "^VIOLATION" "$BASE/out-$id.txt" | grep -E "^  key" | head -30
  echo "DRILL $id exit=$code"
  [ $code -eq 2 ] && { tail -20 "$BASE/out-$id.txt"; rc=2; }
done
git -C "$BASE/repo" checkout -q -- . 2>/dev/null
git -C "$BASE/repo" clean -qfd -e target 2>/dev/null
exit $rc
