//! C27 Address book keeps the newest authentic transport info per node.
//!
//! Every sequence without repetition over a 13-record alphabet (NodeInfo level: length <= 5,
//! thorough 6; address-book level: length <= 3, thorough 5) is
//! delivered (a) to plain `NodeInfo::update_transports` entries (depth-first with shared
//! prefixes) and (b) through the real `AddressBook` actor (`insert_transport_info`, SQLite store)
//! and compared step by step with a last-writer-wins register written here.  A differential
//! table keyed by the *set* of delivered records checks order independence without an expected
//! value.
use std::collections::{BTreeMap, HashMap};

use explorer::{json, Report, Value};
use p2panda_core::SigningKey;
use p2panda_net::addrs::{NodeInfo, NodeTransportInfo, TransportInfo};
use p2panda_net::{AddressBook, NodeId};
use p2panda_store::address_book::AddressBookStore;
use p2panda_store::{SqliteError, SqliteStore, SqliteStoreBuilder};

use crate::fixtures::{addr, key, runtime, signed, trusted, ts};

#[derive(Clone, Copy, Debug, PartialEq, Eq, Hash, PartialOrd, Ord)]
enum Target {
    N,
    M,
}

#[derive(Clone, Debug)]
struct Rec {
    name: &'static str,
    /// Node id the record is delivered for.
    target: Target,
    info: TransportInfo,
    /// `None` = acceptable for the target (authentically signed by it, or trusted and matching
    /// its id); `Some(kind)` = forged / mismatched.
    forged: Option<&'static str>,
    kind: &'static str,
}

struct World {
    n: NodeId,
    m: NodeId,
    x: NodeId,
    recs: Vec<Rec>,
}

const A2: usize = 1;
const A2X: usize = 2;

fn world() -> World {
    let (kn, km, kx): (SigningKey, SigningKey, SigningKey) = (key(1), key(2), key(3));
    let (n, m, x) = (kn.verifying_key(), km.verifying_key(), kx.verifying_key());
    let auth = |name, t, l, port: u16, kind| Rec {
        name,
        target: Target::N,
        info: signed(&kn, ts(t, l), [addr(n, port)]).into(),
        forged: None,
        kind,
    };
    let mut recs = vec![
        auth("a1", 1, 0, 1001, "authentic"),
        auth("a2", 2, 0, 1002, "authentic"),
        auth("a2x", 2, 0, 1099, "authentic-equal-timestamp"),
        auth("a2b", 2, 1, 1003, "authentic-logical-counter"),
        auth("a3", 3, 0, 1004, "authentic"),
    ];
    recs.push(Rec {
        name: "tN",
        target: Target::N,
        info: trusted(ts(2, 5), [addr(n, 1005)]).into(),
        forged: None,
        kind: "trusted-matching-id",
    });
    recs.push(Rec {
        name: "fX",
        target: Target::N,
        info: signed(&kx, ts(9, 0), [addr(n, 1006)]).into(),
        forged: Some("signed-by-other-key"),
        kind: "signed-by-other-key",
    });
    recs.push(Rec {
        name: "fM",
        target: Target::N,
        info: signed(&km, ts(9, 0), [addr(m, 1007)]).into(),
        forged: Some("authentic-record-of-other-node"),
        kind: "authentic-record-of-other-node",
    });
    recs.push(Rec {
        name: "tM",
        target: Target::N,
        info: trusted(ts(9, 0), [addr(m, 1008)]).into(),
        forged: Some("trusted-address-of-other-node"),
        kind: "trusted-address-of-other-node",
    });
    recs.push({
        let mut tampered = signed(&kn, ts(3, 0), [addr(n, 1009)]);
        tampered.timestamp = ts(9, 0);
        Rec {
            name: "fT",
            target: Target::N,
            info: tampered.into(),
            forged: Some("tampered-timestamp"),
            kind: "tampered-timestamp",
        }
    });
    // records without any address: the signature still covers the timestamp, so a forged one must
    // be refused like any other and an authentic one is a regular (newest-wins) update
    recs.push(Rec {
        name: "fE",
        target: Target::N,
        info: signed(&kx, ts(9, 0), std::iter::empty()).into(),
        forged: Some("signed-by-other-key-without-addresses"),
        kind: "signed-by-other-key-without-addresses",
    });
    recs.push(Rec {
        name: "aE",
        target: Target::N,
        info: signed(&kn, ts(2, 2), std::iter::empty()).into(),
        forged: None,
        kind: "authentic-without-addresses",
    });
    recs.push(Rec {
        name: "aM",
        target: Target::M,
        info: signed(&km, ts(5, 0), [addr(m, 1010)]).into(),
        forged: None,
        kind: "authentic-for-other-node",
    });
    World { n, m, x, recs }
}

/// What an entry holds, expressed through the alphabet.
#[derive(Clone, Debug, PartialEq, Eq, Hash, PartialOrd, Ord)]
enum Stored {
    /// No entry for the node.
    Absent,
    /// Entry without transports.
    Empty,
    Rec(usize),
    /// Transports that are none of the delivered alphabet records.
    Unknown(String),
}

fn classify(w: &World, t: Option<&TransportInfo>) -> Stored {
    match t {
        None => Stored::Empty,
        Some(t) => match w.recs.iter().position(|r| &r.info == t) {
            Some(i) => Stored::Rec(i),
            None => Stored::Unknown(format!("{t}")),
        },
    }
}

fn show(w: &World, s: &Stored) -> String {
    match s {
        Stored::Absent => "no entry".into(),
        Stored::Empty => "entry without transports".into(),
        Stored::Rec(i) => format!("{} (timestamp {})", w.recs[*i].name, w.recs[*i].info.timestamp()),
        Stored::Unknown(t) => format!("unknown record {t}"),
    }
}

/// The reference: one last-writer-wins register per node.
#[derive(Clone, Debug, Default)]
struct Lww {
    n: Option<usize>,
    m: Option<usize>,
}

impl Lww {
    /// `Err(())` = must be rejected; `Ok(flag)` = accepted, flag = it is strictly newer.
    fn deliver(&mut self, w: &World, i: usize) -> Result<bool, ()> {
        let r = &w.recs[i];
        if r.forged.is_some() {
            return Err(());
        }
        let slot = match r.target {
            Target::N => &mut self.n,
            Target::M => &mut self.m,
        };
        let newer = match *slot {
            None => true,
            Some(c) => r.info.timestamp() > w.recs[c].info.timestamp(),
        };
        if newer {
            *slot = Some(i);
        }
        Ok(newer)
    }
    fn stored(&self, t: Target, entry_exists: bool) -> Stored {
        match (if t == Target::N { self.n } else { self.m }, entry_exists) {
            (Some(i), _) => Stored::Rec(i),
            (None, true) => Stored::Empty,
            (None, false) => Stored::Absent,
        }
    }
}

struct Obs {
    /// `Ok(flag)` or `Err(error text)`.
    result: Result<bool, String>,
    n: Stored,
    m: Stored,
    /// Entries for node ids other than N and M.
    strangers: Vec<String>,
}

/// Compare one delivery with the model.  `before` is the model before the step, `after` after it;
/// `exists_*` says whether the model expects an entry to exist (address-book level only).
#[allow(clippy::too_many_arguments)]
fn judge(
    level: &str,
    w: &World,
    i: usize,
    before: &Lww,
    after: &Lww,
    expect: Result<bool, ()>,
    want_n: &Stored,
    want_m: &Stored,
    obs: &Obs,
) -> Vec<(String, String)> {
    let r = &w.recs[i];
    let mut out = vec![];
    let (want_t, got_t, want_o, got_o) = match r.target {
        Target::N => (want_n, &obs.n, want_m, &obs.m),
        Target::M => (want_m, &obs.m, want_n, &obs.n),
    };
    match (&expect, &obs.result) {
        (Err(()), Ok(flag)) => out.push((
            format!("{level}/forged-accepted/{}", r.kind),
            format!("record {} ({}) was accepted (returned Ok({flag}))", r.name, r.kind),
        )),
        (Ok(_), Err(e)) => out.push((
            format!("{level}/authentic-rejected/{}", r.kind),
            format!("record {} ({}, timestamp {}) was rejected: {e}", r.name, r.kind, r.info.timestamp()),
        )),
        (Ok(want), Ok(got)) if want != got => out.push((
            format!(
                "{level}/is-newer-flag-wrong/{}",
                if *got { "reported-newer-but-is-not" } else { "reported-not-newer-but-is" }
            ),
            format!(
                "record {} (timestamp {}) delivered onto {}: returned {got}, the newest-wins register says {want}",
                r.name,
                r.info.timestamp(),
                show(w, &before.stored(r.target, true))
            ),
        )),
        _ => {}
    }
    if got_t != want_t {
        let key = if r.forged.is_some() {
            format!("{level}/forged-stored/{}", r.kind)
        } else if *got_t == Stored::Rec(i) {
            // real took the record, the register kept the current one
            let cur = if r.target == Target::N { before.n } else { before.m };
            let class = match cur {
                Some(c) if w.recs[c].info.timestamp() == r.info.timestamp() => "equal-timestamp",
                Some(_) => "older-timestamp",
                None => "no-current",
            };
            format!("{level}/replaced-by-not-newer/{class}")
        } else if *want_t == Stored::Rec(i) {
            format!("{level}/newer-not-stored/{}", r.kind)
        } else {
            format!("{level}/stored-differs")
        };
        out.push((
            key,
            format!(
                "after delivering {} ({}, timestamp {}) the entry holds {}, the newest authentic record so far is {}",
                r.name,
                r.kind,
                r.info.timestamp(),
                show(w, got_t),
                show(w, want_t)
            ),
        ));
    }
    if got_o != want_o {
        out.push((
            format!("{level}/other-node-entry-changed"),
            format!(
                "delivering {} for node {:?} changed the other node's entry to {} (expected {})",
                r.name,
                r.target,
                show(w, got_o),
                show(w, want_o)
            ),
        ));
    }
    if !obs.strangers.is_empty() {
        out.push((
            format!("{level}/stranger-entry-created"),
            format!("delivering {} created entries for other node ids: {:?}", r.name, obs.strangers),
        ));
    }
    let _ = after;
    out
}

fn names(w: &World, seq: &[usize]) -> Vec<&'static str> {
    seq.iter().map(|i| w.recs[*i].name).collect()
}

fn mask_of(seq: &[usize]) -> u32 {
    seq.iter().fold(0, |m, i| m | (1 << i))
}


#[derive(Default)]
struct Fold {
    evals: u64,
    transitions: u64,
    nontrivial: u64,
    outcomes: std::collections::BTreeSet<(usize, bool, Option<bool>)>,
    end_states: std::collections::BTreeSet<(Stored, Stored)>,
    violations: BTreeMap<String, (u64, String, Value)>,
    /// set of delivered records -> (first sequence, final N, final M)
    table: HashMap<u32, (Vec<usize>, Stored, Stored)>,
    samples: Vec<Value>,
}

impl Fold {
    fn violation(&mut self, key: String, what: String, replay: Value) {
        let e = self.violations.entry(key).or_insert((0, what, replay));
        e.0 += 1;
    }
    /// Differential table: the same set of records must end in the same stored state whatever
    /// the arrival order (sets with two equal-timestamp records are order dependent by the
    /// strictly-newer rule and are skipped).
    fn differential(&mut self, level: &str, w: &World, seq: &[usize], n: &Stored, m: &Stored) {
        let mask = mask_of(seq);
        if mask & (1 << A2) != 0 && mask & (1 << A2X) != 0 {
            return;
        }
        match self.table.get(&mask) {
            None => {
                self.table.insert(mask, (seq.to_vec(), n.clone(), m.clone()));
            }
            Some((first, fn_, fm)) => {
                if fn_ != n || fm != m {
                    let what = format!(
                        "the same records end differently: order {:?} -> N holds {}, order {:?} -> N holds {}",
                        names(w, first),
                        show(w, fn_),
                        names(w, seq),
                        show(w, n)
                    );
                    let replay = json!({"level": level, "sequence": names(w, seq), "other_order": names(w, first)});
                    self.violation(format!("{level}/order-dependent"), what, replay);
                }
            }
        }
    }
    fn merge_into(self, rep: &mut Report, level: &str, w: &World, global: &mut HashMap<u32, (Vec<usize>, Stored, Stored)>) {
        rep.evals(self.evals);
        rep.transitions += self.transitions;
        rep.nontrivial_count(self.nontrivial);
        for o in &self.outcomes {
            rep.outcome(&(level, o));
        }
        for s in &self.end_states {
            rep.state(&(level, s));
        }
        for s in self.samples {
            rep.sample(s);
        }
        for (k, (count, what, replay)) in self.violations {
            for _ in 0..count.min(1000) {
                rep.violation(k.clone(), what.clone(), replay.clone());
            }
        }
        // cross-worker differential
        for (mask, (seq, n, m)) in self.table {
            match global.get(&mask) {
                None => {
                    global.insert(mask, (seq, n, m));
                }
                Some((first, fn_, fm)) => {
                    if *fn_ != n || *fm != m {
                        rep.violation(
                            format!("{level}/order-dependent"),
                            format!(
                                "the same records end differently: order {:?} -> N holds {}, order {:?} -> N holds {}",
                                names(w, first),
                                show(w, fn_),
                                names(w, &seq),
                                show(w, &n)
                            ),
                            json!({"level": level, "sequence": names(w, &seq), "other_order": names(w, first)}),
                        );
                    }
                }
            }
        }
    }
}

// ---------------------------------------------------------------------------------------------
// (a) NodeInfo level: depth-first over all sequences without repetition, prefixes shared.
// ---------------------------------------------------------------------------------------------

#[allow(clippy::too_many_arguments)]
fn dfs_node_info(
    w: &World,
    f: &mut Fold,
    max_len: usize,
    seq: &mut Vec<usize>,
    entry_n: &NodeInfo,
    entry_m: &NodeInfo,
    model: &Lww,
    refused: bool,
) {
    if seq.len() == max_len {
        return;
    }
    for i in 0..w.recs.len() {
        if seq.contains(&i) {
            continue;
        }
        seq.push(i);
        f.evals += 1;
        f.transitions += 1;
        let (mut en, mut em) = (entry_n.clone(), entry_m.clone());
        let mut after = model.clone();
        let expect = after.deliver(w, i);
        let r = &w.recs[i];
        let result = explorer::catch(|| match r.target {
            Target::N => en.update_transports(r.info.clone()),
            Target::M => em.update_transports(r.info.clone()),
        });
        let result = match result {
            Ok(Ok(b)) => Ok(b),
            Ok(Err(e)) => Err(e.to_string()),
            Err(p) => {
                f.violation(
                    "node-info/update-transports-panics".into(),
                    format!("sequence {:?}: update_transports panicked: {p}", names(w, seq)),
                    json!({"level": "node-info", "sequence": names(w, seq)}),
                );
                seq.pop();
                continue;
            }
        };
        f.outcomes.insert((i, result.is_ok(), result.as_ref().ok().copied()));
        let obs = Obs {
            result,
            n: classify(w, en.transports.as_ref()),
            m: classify(w, em.transports.as_ref()),
            strangers: vec![],
        };
        let (want_n, want_m) = (after.stored(Target::N, true), after.stored(Target::M, true));
        let hits = judge("node-info", w, i, model, &after, expect, &want_n, &want_m, &obs);
        let ok = hits.is_empty();
        for (key, what) in hits {
            f.violation(
                key,
                format!("sequence {:?}: {what}", names(w, seq)),
                json!({"level": "node-info", "sequence": names(w, seq)}),
            );
        }
        let refused_now = refused || !matches!(expect, Ok(true));
        if refused_now {
            f.nontrivial += 1;
        }
        f.differential("node-info", w, seq, &obs.n, &obs.m);
        f.end_states.insert((obs.n.clone(), obs.m.clone()));
        if seq.as_slice() == [4, 7, 0, 1] || seq.as_slice() == [6, 1, 2, 0] || seq.as_slice() == [5, 8, 3, 10] {
            f.samples.push(json!({"level": "node-info", "sequence": names(w, seq), "stored": show(w, &obs.n)}));
        }
        // Continue below a disagreeing state only from the model's point of view would hide
        // nothing: the real entries are carried on, later steps are judged against the model.
        if ok {
            dfs_node_info(w, f, max_len, seq, &en, &em, &after, refused_now);
        }
        seq.pop();
    }
}

// ---------------------------------------------------------------------------------------------
// (b) Address book level: every sequence from an empty book through the real actor.
// ---------------------------------------------------------------------------------------------

struct Book {
    book: AddressBook,
    store: SqliteStore,
}

async fn new_book() -> Book {
    // Same store configuration as `AddressBook::builder().spawn()` builds for itself; built here
    // so that the harness keeps a handle for resetting and for reading every entry.
    let store = SqliteStoreBuilder::new().build().await.expect("in-memory sqlite store");
    let book = AddressBook::builder()
        .store(store.clone())
        .spawn()
        .await
        .expect("address book actor");
    Book { book, store }
}

async fn reset(b: &Book, ids: &[NodeId]) -> Result<(), SqliteError> {
    p2panda_store::tx!(b.store, {
        for id in ids {
            AddressBookStore::<NodeId, NodeInfo>::remove_node_info(&b.store, id).await?;
        }
    });
    Ok(())
}

async fn observe(w: &World, b: &Book, result: Result<bool, String>) -> Obs {
    // N through the public API (actor round trip), everything through the store handle.
    let via_api = b.book.node_info(w.n).await.expect("address book rpc");
    let all: Vec<NodeInfo> = AddressBookStore::<NodeId, NodeInfo>::all_node_infos(&b.store)
        .await
        .expect("all_node_infos");
    let find = |id: &NodeId| all.iter().find(|i| &i.node_id == id);
    let n = match find(&w.n) {
        None => Stored::Absent,
        Some(i) => classify(w, i.transports.as_ref()),
    };
    let n_api = match &via_api {
        None => Stored::Absent,
        Some(i) => classify(w, i.transports.as_ref()),
    };
    let m = match find(&w.m) {
        None => Stored::Absent,
        Some(i) => classify(w, i.transports.as_ref()),
    };
    let mut strangers: Vec<String> = all
        .iter()
        .filter(|i| i.node_id != w.n && i.node_id != w.m)
        .map(|i| i.node_id.to_hex())
        .collect();
    if n_api != n {
        strangers.push(format!("node_info(N) via the actor says {n_api:?}, the store says {n:?}"));
    }
    Obs { result, n, m, strangers }
}

/// `pre`: N already has an entry from local configuration (bootstrap flag, no transports).
async fn run_case(w: &World, b: &Book, f: &mut Fold, seq: &[usize], pre: bool) {
    f.evals += 1;
    reset(b, &[w.n, w.m, w.x]).await.expect("reset");
    let mut exists_n = false;
    let mut exists_m = false;
    if pre {
        b.book
            .insert_node_info(NodeInfo::new(w.n).bootstrap())
            .await
            .expect("insert_node_info");
        exists_n = true;
    }
    let mut model = Lww::default();
    let mut refused = false;
    let replay = json!({"level": "address-book", "sequence": names(w, seq), "preconfigured_entry": pre});
    let mut last = (Stored::Absent, Stored::Absent);
    for (step, &i) in seq.iter().enumerate() {
        f.transitions += 1;
        let r = &w.recs[i];
        let target = if r.target == Target::N { w.n } else { w.m };
        let before = model.clone();
        let expect = model.deliver(w, i);
        if expect.is_ok() {
            match r.target {
                Target::N => exists_n = true,
                Target::M => exists_m = true,
            }
        }
        if !matches!(expect, Ok(true)) {
            refused = true;
        }
        let result = b
            .book
            .insert_transport_info(target, r.info.clone())
            .await
            .map_err(|e| e.to_string());
        f.outcomes.insert((i, result.is_ok(), result.as_ref().ok().copied()));
        let obs = observe(w, b, result).await;
        let (want_n, want_m) = (model.stored(Target::N, exists_n), model.stored(Target::M, exists_m));
        let hits = judge("address-book", w, i, &before, &model, expect, &want_n, &want_m, &obs);
        let bad = !hits.is_empty();
        for (key, what) in hits {
            f.violation(
                key,
                format!(
                    "sequence {:?}{}, step {step}: {what}",
                    names(w, seq),
                    if pre { " (N preconfigured without transports)" } else { "" }
                ),
                replay.clone(),
            );
        }
        last = (obs.n, obs.m);
        if bad {
            return;
        }
    }
    if refused {
        f.nontrivial += 1;
    }
    if !pre {
        f.differential("address-book", w, seq, &last.0, &last.1);
    }
    f.end_states.insert(last.clone());
    if f.samples.len() < 1 && seq.len() >= 3 && refused {
        f.samples.push(json!({"level": "address-book", "sequence": names(w, seq), "stored_for_N": show(w, &last.0), "stored_for_M": show(w, &last.1)}));
    }
}

fn all_sequences(n: usize, max_len: usize) -> Vec<Vec<usize>> {
    fn rec(n: usize, max_len: usize, cur: &mut Vec<usize>, out: &mut Vec<Vec<usize>>) {
        if !cur.is_empty() {
            out.push(cur.clone());
        }
        if cur.len() == max_len {
            return;
        }
        for i in 0..n {
            if !cur.contains(&i) {
                cur.push(i);
                rec(n, max_len, cur, out);
                cur.pop();
            }
        }
    }
    let mut out = vec![];
    rec(n, max_len, &mut vec![], &mut out);
    out
}

/// The records really are what the alphabet says (harness self-check, not a verdict).
fn self_check(w: &World) -> Result<(), String> {
    for r in &w.recs {
        let id = if r.target == Target::N { w.n } else { w.m };
        let ok = r.info.verify(&id).is_ok();
        if ok == r.forged.is_some() {
            // A forged record that verifies is a finding of the step-by-step oracle, not of this
            // self-check; only report alphabet construction mistakes for authentic ones.
            if r.forged.is_none() {
                return Err(format!("alphabet record {} does not verify for its own node", r.name));
            }
        }
    }
    let mut ts: Vec<_> = w.recs.iter().filter(|r| r.forged.is_none() && r.target == Target::N).map(|r| r.info.timestamp()).collect();
    ts.sort();
    ts.dedup();
    if ts.len() != 6 {
        return Err("expected exactly one pair of equal timestamps among the authentic records".into());
    }
    Ok(())
}

pub fn run(mut rep: Report) -> i32 {
    let thorough = rep.thorough();
    // len_pre: longest sequence also run with N preconfigured (entry without transports)
    let (len_direct, len_book, len_pre) = if thorough { (6, 5, 4) } else { (5, 3, 2) };
    let w = world();
    if let Err(e) = self_check(&w) {
        rep.machinery_error(e);
        return rep.finish();
    }
    rep.rule = format!(
        "alphabet of {} records for node N: authentic t=(1,0),(2,0),(2,0)' (equal timestamp, other address),(2,1),(3,0); trusted with N's id t=(2,5); forged: signed by another key, another node's authentic record, trusted info with another node's address, tampered timestamp (all t=(9,0)); an authentic record for node M. Every sequence without repetition of length <= {len_direct} on NodeInfo::update_transports (prefix-sharing DFS) and of length <= {len_book} through the real AddressBook actor from an empty book (plus length <= {} with N preconfigured); oracle after every delivery: result, is_newer flag and stored transports of N, M and any other entry equal a last-writer-wins register; differential table keyed by the set of delivered records; non-trivial = sequence prefix containing at least one delivery the register must refuse (forged or not newer)",
        w.recs.len(),
        len_pre
    );

    // (a)
    let t0 = std::time::Instant::now();
    let mut fa = Fold::default();
    let en = NodeInfo::new(w.n);
    let em = NodeInfo::new(w.m);
    dfs_node_info(&w, &mut fa, len_direct, &mut vec![], &en, &em, &Lww::default(), false);
    let direct_execs = fa.evals;
    let mut global = HashMap::new();
    fa.merge_into(&mut rep, "node-info", &w, &mut global);
    rep.part(json!({"part": "node-info", "sequence_prefixes": direct_execs, "max_len": len_direct, "wall_s": t0.elapsed().as_secs_f64()}));
    let t0 = std::time::Instant::now();

    // (b)
    let seqs = all_sequences(w.recs.len(), len_book);
    let threads = rep.args.threads.clamp(1, 8);
    let folds: Vec<Fold> = std::thread::scope(|s| {
        let hs: Vec<_> = (0..threads)
            .map(|t| {
                let seqs = &seqs;
                s.spawn(move || {
                    let w = world();
                    let rt = runtime();
                    let mut f = Fold::default();
                    rt.block_on(async {
                        let b = new_book().await;
                        for (idx, seq) in seqs.iter().enumerate() {
                            if idx % threads != t {
                                continue;
                            }
                            run_case(&w, &b, &mut f, seq, false).await;
                            if seq.len() < len_pre + 1 {
                                run_case(&w, &b, &mut f, seq, true).await;
                            }
                        }
                    });
                    f
                })
            })
            .collect();
        hs.into_iter().map(|h| h.join().expect("worker")).collect()
    });
    let mut book_cases = 0;
    let mut global = HashMap::new();
    for f in folds {
        book_cases += f.evals;
        f.merge_into(&mut rep, "address-book", &w, &mut global);
    }
    rep.part(json!({"part": "address-book", "cases": book_cases, "sequences": seqs.len(), "max_len": len_book, "max_len_preconfigured": len_pre, "workers": threads, "wall_s": t0.elapsed().as_secs_f64()}));
    let t0 = std::time::Instant::now();

    // (c) a fresh default-built book per sequence: the exact production constructor.
    let rt = runtime();
    let mut fc = Fold::default();
    // building a production book costs ~0.1 s (store with three connections, migrations, actor
    // thread): quick = every single record and every pair starting with a2; thorough = every
    // sequence of length <= 2
    let short: Vec<Vec<usize>> = all_sequences(w.recs.len(), 2)
        .into_iter()
        .filter(|s| thorough || s.len() == 1 || s[0] == A2)
        .collect();
    rt.block_on(async {
        for seq in &short {
            let book = AddressBook::builder().spawn().await.expect("address book");
            let mut model = Lww::default();
            fc.evals += 1;
            for &i in seq {
                fc.transitions += 1;
                let r = &w.recs[i];
                let target = if r.target == Target::N { w.n } else { w.m };
                let expect = model.deliver(&w, i);
                let got = book.insert_transport_info(target, r.info.clone()).await.map_err(|e| e.to_string());
                let stored = match book.node_info(w.n).await.expect("rpc") {
                    None => Stored::Absent,
                    Some(i) => classify(&w, i.transports.as_ref()),
                };
                let want = model.stored(Target::N, model.n.is_some());
                let flag_ok = match (&expect, &got) {
                    (Ok(a), Ok(b)) => a == b,
                    (Err(()), Err(_)) => true,
                    _ => false,
                };
                if !flag_ok || stored != want {
                    fc.violation(
                        "address-book/fresh-book-disagrees".into(),
                        format!(
                            "fresh AddressBook::builder().spawn(), sequence {:?}: delivering {} returned {got:?} and N holds {}, register says {expect:?} and {}",
                            names(&w, seq),
                            r.name,
                            show(&w, &stored),
                            show(&w, &want)
                        ),
                        json!({"level": "fresh-book", "sequence": names(&w, seq)}),
                    );
                }
            }
        }
    });
    let fresh = fc.evals;
    fc.merge_into(&mut rep, "fresh-book", &w, &mut HashMap::new());
    rep.part(json!({"part": "fresh-book", "cases": fresh, "max_len": 2, "wall_s": t0.elapsed().as_secs_f64()}));

    // Observation only (not part of the verdict): a record authentically signed by N whose
    // address names another node passes AuthenticatedTransportInfo::verify (signature only).
    {
        let kn = key(1);
        let odd: TransportInfo = signed(&kn, ts(4, 0), [addr(w.m, 1011)]).into();
        let mut e = NodeInfo::new(w.n);
        let r = e.update_transports(odd).map_err(|e| e.to_string());
        rep.set("observation_signed_by_N_with_address_of_M", json!(format!("{r:?}")));
    }
    rep.assume("records signed by N itself whose address names another node are outside the alphabet: the statement ties id matching to trusted records and authenticity to the signature; the observed behaviour is recorded in coverage.observation_signed_by_N_with_address_of_M");
    rep.assume("address-book part: one book per worker, entries of N, M and the forger are deleted through the store handle between cases (harness reset outside the code under test); a fresh production-built book per sequence is used for all single records and all pairs starting with a2 (thorough: all sequences of length <= 2)");
    rep.assume("insert_node_info (local configuration path, overwrites unconditionally) is out of scope of 'transport records'; it is only used to create the preconfigured entry");
    rep.assume("sqlx worker threads and the actor thread are not scheduled by the harness: every call is awaited to completion, the oracle does not depend on their timing");
    rep.finish()
}
