//! Checks on p2panda-net pieces that need no network: wire codec (C26), address book / node info
//! last-writer-wins register (C27), discovery backoff (C28) and the p2panda-net half of C18
//! (self-published transport records, dispatched as "C18N").
use explorer::{Args, Report};

mod c18net;
mod c26;
mod c27;
mod c28;
mod fixtures;

fn main() {
    let args = Args::parse();
    explorer::quiet_panics();
    let code = explorer::guard_main(&args.property, || match args.property.as_str() {
        "C26" => c26::run(Report::new(&args, "model_checking")),
        "C27" => c27::run(Report::new(&args, "model_checking")),
        "C28" => c28::run(Report::new(&args, "model_checking")),
        "C18N" => c18net::run(Report::new(&args, "model_checking")),
        other => {
            eprintln!("vh-net: unknown property {other}");
            2
        }
    });
    std::process::exit(code);
}
