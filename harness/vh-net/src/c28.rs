//! C28 Discovery backoff stays within its configured bounds.
//!
//! E-BFS over the *real* `p2panda-net/src/discovery/backoff.rs`.  The file is private and
//! self-contained, so it is compiled into this binary with `include!`.  It chooses its `Instant`
//! with `#[cfg(test)] use mock_instant::…::Instant; #[cfg(not(test))] use std::time::Instant;`.
//! A binary target has `cfg(test)` off, so the module that includes the file declares a sibling
//! module named `std` which re-exports the standard library unchanged except for
//! `std::time::Instant`, which is `mock_instant::thread_local::Instant` — exactly the type the
//! file's own `cfg(test)` arm selects.  Local items shadow the extern prelude, so the file's
//! `use std::time::Instant` binds to the mock clock and the harness owns the time.  Not one line
//! of the file is copied or edited; `bin/check` rebuilds it from /repo's working tree.
//!
//! Because the exploration code lives in the same module as the included items, the private
//! fields (`value`, `last_reset_at`, `reset_after`) are readable and a `Backoff` can be rebuilt
//! from a stored state (the struct is not `Clone`).
use std::time::Duration;

use explorer::bfs::{bfs, BfsCfg};
use explorer::{json, Report};

mod real {
    #![allow(dead_code, unused_imports)]
    /// `cfg(test)`-equivalent binding of the clock for the included file (see module docs).
    mod std {
        pub use ::std::*;
        pub mod time {
            pub use ::std::time::*;
            pub use mock_instant::thread_local::Instant;
        }
    }

    include!("/repo/p2panda-net/src/discovery/backoff.rs");

    // ---- harness-side accessors; same module => private fields reachable -------------------

    /// What the exploration observes of a `Backoff` (the fields the property speaks about).
    #[derive(Clone, Debug)]
    pub struct Snap {
        pub value: Duration,
        pub last_reset_at: Instant,
        pub reset_after: Duration,
    }

    pub fn config(
        initial: Duration,
        min_increment: Duration,
        max_increment: Duration,
        max_value: Duration,
        min_reset: Duration,
        max_reset: Duration,
    ) -> Config {
        Config {
            initial_value: initial,
            min_increment,
            max_increment,
            max_value,
            min_reset,
            max_reset,
        }
    }

    pub fn bounds(c: &Config) -> (Duration, Duration, Duration, Duration) {
        (c.initial_value, c.max_value, c.min_reset, c.max_reset)
    }

    pub fn snapshot(b: &Backoff) -> Snap {
        Snap {
            value: b.value,
            last_reset_at: b.last_reset_at,
            reset_after: b.reset_after,
        }
    }

    /// Hand the live object the configuration whose one-value ranges decide the next draws.  Only
    /// the `config` field is assigned: whatever other state the struct keeps stays as the real
    /// code left it.
    pub fn set_config(b: &mut Backoff, config: &Config) {
        b.config = config.clone();
    }

    /// Time since the last reset under the current mock clock reading.
    pub fn elapsed(s: &Snap) -> Duration {
        s.last_reset_at.elapsed()
    }
}

use mock_instant::thread_local::MockClock;
use rand::SeedableRng;
use rand_chacha::ChaCha20Rng;
use real::{Backoff, Config, Snap};

const MS: Duration = Duration::from_millis(1);

fn secs(s: u64) -> Duration {
    Duration::from_secs(s)
}

/// The fixed part of a configuration.  Increment `k` and reset interval `r` are chosen *per
/// action*: the real struct is rebuilt before every call with a `Config` whose increment range is
/// `k .. k+1ms` and whose reset range is `r .. r+1ms`.  `random_range` over a one-value range
/// returns that value whatever the ChaCha stream yields, so the harness — not the RNG — decides
/// every draw.  In part `fixed` k and r never change (a width-1 configuration); in part `mixed`
/// every action picks them freely, which enumerates every outcome sequence of the RNG for a
/// configuration with increment range {1,2,3,5} s and reset range {4,10} s.
#[derive(Clone, Copy, Debug, PartialEq, Eq, Hash)]
struct Base {
    initial: u64,
    max: u64,
}

fn real_config(b: Base, k: u64, r: u64) -> Config {
    real::config(secs(b.initial), secs(k), secs(k) + MS, secs(b.max), secs(r), secs(r) + MS)
}

#[derive(Clone, Copy, Debug, PartialEq, Eq, Hash, PartialOrd, Ord)]
enum Act {
    /// `increment()` drawing increment `k`; if it resets, the new interval drawn is `r`.
    Increment { k: u64, r: u64 },
    /// `reset()` drawing interval `r`.
    Reset { r: u64 },
    /// Advance the clock by this many seconds.
    Advance(u64),
}

impl Act {
    fn name(&self) -> String {
        match self {
            Act::Increment { k, r } => format!("increment(+{k}s, next interval {r}s)"),
            Act::Reset { r } => format!("reset(interval {r}s)"),
            Act::Advance(d) => format!("advance({d}s)"),
        }
    }
    fn class(&self) -> &'static str {
        match self {
            Act::Increment { .. } => "increment",
            Act::Reset { .. } => "reset",
            Act::Advance(_) => "advance",
        }
    }
}

#[derive(Clone)]
struct St {
    snap: Snap,
    /// Mock clock reading at which this state was reached.
    now: Duration,
    /// Cached: time since the last reset (canonical key component).
    elapsed: Duration,
    /// The interval drawn by `Backoff::new` and the actions that led here: a state *is* the history
    /// reaching it.  The struct is not `Clone`, and rebuilding it field by field would tie the
    /// harness to its private layout (and silently drop any state a later version adds), so every
    /// transition replays the history on a fresh `Backoff::new`.
    first_r: u64,
    path: Vec<Act>,
}

/// One action on the live object; returns the new clock reading.
fn step(b: Base, bo: &mut Backoff, now: Duration, a: Act) -> Duration {
    match a {
        Act::Increment { k, r } => {
            real::set_config(bo, &real_config(b, k, r));
            bo.increment();
            now
        }
        Act::Reset { r } => {
            real::set_config(bo, &real_config(b, 1, r));
            bo.reset();
            now
        }
        Act::Advance(d) => {
            MockClock::set_time(now + secs(d));
            now + secs(d)
        }
    }
}

/// A fresh real `Backoff` driven through `path`.
fn materialize(b: Base, first_r: u64, path: &[Act]) -> (Backoff, Duration) {
    let mut now = secs(1000);
    MockClock::set_time(now);
    let mut bo = Backoff::new(real_config(b, 1, first_r), ChaCha20Rng::from_seed([7; 32]));
    for a in path {
        now = step(b, &mut bo, now, *a);
    }
    (bo, now)
}

fn apply(b: Base, s: &St, a: Act) -> St {
    let (mut bo, now) = materialize(b, s.first_r, &s.path);
    let now = step(b, &mut bo, now, a);
    let snap = real::snapshot(&bo);
    let elapsed = real::elapsed(&snap);
    let mut path = s.path.clone();
    path.push(a);
    St { snap, now, elapsed, first_r: s.first_r, path }
}

fn initial_state(b: Base, _k: u64, r: u64) -> St {
    let (bo, now) = materialize(b, r, &[]);
    let snap = real::snapshot(&bo);
    let elapsed = real::elapsed(&snap);
    St { snap, now, elapsed, first_r: r, path: vec![] }
}

fn fmt_path(p: &[Act]) -> String {
    p.iter().map(|a| a.name()).collect::<Vec<_>>().join(", ")
}

/// Re-execute a path on a fresh `Backoff` and list the value after every step (for the report).
fn trace_values(b: Base, first_r: u64, path: &[Act]) -> Vec<String> {
    let mut s = initial_state(b, 1, first_r);
    let mut out = vec![format!("new: value={:?} reset_after={:?}", s.snap.value, s.snap.reset_after)];
    for a in path {
        s = apply(b, &s, *a);
        out.push(format!("{}: value={:?} elapsed={:?} reset_after={:?}", a.name(), s.snap.value, s.elapsed, s.snap.reset_after));
    }
    out
}

struct Hit {
    key: String,
    what: String,
    path: Vec<Act>,
    part: &'static str,
    base: Base,
    first_r: u64,
    /// increment larger than the room between initial and maximum (an unusual configuration)
    odd: bool,
}

/// One exploration: `first_rs` are the possible interval draws of `Backoff::new`.
fn explore(rep: &mut Report, part: &'static str, b: Base, first_rs: &[u64], acts: &[Act], depth: usize) -> Vec<Hit> {
    let initial = secs(b.initial);
    let max = secs(b.max);
    let mut found: Vec<(String, String, Vec<Act>, bool)> = vec![];
    let mut transitions = 0u64;
    let mut nontrivial: Vec<(Duration, Duration, Duration, Act)> = vec![];
    let mut states: Vec<(Duration, Duration, Duration)> = vec![];
    let mut outcomes: std::collections::BTreeSet<(bool, bool, bool)> = Default::default();
    let mut all_hits = vec![];
    for &first_r in first_rs {
        let stats = bfs(
            &BfsCfg { max_depth: depth, ..Default::default() },
            vec![initial_state(b, 1, first_r)],
            // Canonical key: the three quantities `increment`/`reset` read.  The absolute clock
            // reading only enters through `last_reset_at.elapsed()`; the ChaCha state is
            // irrelevant because every range handed to it has exactly one value.
            |s: &St| (s.snap.value, s.elapsed, s.snap.reset_after),
            |s, _| acts.iter().map(|a| (*a, apply(b, s, *a))).collect(),
            |parent, label, child, is_new, path| {
                if is_new {
                    states.push((child.snap.value, child.elapsed, child.snap.reset_after));
                }
                let v = child.snap.value;
                let Some(parent) = parent else {
                    if v != initial {
                        found.push(("new-not-at-initial".into(), format!("Backoff::new leaves value {v:?}, configured initial {initial:?}"), vec![], false));
                    }
                    return;
                };
                let a = *label.unwrap();
                transitions += 1;
                let pv = parent.snap.value;
                let due = parent.elapsed >= parent.snap.reset_after;
                let is_inc = matches!(a, Act::Increment { .. });
                let (k, odd) = match a {
                    Act::Increment { k, .. } => (secs(k), k > b.max - b.initial),
                    _ => (Duration::ZERO, false),
                };
                if is_inc && (due || pv >= max || pv + k > max) {
                    nontrivial.push((pv, parent.elapsed, parent.snap.reset_after, a));
                }
                outcomes.insert((v < initial, v > max, is_inc && due));
                // (1) never below the initial value
                if v < initial {
                    found.push((format!("value-below-initial/after-{}", a.class()), format!("value {v:?} is below the configured initial value {initial:?}"), path(), odd));
                }
                // (2) never above the configured maximum (reported where the value changes)
                if v > max && !matches!(a, Act::Advance(_)) {
                    let key = match a {
                        Act::Increment { .. } if pv < max => "value-above-max/overshoot-by-last-increment",
                        Act::Increment { .. } => "value-above-max/not-clamped-by-next-increment",
                        _ => "value-above-max/after-reset",
                    };
                    found.push((key.into(), format!("value {v:?} exceeds the configured maximum {max:?} (value before the call: {pv:?})"), path(), odd));
                }
                // (3) once the reset interval has elapsed, the next increment returns to initial
                if is_inc && due && v != initial {
                    let class = if parent.elapsed == parent.snap.reset_after { "elapsed-equals-interval" } else { "elapsed-exceeds-interval" };
                    found.push((
                        format!("not-reset-after-interval/{class}"),
                        format!("{:?} have elapsed since the last reset (interval {:?}) but increment left value {v:?}, initial is {initial:?}", parent.elapsed, parent.snap.reset_after),
                        path(),
                        odd,
                    ));
                }
                // (4) an explicit reset returns to the initial value
                if matches!(a, Act::Reset { .. }) && v != initial {
                    found.push(("reset-not-at-initial".into(), format!("reset() left value {v:?}, initial is {initial:?}"), path(), odd));
                }
            },
        );
        if stats.capped {
            rep.not_exhaustive("bfs cap hit");
        }
        // keep at most a few hits per key and exploration (one defect, many states); BFS order
        // makes the first ones the shortest
        let mut per_key = std::collections::BTreeMap::<String, usize>::new();
        for (key, what, path, odd) in found.drain(..) {
            let n = per_key.entry(key.clone()).or_insert(0);
            *n += 1;
            if *n <= 3 {
                all_hits.push(Hit { key, what, path, part, base: b, first_r, odd });
            }
        }
    }
    // every transition is one call of the real increment()/reset() on a Backoff replayed from new()
    rep.evals(transitions);
    rep.transitions += transitions;
    for s in states {
        rep.state(&(part, b, s));
    }
    for n in nontrivial {
        rep.nontrivial(&(part, b, n));
    }
    for o in outcomes {
        rep.outcome(&o);
    }
    all_hits
}

/// One violation per key: the shortest action path, preferring configurations whose increment
/// fits between initial and maximum (the ordinary way to configure a backoff) and part `fixed`.
fn report_hits(rep: &mut Report, hits: Vec<Hit>) {
    use std::collections::BTreeMap;
    let mut by_key: BTreeMap<String, (u64, Hit)> = BTreeMap::new();
    let rank = |h: &Hit| (h.odd, h.part != "fixed", h.path.len());
    for h in hits {
        match by_key.get_mut(&h.key) {
            None => {
                by_key.insert(h.key.clone(), (1, h));
            }
            Some(e) => {
                e.0 += 1;
                if rank(&h) < rank(&e.1) {
                    e.1 = h;
                }
            }
        }
    }
    for (key, (count, h)) in by_key {
        let tr = trace_values(h.base, h.first_r, &h.path);
        for _ in 0..count {
            rep.violation(
                key.clone(),
                format!(
                    "config initial={}s max={}s (part {}), actions [{}]: {}; trace: {}",
                    h.base.initial,
                    h.base.max,
                    h.part,
                    fmt_path(&h.path),
                    h.what,
                    tr.join(" | ")
                ),
                json!({
                    "part": h.part,
                    "config": {"initial_s": h.base.initial, "max_s": h.base.max, "first_reset_interval_s": h.first_r},
                    "actions": h.path.iter().map(|a| a.name()).collect::<Vec<_>>(),
                }),
            );
        }
    }
}

/// Default configuration under concrete ChaCha seeds: sampling, labelled as such, never deciding.
fn sampling(rep: &mut Report) {
    let cfg = Config::default();
    let (initial, max, _, _) = real::bounds(&cfg);
    let mut above = 0u64;
    let mut below = 0u64;
    let mut worst = Duration::ZERO;
    let mut first: Option<(u64, usize, Duration)> = None;
    for i in 0..16u64 {
        let mut seed = [0u8; 32];
        let base = (rep.args.seed as u64).wrapping_mul(0x9E37_79B9_7F4A_7C15).wrapping_add(i);
        for (j, b) in seed.iter_mut().enumerate() {
            *b = (base.rotate_left((j as u32 * 7) % 64) as u8) ^ (j as u8);
        }
        MockClock::set_time(secs(1000));
        let mut b = Backoff::new(cfg.clone(), ChaCha20Rng::from_seed(seed));
        for step in 0..200usize {
            b.increment();
            let v = real::snapshot(&b).value;
            if v > max {
                above += 1;
                worst = worst.max(v);
                first.get_or_insert((i, step + 1, v));
            }
            if v < initial {
                below += 1;
            }
        }
    }
    rep.set(
        "sampling_default_config",
        json!({
            "label": "SAMPLING, not deciding: Config::default() (increment 1..5 s, max 30 s), 16 ChaCha seeds derived from VERIF_SEED x 200 increments, clock not advanced",
            "observations_above_max": above,
            "observations_below_initial": below,
            "largest_value_ms": worst.as_millis() as u64,
            "first_above_max": first.map(|(s, n, v)| json!({"seed_index": s, "after_increments": n, "value_ms": v.as_millis() as u64})),
        }),
    );
}

pub fn run(mut rep: Report) -> i32 {
    let thorough = rep.thorough();
    let depth = if thorough { 16 } else { 8 };
    let depth_mixed = if thorough { 10 } else { 6 };
    const KS: [u64; 4] = [1, 2, 3, 5];
    const RS: [u64; 2] = [4, 10];
    rep.rule = format!(
        "part fixed: E-BFS per configuration (initial in {{0,1,2}} s) x (increment k in {{1,2,3,5}} s) x (max in {{3,5,7}} s) x (reset interval r in {{4,10}} s), ranges of width 1 ms so increments and intervals are exact; actions {{increment, reset, advance clock by 0, r-1, r, r+1 s}}; depth <= {depth}.  part mixed: per (initial, max) every action draws its own increment from {{1,2,3,5}} s and reset interval from {{4,10}} s (the harness decides every RNG draw by handing the real code a one-value range), actions {{increment(k,r), reset(r), advance by 3,4,5,9,10,11 s}}; depth <= {depth_mixed}.  States canonicalised by (value, time since last reset, reset_after); invariants evaluated on every transition; non-trivial = an increment taken at or across the maximum, or when the reset interval has elapsed"
    );
    let mut hits: Vec<Hit> = vec![];
    let mut explorations = 0u64;
    for initial in [0u64, 1, 2] {
        for max in [3u64, 5, 7] {
            let b = Base { initial, max };
            for k in KS {
                for r in RS {
                    explorations += 1;
                    let acts = [
                        Act::Increment { k, r },
                        Act::Reset { r },
                        Act::Advance(0),
                        Act::Advance(r - 1),
                        Act::Advance(r),
                        Act::Advance(r + 1),
                    ];
                    hits.extend(explore(&mut rep, "fixed", b, &[r], &acts, depth));
                }
            }
            explorations += 1;
            let mut acts = vec![];
            for k in KS {
                for r in RS {
                    acts.push(Act::Increment { k, r });
                }
            }
            for r in RS {
                acts.push(Act::Reset { r });
            }
            for d in [3, 4, 5, 9, 10, 11] {
                acts.push(Act::Advance(d));
            }
            hits.extend(explore(&mut rep, "mixed", b, &RS, &acts, depth_mixed));
        }
    }
    report_hits(&mut rep, hits);
    rep.set("explorations", json!(explorations));
    rep.set("depth_fixed", json!(depth));
    rep.set("depth_mixed", json!(depth_mixed));
    if rep.want_sample() {
        let b = Base { initial: 0, max: 5 };
        let p = [Act::Increment { k: 2, r: 4 }, Act::Increment { k: 2, r: 4 }, Act::Advance(4), Act::Increment { k: 2, r: 4 }];
        rep.sample(json!({"config": format!("{b:?}"), "actions": fmt_path(&p), "trace": trace_values(b, 4, &p)}));
        let b = Base { initial: 1, max: 7 };
        let p = [Act::Increment { k: 3, r: 10 }, Act::Increment { k: 1, r: 4 }, Act::Increment { k: 2, r: 10 }, Act::Reset { r: 4 }];
        rep.sample(json!({"config": format!("{b:?}"), "actions": fmt_path(&p), "trace": trace_values(b, 10, &p)}));
    }
    sampling(&mut rep);
    rep.assume("the real backoff.rs is compiled with std::time::Instant bound to mock_instant::thread_local::Instant (what the file's own cfg(test) arm selects); the harness sets every clock reading");
    rep.assume("the ChaCha stream is never the deciding dimension: every range handed to random_range has exactly one value (width 1 ms), chosen by the harness per action by assigning the live object's config field before the call; a state is reached by replaying its action history on a fresh Backoff::new (no field-by-field reconstruction); default-config runs under concrete seeds are reported separately as sampling and decide nothing");
    rep.assume("'returns to the initial value once the reset interval has elapsed' is read as the code documents it: the reset is applied by the first increment() called after the interval");
    rep.finish()
}
