//! C26 Wire framing decodes exactly the encoded message sequence.
//!
//! E-ENUM on the public `p2panda_net::codec::Codec` (plus `into_codec_stream/into_codec_sink`):
//! for several message types (real sync wire messages, operation tuples, strings, a harness enum,
//! the unit type) every sequence of length <= 3 over a small alphabet is encoded with the real
//! `Encoder`, compared with the documented wire format (4-byte big-endian length + postcard),
//! cut at every set of cut positions inside the bound and decoded chunk by chunk (a) by calling
//! `Decoder::decode` on a growing buffer and (b) by the real `tokio_util::codec::FramedRead` over
//! an `AsyncRead` that hands out exactly one chunk per `poll_read` (optionally `Pending` first).
//! `max_frame_len = L` is explored with frames of size L-1, L, L+1 on encode and decode.
use std::cell::Cell;
use std::collections::{BTreeMap, BTreeSet};
use std::fmt::Debug;
use std::io;
use std::pin::Pin;
use std::rc::Rc;
use std::sync::Arc;
use std::task::{Context, Poll, Waker};
use std::time::{Duration, Instant};

use explorer::task::Flag;
use explorer::{json, Report, Value};
use futures_util::{SinkExt, Stream, StreamExt};
use p2panda_core::{Body, Header};
use p2panda_net::codec::{into_codec_sink, into_codec_stream, Codec, CodecError};
use p2panda_sync::protocols::{LogSyncMessage, TopicLogSyncMessage};
use serde::de::DeserializeOwned;
use serde::{Deserialize, Serialize};
use tokio::io::{AsyncRead, AsyncWrite, ReadBuf};
use tokio_util::bytes::{BufMut, BytesMut};
use tokio_util::codec::{Decoder, Encoder, FramedRead, FramedWrite};

use crate::fixtures::key;

pub trait Msg: Serialize + DeserializeOwned + PartialEq + Clone + Debug + Send + Sync + 'static {}
impl<T> Msg for T where T: Serialize + DeserializeOwned + PartialEq + Clone + Debug + Send + Sync + 'static {}

// ---------------------------------------------------------------------------------------------
// Alphabets
// ---------------------------------------------------------------------------------------------

type TopicMsg = TopicLogSyncMessage<u64, ()>;
type LogMsg = LogSyncMessage<u64>;
type OpTuple = (Header<()>, Option<Body>);

#[derive(Clone, Debug, PartialEq, Serialize, Deserialize)]
enum Harness {
    Unit,
    Small(u8),
    Pair(u32, bool),
    Bytes(Vec<u8>),
    Text(String),
    Nested(Option<Box<Harness>>),
}

fn operation(seq_num: u32, body: &[u8]) -> OpTuple {
    let k = key(9);
    let body = Body::new(body);
    let mut header = Header::<()> {
        version: 1,
        verifying_key: k.verifying_key(),
        signature: None,
        payload_size: body.size(),
        payload_hash: if body.size() == 0 { None } else { Some(body.hash()) },
        seq_num,
        backlink: if seq_num == 0 { None } else { Some(p2panda_core::Hash::digest(b"previous operation")) },
        extensions: (),
    };
    header.sign(&k);
    (header, if body.size() == 0 { None } else { Some(body) })
}

fn heights(n: u32) -> BTreeMap<p2panda_core::VerifyingKey, BTreeMap<u64, u32>> {
    let mut m = BTreeMap::new();
    for i in 0..n {
        m.insert(key(20 + i as u8).verifying_key(), BTreeMap::from([(7u64, i), (u64::MAX, 2)]));
    }
    m
}

fn alphabet_topic() -> Vec<TopicMsg> {
    let (h0, b0) = operation(0, b"");
    let (h1, b1) = operation(0, &[0xAB; 300]);
    vec![
        TopicMsg::Close,
        TopicMsg::Sync(LogSyncMessage::Done),
        TopicMsg::Sync(LogSyncMessage::PreSync { total_operations: 3, total_bytes: 70_000 }),
        TopicMsg::Sync(LogSyncMessage::Have(heights(1))),
        TopicMsg::Live(h0, b0),
        TopicMsg::Live(h1, b1),
    ]
}

fn alphabet_log() -> Vec<LogMsg> {
    let (h0, _) = operation(0, b"");
    let (h1, b1) = operation(0, &[0xCD; 300]);
    vec![
        LogMsg::Done,
        LogMsg::PreSync { total_operations: 0, total_bytes: 0 },
        LogMsg::Have(heights(0)),
        LogMsg::Have(heights(2)),
        LogMsg::Operation(h0.to_bytes(), None),
        LogMsg::Operation(h1.to_bytes(), b1.map(|b| b.to_bytes())),
    ]
}

fn alphabet_ops() -> Vec<OpTuple> {
    vec![operation(0, b""), operation(0, &[0xEF; 300]), operation(1, b"x")]
}

fn alphabet_strings() -> Vec<String> {
    vec![
        String::new(),
        "a".into(),
        "hello".into(),
        "aquariums".into(),
        "x".repeat(126), // frame of 127 bytes, one-byte varint
        "y".repeat(128), // two-byte postcard varint, frame of 130 bytes
    ]
}

fn alphabet_harness() -> Vec<Harness> {
    vec![
        Harness::Unit,
        Harness::Small(0),
        Harness::Pair(u32::MAX, true),
        Harness::Bytes(vec![0, 0, 0, 6, 5, 104]), // payload that looks like a frame header
        Harness::Text("häll√".into()),
        Harness::Nested(Some(Box::new(Harness::Nested(None)))),
    ]
}

// ---------------------------------------------------------------------------------------------
// Reference wire format (module docs of codec.rs): 4-byte big-endian length, postcard body.
// ---------------------------------------------------------------------------------------------

fn body_of<M: Msg>(m: &M) -> Vec<u8> {
    postcard::to_allocvec(m).expect("postcard serialises every alphabet message")
}

fn frame_of<M: Msg>(m: &M) -> Vec<u8> {
    let body = body_of(m);
    let mut out = (body.len() as u32).to_be_bytes().to_vec();
    out.extend_from_slice(&body);
    out
}

// ---------------------------------------------------------------------------------------------
// Chunked reader / writer and the poll driver
// ---------------------------------------------------------------------------------------------

#[derive(Clone, Copy, Debug, PartialEq, Eq, Hash, PartialOrd, Ord)]
enum EndMode {
    /// After the last chunk the reader reports end of stream.
    Eof,
    /// After the last chunk the reader stays `Pending` and never wakes (more bytes may come).
    Stall,
}

#[derive(Default)]
struct Shared {
    handed: Cell<usize>,
}

struct ChunkReader {
    data: Arc<Vec<u8>>,
    /// Exclusive end offsets of the chunks, ascending, last = number of bytes served.
    ends: Vec<usize>,
    idx: usize,
    pos: usize,
    /// Bit i set: return `Pending` (with a wake) once before serving chunk i.
    pending_mask: u64,
    pended: bool,
    end: EndMode,
    shared: Rc<Shared>,
}

impl AsyncRead for ChunkReader {
    fn poll_read(mut self: Pin<&mut Self>, cx: &mut Context<'_>, buf: &mut ReadBuf<'_>) -> Poll<io::Result<()>> {
        let this = &mut *self;
        if this.idx >= this.ends.len() {
            return match this.end {
                EndMode::Eof => Poll::Ready(Ok(())),
                EndMode::Stall => Poll::Pending,
            };
        }
        if this.pending_mask >> (this.idx.min(63)) & 1 == 1 && !this.pended {
            this.pended = true;
            cx.waker().wake_by_ref();
            return Poll::Pending;
        }
        let end = this.ends[this.idx];
        let take = (end - this.pos).min(buf.remaining());
        buf.put_slice(&this.data[this.pos..this.pos + take]);
        this.pos += take;
        if this.pos == end {
            this.idx += 1;
            this.pended = false;
        }
        this.shared.handed.set(this.pos);
        Poll::Ready(Ok(()))
    }
}

/// Writer accepting at most `per_write` bytes per call, optionally `Pending` before every write.
struct ChunkWriter {
    out: Rc<std::cell::RefCell<Vec<u8>>>,
    per_write: usize,
    pend: bool,
    pended: bool,
}

impl AsyncWrite for ChunkWriter {
    fn poll_write(mut self: Pin<&mut Self>, cx: &mut Context<'_>, buf: &[u8]) -> Poll<io::Result<usize>> {
        if self.pend && !self.pended {
            self.pended = true;
            cx.waker().wake_by_ref();
            return Poll::Pending;
        }
        self.pended = false;
        let n = buf.len().min(self.per_write);
        self.out.borrow_mut().extend_from_slice(&buf[..n]);
        Poll::Ready(Ok(n))
    }
    fn poll_flush(self: Pin<&mut Self>, _: &mut Context<'_>) -> Poll<io::Result<()>> {
        Poll::Ready(Ok(()))
    }
    fn poll_shutdown(self: Pin<&mut Self>, _: &mut Context<'_>) -> Poll<io::Result<()>> {
        Poll::Ready(Ok(()))
    }
}

#[derive(Clone, Debug, PartialEq, Eq, Hash, PartialOrd, Ord)]
enum ErrKind {
    TooLarge(usize, usize),
    Postcard(String),
    Io(String),
    Panic(String),
}

impl ErrKind {
    fn class(&self) -> &'static str {
        match self {
            ErrKind::TooLarge(..) => "too-large",
            ErrKind::Postcard(_) => "postcard",
            ErrKind::Io(_) => "io",
            ErrKind::Panic(_) => "panic",
        }
    }
}

fn err_kind(e: CodecError) -> ErrKind {
    match e {
        CodecError::TooLargeMessage(a, b) => ErrKind::TooLarge(a, b),
        CodecError::Postcard(e) => ErrKind::Postcard(e.to_string()),
        CodecError::Io(e) => ErrKind::Io(e.to_string()),
    }
}

#[derive(Clone, Copy, Debug, PartialEq, Eq, Hash, PartialOrd, Ord)]
enum End {
    /// Stream returned `None` / direct loop consumed everything.
    Finished,
    /// Stream is `Pending` without a wake-up / direct loop has an incomplete rest.
    Stalled,
    /// Poll / iteration budget exhausted.
    Budget,
}

struct Run<M> {
    /// Decoded message and the number of input bytes handed over when it was produced.
    items: Vec<(M, usize)>,
    error: Option<(ErrKind, usize)>,
    after_error: usize,
    end: End,
    /// `decode` returned `None` but changed the buffer.
    consumed_on_none: bool,
    steps: u64,
}

fn drive<M>(mut stream: impl Stream<Item = Result<M, CodecError>> + Unpin, shared: &Shared, budget: usize) -> Run<M> {
    let flag = Flag::new(false);
    let waker = Waker::from(flag.clone());
    let mut cx = Context::from_waker(&waker);
    let mut run = Run { items: vec![], error: None, after_error: 0, end: End::Budget, consumed_on_none: false, steps: 0 };
    for _ in 0..budget {
        flag.clear();
        run.steps += 1;
        match stream.poll_next_unpin(&mut cx) {
            Poll::Ready(Some(Ok(m))) => {
                if run.error.is_some() {
                    run.after_error += 1;
                } else {
                    run.items.push((m, shared.handed.get()));
                }
            }
            Poll::Ready(Some(Err(e))) => {
                if run.error.is_none() {
                    run.error = Some((err_kind(e), shared.handed.get()));
                } else {
                    run.after_error += 1;
                }
            }
            Poll::Ready(None) => {
                run.end = End::Finished;
                return run;
            }
            Poll::Pending => {
                if !flag.is_woken() {
                    run.end = End::Stalled;
                    return run;
                }
            }
        }
    }
    run
}

fn codec<M>(max: Option<usize>) -> Codec<M> {
    match max {
        Some(l) => Codec::<M>::new().max_frame_len(l),
        None => Codec::<M>::new(),
    }
}

fn run_framed<M: Msg>(data: &Arc<Vec<u8>>, ends: &[usize], pending_mask: u64, end: EndMode, max: Option<usize>) -> Run<M> {
    let shared = Rc::new(Shared::default());
    let reader = ChunkReader {
        data: data.clone(),
        ends: ends.to_vec(),
        idx: 0,
        pos: 0,
        pending_mask,
        pended: false,
        end,
        shared: shared.clone(),
    };
    let budget = 6 * (ends.len() + 8) + data.len() / 2;
    let r = explorer::catch(|| match max {
        // the public constructor used by p2panda-net itself
        None => drive(into_codec_stream::<M, _>(reader), &shared, budget),
        Some(_) => drive(FramedRead::new(reader, codec::<M>(max)), &shared, budget),
    });
    r.unwrap_or_else(|p| Run {
        items: vec![],
        error: Some((ErrKind::Panic(p), shared.handed.get())),
        after_error: 0,
        end: End::Finished,
        consumed_on_none: false,
        steps: 0,
    })
}

fn run_direct<M: Msg>(data: &[u8], ends: &[usize], max: Option<usize>) -> Run<M> {
    let mut run = Run { items: vec![], error: None, after_error: 0, end: End::Finished, consumed_on_none: false, steps: 0 };
    let r = explorer::catch(|| {
        let mut c = codec::<M>(max);
        let mut buf = BytesMut::new();
        let mut pos = 0;
        'chunks: for &e in ends {
            buf.extend_from_slice(&data[pos..e]);
            pos = e;
            let mut guard = buf.len() + 2;
            loop {
                run.steps += 1;
                let before = buf.len();
                match c.decode(&mut buf) {
                    Ok(Some(m)) => run.items.push((m, pos)),
                    Ok(None) => {
                        if buf.len() != before {
                            run.consumed_on_none = true;
                        }
                        break;
                    }
                    Err(e) => {
                        run.error = Some((err_kind(e), pos));
                        break 'chunks;
                    }
                }
                guard -= 1;
                if guard == 0 {
                    run.end = End::Budget;
                    break 'chunks;
                }
            }
        }
        if run.end != End::Budget && run.error.is_none() && !buf.is_empty() {
            run.end = End::Stalled;
        }
    });
    if let Err(p) = r {
        run.error = Some((ErrKind::Panic(p), 0));
    }
    run
}

// ---------------------------------------------------------------------------------------------
// Oracle for honest input
// ---------------------------------------------------------------------------------------------

struct Case<'a, M> {
    msgs: Vec<&'a M>,
    frame_ends: Vec<usize>,
}

/// `served` = number of bytes of the honest stream that are handed over in total (== stream
/// length unless truncated).  Returns (key, explanation).
fn judge<M: Msg>(path: &str, case: &Case<M>, ends: &[usize], served: usize, end_mode: EndMode, run: &Run<M>) -> Option<(String, String)> {
    let complete = case.frame_ends.iter().filter(|e| **e <= served).count();
    let total = *case.frame_ends.last().unwrap_or(&0);
    if let Some((e, at)) = &run.error {
        // A truncated stream that *ends* is an I/O error of the framing layer; anything else is
        // an error on valid input.
        let truncated_eof = end_mode == EndMode::Eof && served < total && !case.frame_ends.contains(&served) && matches!(e, ErrKind::Io(_));
        if !truncated_eof {
            return Some((
                format!("decode/error-on-valid-input/{}", e.class()),
                format!("{path}: error {e:?} after {at} of {served} valid bytes"),
            ));
        }
    }
    if run.after_error > 0 {
        return Some(("decode/items-after-error".into(), format!("{path}: {} items after the error", run.after_error)));
    }
    for (i, (m, _)) in run.items.iter().enumerate() {
        match case.msgs.get(i) {
            None => {
                return Some((
                    "decode/extra-message".into(),
                    format!("{path}: decoded {} messages from {} encoded ones; extra: {m:?}", run.items.len(), case.msgs.len()),
                ));
            }
            Some(want) if *want != m => {
                let dup = i > 0 && case.msgs[i - 1] == m;
                return Some((
                    if dup { "decode/message-duplicated".into() } else { "decode/wrong-message".into() },
                    format!("{path}: message #{i} decoded as {m:?}, encoded was {want:?}"),
                ));
            }
            _ => {}
        }
    }
    if run.items.len() > complete {
        return Some((
            "decode/message-from-incomplete-frame".into(),
            format!("{path}: {} messages decoded but only {complete} frames are complete in the {served} bytes served", run.items.len()),
        ));
    }
    if run.items.len() < complete {
        return Some((
            "decode/message-lost".into(),
            format!("{path}: {complete} complete frames served, only {} messages decoded (end: {:?})", run.items.len(), run.end),
        ));
    }
    // nothing early, nothing late: message i appears with the first chunk that completes its frame
    for (i, (_, at)) in run.items.iter().enumerate() {
        let due = ends.iter().copied().find(|e| *e >= case.frame_ends[i]).unwrap_or(served);
        if *at != due {
            return Some((
                if *at > due { "decode/message-late".into() } else { "decode/message-early".into() },
                format!("{path}: message #{i} (frame ends at byte {}) was produced after {at} bytes, its frame was complete after {due}", case.frame_ends[i]),
            ));
        }
    }
    if run.consumed_on_none {
        return Some(("decode/consumed-on-incomplete".into(), format!("{path}: decode returned None but changed the buffer")));
    }
    let incomplete_rest = served > case.frame_ends.iter().copied().filter(|e| *e <= served).max().unwrap_or(0);
    let want_end = if path == "decode" {
        if incomplete_rest { End::Stalled } else { End::Finished }
    } else if run.error.is_some() {
        End::Finished
    } else {
        match end_mode {
            EndMode::Eof => End::Finished,
            EndMode::Stall => End::Stalled,
        }
    };
    if run.end != want_end {
        return Some((
            format!("decode/{}", match run.end { End::Budget => "livelock", End::Stalled => "stalled-with-complete-input", End::Finished => "finished-early" }),
            format!("{path}: run ended {:?}, expected {want_end:?} ({served} bytes served, {complete} complete frames)", run.end),
        ));
    }
    None
}

// ---------------------------------------------------------------------------------------------
// Per-family exploration
// ---------------------------------------------------------------------------------------------

#[derive(Default)]
struct Fold {
    evals: u64,
    transitions: u64,
    nontrivial: u64,
    outcomes: BTreeSet<(u8, usize, Option<ErrKind>, End)>,
    violations: BTreeMap<String, (u64, String, Value)>,
    samples: Vec<Value>,
    capped: bool,
    seqs: u64,
    cutsets: u64,
    max_bytes: usize,
}

impl Fold {
    fn violation(&mut self, key: String, what: String, replay: Value) {
        let e = self.violations.entry(key).or_insert((0, what, replay));
        e.0 += 1;
    }
    fn absorb(&mut self, o: Fold) {
        self.evals += o.evals;
        self.transitions += o.transitions;
        self.nontrivial += o.nontrivial;
        self.outcomes.extend(o.outcomes);
        for (k, (c, w, r)) in o.violations {
            let e = self.violations.entry(k).or_insert((0, w, r));
            e.0 += c;
        }
        self.samples.extend(o.samples);
        self.capped |= o.capped;
        self.seqs += o.seqs;
        self.cutsets += o.cutsets;
        self.max_bytes = self.max_bytes.max(o.max_bytes);
    }
}

struct Bounds {
    max_len: usize,
    /// all pairs of cut positions for byte strings up to this length …
    pairs_all_upto: usize,
    /// … beyond it: pairs from the positions within this distance of a frame boundary (+ mid-frame)
    near: usize,
    /// … plus every `stride`-th position (0 = none)
    stride: usize,
    /// all subsets of cut positions for byte strings up to this length
    subsets_upto: usize,
    /// all pending masks (<= 3 chunks) for byte strings up to this length, else {none, all}
    masks_all_upto: usize,
    deadline: Instant,
}

fn seq_indices(alpha: usize, max_len: usize) -> Vec<Vec<usize>> {
    let mut out = vec![];
    for len in 1..=max_len {
        for mut code in 0..alpha.pow(len as u32) {
            let mut s = Vec::with_capacity(len);
            for _ in 0..len {
                s.push(code % alpha);
                code /= alpha;
            }
            out.push(s);
        }
    }
    out
}

#[allow(clippy::too_many_arguments)]
fn try_cutset<M: Msg>(fam: &str, f: &mut Fold, case: &Case<M>, idx: &[usize], data: &Arc<Vec<u8>>, cuts: &[usize], masks: &[u64], b: &Bounds) {
    let n = data.len();
    let mut ends: Vec<usize> = cuts.to_vec();
    ends.push(n);
    f.cutsets += 1;
    if cuts.iter().any(|c| !case.frame_ends.contains(c)) {
        f.nontrivial += 1;
    }
    let replay = |path: &str, mask: u64| json!({"part": "chunks", "family": fam, "sequence": idx, "cuts": cuts, "path": path, "pending_mask": mask});
    // (a) Decoder::decode on a growing buffer
    f.evals += 1;
    let run = run_direct::<M>(data, &ends, None);
    f.transitions += run.steps;
    f.outcomes.insert((0, run.items.len(), run.error.as_ref().map(|e| e.0.clone()), run.end));
    if let Some((key, what)) = judge("decode", case, &ends, n, EndMode::Stall, &run) {
        f.violation(key, format!("{fam} sequence {idx:?} ({n} bytes) cut at {cuts:?}: {what}"), replay("decode", 0));
    }
    // (b) FramedRead over the chunked reader
    for &mask in masks {
        f.evals += 1;
        let run = run_framed::<M>(data, &ends, mask, EndMode::Eof, None);
        f.transitions += run.steps;
        f.outcomes.insert((1, run.items.len(), run.error.as_ref().map(|e| e.0.clone()), run.end));
        if let Some((key, what)) = judge("framed-read", case, &ends, n, EndMode::Eof, &run) {
            f.violation(key, format!("{fam} sequence {idx:?} ({n} bytes) cut at {cuts:?}, pending mask {mask:b}: {what}"), replay("framed-read", mask));
        }
    }
    let _ = b;
}

fn explore_sequence<M: Msg>(fam: &str, alphabet: &[M], idx: &[usize], b: &Bounds, f: &mut Fold) {
    f.seqs += 1;
    let msgs: Vec<&M> = idx.iter().map(|i| &alphabet[*i]).collect();
    // --- encode with the real Encoder into one buffer (as FramedWrite does)
    let mut enc = Codec::<M>::new();
    let mut dst = BytesMut::new();
    let mut frame_ends = vec![];
    let mut reference = vec![];
    for m in &msgs {
        f.evals += 1;
        match explorer::catch(|| enc.encode((*m).clone(), &mut dst)) {
            Ok(Ok(())) => {}
            Ok(Err(e)) => {
                f.violation(
                    format!("encode/error-on-valid-message/{}", err_kind(e).class()),
                    format!("{fam} sequence {idx:?}: encoding {m:?} failed with the default maximum"),
                    json!({"part": "encode", "family": fam, "sequence": idx}),
                );
                return;
            }
            Err(p) => {
                f.violation("encode/panic".into(), format!("{fam} sequence {idx:?}: encode panicked: {p}"), json!({"part": "encode", "family": fam, "sequence": idx}));
                return;
            }
        }
        reference.extend_from_slice(&frame_of(*m));
        frame_ends.push(reference.len());
    }
    if dst[..] != reference[..] {
        f.violation(
            "encode/bytes-differ-from-length-prefixed-postcard".into(),
            format!("{fam} sequence {idx:?}: encoder wrote {:?}, 4-byte big-endian length + postcard body is {:?}", &dst[..dst.len().min(48)], &reference[..reference.len().min(48)]),
            json!({"part": "encode", "family": fam, "sequence": idx}),
        );
        return;
    }
    // --- the public sink over writers that accept 1 / 3 / all bytes per write
    for (per_write, pend) in [(usize::MAX, false), (3, false), (1, true)] {
        f.evals += 1;
        let out = Rc::new(std::cell::RefCell::new(Vec::new()));
        let w = ChunkWriter { out: out.clone(), per_write, pend, pended: false };
        let msgs2: Vec<M> = msgs.iter().map(|m| (*m).clone()).collect();
        let r = explorer::catch(|| {
            let mut sink = Box::pin(into_codec_sink::<M, _>(w));
            block_on_local(async {
                for m in msgs2 {
                    sink.feed(m).await?;
                }
                sink.flush().await
            })
        });
        let ok = matches!(r, Ok(Some(Ok(()))));
        if !ok || out.borrow()[..] != reference[..] {
            f.violation(
                "encode/sink-bytes-differ".into(),
                format!("{fam} sequence {idx:?}: into_codec_sink over a writer taking {per_write} bytes per write produced {} bytes (result ok = {ok}), expected {}", out.borrow().len(), reference.len()),
                json!({"part": "sink", "family": fam, "sequence": idx, "per_write": per_write}),
            );
        }
    }
    let data = Arc::new(reference);
    let n = data.len();
    f.max_bytes = f.max_bytes.max(n);
    let case = Case { msgs, frame_ends };
    let all_masks = |chunks: usize| -> Vec<u64> {
        if n <= b.masks_all_upto { (0..(1u64 << chunks)).collect() } else { vec![0, (1u64 << chunks) - 1] }
    };
    // --- no cut, every single cut
    try_cutset(fam, f, &case, idx, &data, &[], &all_masks(1), b);
    for p in 1..n {
        try_cutset(fam, f, &case, idx, &data, &[p], &all_masks(2), b);
    }
    // --- every prefix of the stream, then silence (incomplete input yields nothing, no error)
    for p in 0..n {
        f.evals += 1;
        let ends = if p == 0 { vec![] } else { vec![p] };
        let run = run_framed::<M>(&data, &ends, 0, EndMode::Stall, None);
        f.transitions += run.steps;
        f.outcomes.insert((2, run.items.len(), run.error.as_ref().map(|e| e.0.clone()), run.end));
        if !case.frame_ends.contains(&p) {
            f.nontrivial += 1;
        }
        if let Some((key, what)) = judge("framed-read", &case, &ends, p, EndMode::Stall, &run) {
            f.violation(key, format!("{fam} sequence {idx:?}: first {p} of {n} bytes served, then silence: {what}"), json!({"part": "prefix", "family": fam, "sequence": idx, "served": p}));
        }
        // … or the stream ends there
        f.evals += 1;
        let run = run_framed::<M>(&data, &ends, 0, EndMode::Eof, None);
        f.transitions += run.steps;
        f.outcomes.insert((3, run.items.len(), run.error.as_ref().map(|e| e.0.clone()), run.end));
        if let Some((key, what)) = judge("framed-read", &case, &ends, p, EndMode::Eof, &run) {
            f.violation(key, format!("{fam} sequence {idx:?}: first {p} of {n} bytes served, then end of stream: {what}"), json!({"part": "prefix-eof", "family": fam, "sequence": idx, "served": p}));
        }
    }
    // --- pairs of cuts
    let positions: Vec<usize> = if n <= b.pairs_all_upto {
        (1..n).collect()
    } else {
        let mut starts = vec![0usize];
        starts.extend(case.frame_ends.iter().copied());
        let mut set = BTreeSet::new();
        for w in starts.windows(2) {
            let (s, e) = (w[0], w[1]);
            for d in 0..=b.near {
                set.insert(s + d);
                set.insert(e.saturating_sub(d));
            }
            set.insert((s + e) / 2);
        }
        if b.stride > 0 {
            set.extend((1..n).step_by(b.stride));
        }
        set.into_iter().filter(|p| *p >= 1 && *p < n).collect()
    };
    let masks3 = all_masks(3);
    'pairs: for (i, &p) in positions.iter().enumerate() {
        if Instant::now() > b.deadline {
            f.capped = true;
            break 'pairs;
        }
        for &q in &positions[i + 1..] {
            try_cutset(fam, f, &case, idx, &data, &[p, q], &masks3, b);
        }
    }
    // --- every subset of cut positions for short byte strings
    if n <= b.subsets_upto && n >= 2 {
        for bits in 0..(1u64 << (n - 1)) {
            if bits.count_ones() <= 2 {
                continue; // covered above
            }
            if bits & 0xfff == 0 && Instant::now() > b.deadline {
                f.capped = true;
                break;
            }
            let cuts: Vec<usize> = (1..n).filter(|p| bits >> (p - 1) & 1 == 1).collect();
            let chunks = cuts.len() + 1;
            let all = if chunks >= 64 { u64::MAX } else { (1u64 << chunks) - 1 };
            try_cutset(fam, f, &case, idx, &data, &cuts, &[0, all], b);
        }
    }
    if f.samples.is_empty() && idx.len() == 3 && idx[0] != idx[1] {
        f.samples.push(json!({"family": fam, "sequence": idx, "bytes": n, "frame_ends": case.frame_ends, "cut_positions_for_pairs": positions.len()}));
    }
}

/// Minimal executor for the sink futures (our writers wake synchronously or are ready).
fn block_on_local<T>(fut: impl std::future::Future<Output = T>) -> Option<T> {
    let flag = Flag::new(false);
    let waker = Waker::from(flag.clone());
    let mut cx = Context::from_waker(&waker);
    let mut fut = std::pin::pin!(fut);
    for _ in 0..1_000_000 {
        flag.clear();
        match fut.as_mut().poll(&mut cx) {
            Poll::Ready(v) => return Some(v),
            Poll::Pending => {
                if !flag.is_woken() {
                    return None;
                }
            }
        }
    }
    None
}

// ---------------------------------------------------------------------------------------------
// max_frame_len
// ---------------------------------------------------------------------------------------------

fn limit_class(s: usize, l: usize) -> &'static str {
    if s == l {
        "size-equals-max"
    } else if s < l {
        "size-below-max"
    } else {
        "size-above-max"
    }
}

fn explore_limits<M: Msg>(fam: &str, alphabet: &[M], f: &mut Fold, seq_len: usize) {
    let sizes: Vec<usize> = alphabet.iter().map(|m| body_of(m).len()).collect();
    let mut limits: BTreeSet<usize> = BTreeSet::from([0]);
    for &s in &sizes {
        limits.insert(s);
        limits.insert(s + 1);
        if s > 0 {
            limits.insert(s - 1);
        }
    }
    for (mi, m) in alphabet.iter().enumerate() {
        let s = sizes[mi];
        let frame = frame_of(m);
        for &l in &limits {
            let replay = json!({"part": "limit", "family": fam, "message": mi, "size": s, "max_frame_len": l});
            f.nontrivial += (s.abs_diff(l) <= 1) as u64;
            // encode into a buffer that already holds bytes
            f.evals += 1;
            let mut c = Codec::<M>::new().max_frame_len(l);
            let mut dst = BytesMut::new();
            dst.put_slice(&[0xAA, 0xBB]);
            let r = explorer::catch(|| c.encode(m.clone(), &mut dst).map_err(err_kind));
            f.outcomes.insert((4, (s <= l) as usize, r.clone().ok().and_then(|r| r.err()), End::Finished));
            match r {
                Err(p) => f.violation("limit/encode-panics".into(), format!("{fam} message #{mi} ({s} bytes), max_frame_len {l}: encode panicked: {p}"), replay.clone()),
                Ok(Ok(())) if s > l => f.violation(
                    "limit/encode-accepts-too-large".into(),
                    format!("{fam} message #{mi}: frame of {s} bytes encoded although max_frame_len = {l}"),
                    replay.clone(),
                ),
                Ok(Ok(())) => {
                    if dst[..2] != [0xAA, 0xBB] || dst[2..] != frame[..] {
                        f.violation("limit/encode-bytes-differ".into(), format!("{fam} message #{mi}, max_frame_len {l}: bytes differ from the reference frame"), replay.clone());
                    }
                }
                Ok(Err(e)) if s <= l => f.violation(
                    format!("limit/encode-rejects-allowed/{}", limit_class(s, l)),
                    format!("{fam} message #{mi}: frame of {s} bytes rejected on encode with max_frame_len = {l}: {e:?}"),
                    replay.clone(),
                ),
                Ok(Err(e)) => {
                    if e != ErrKind::TooLarge(s, l) {
                        f.violation("limit/encode-wrong-error".into(), format!("{fam} message #{mi} ({s} bytes), max_frame_len {l}: error {e:?}"), replay.clone());
                    }
                    if dst[..] != [0xAA, 0xBB] {
                        f.violation("limit/encode-error-leaves-bytes".into(), format!("{fam} message #{mi} ({s} bytes), max_frame_len {l}: rejected, yet {} bytes were appended", dst.len() - 2), replay.clone());
                    }
                }
            }
            // decode every prefix of the frame
            for p in 0..=frame.len() {
                f.evals += 1;
                f.transitions += 1;
                let mut c = Codec::<M>::new().max_frame_len(l);
                let mut buf = BytesMut::from(&frame[..p]);
                let r = explorer::catch(|| c.decode(&mut buf).map_err(err_kind));
                let complete = p == frame.len();
                let verdict: Option<(String, String)> = match r {
                    Err(pn) => Some(("limit/decode-panics".into(), format!("panicked: {pn}"))),
                    Ok(Ok(Some(x))) => {
                        if s > l {
                            Some(("limit/decode-accepts-too-large".into(), format!("frame of {s} bytes decoded although max_frame_len = {l}")))
                        } else if !complete {
                            Some(("decode/message-from-incomplete-frame".into(), format!("message decoded from {p} of {} bytes", frame.len())))
                        } else if &x != m || !buf.is_empty() {
                            Some(("decode/wrong-message".into(), format!("decoded {x:?}, rest {} bytes", buf.len())))
                        } else {
                            None
                        }
                    }
                    Ok(Ok(None)) => {
                        if complete && s <= l {
                            Some(("decode/message-lost".into(), "complete frame within the limit yields nothing".to_string()))
                        } else if complete {
                            Some(("limit/decode-ignores-too-large".into(), format!("complete frame of {s} bytes above max_frame_len = {l} is neither decoded nor rejected")))
                        } else if buf.len() != p {
                            Some(("decode/consumed-on-incomplete".into(), "buffer changed although nothing was decoded".to_string()))
                        } else {
                            None
                        }
                    }
                    Ok(Err(e)) => {
                        if s <= l {
                            Some((format!("limit/decode-rejects-allowed/{}", limit_class(s, l)), format!("frame of {s} bytes ({p} of {} bytes present) rejected with max_frame_len = {l}: {e:?}", frame.len())))
                        } else if p < 4 {
                            Some(("decode/error-on-incomplete-prefix".into(), format!("only {p} bytes of the length prefix present, error {e:?}")))
                        } else if e != ErrKind::TooLarge(s, l) {
                            Some(("limit/decode-wrong-error".into(), format!("error {e:?}, expected TooLargeMessage({s}, {l})")))
                        } else {
                            None
                        }
                    }
                };
                if let Some((key, what)) = verdict {
                    f.violation(key, format!("{fam} message #{mi} ({s} bytes), max_frame_len {l}, {p} of {} frame bytes: {what}", frame.len()), replay.clone());
                }
            }
        }
    }
    // sequences under a limit through FramedWrite / FramedRead
    let seqs = seq_indices(alphabet.len(), seq_len);
    let distinct: BTreeSet<usize> = sizes.iter().copied().collect();
    for idx in &seqs {
        for &l in &distinct {
            for l in [l, l.saturating_sub(1)] {
                f.evals += 1;
                let msgs: Vec<&M> = idx.iter().map(|i| &alphabet[*i]).collect();
                let replay = json!({"part": "limit-seq", "family": fam, "sequence": idx, "max_frame_len": l});
                // sink: too large messages are refused one by one, the others are written
                let out = Rc::new(std::cell::RefCell::new(Vec::new()));
                let w = ChunkWriter { out: out.clone(), per_write: 5, pend: false, pended: false };
                let owned: Vec<M> = msgs.iter().map(|m| (*m).clone()).collect();
                let results = explorer::catch(|| {
                    let mut sink = FramedWrite::new(w, Codec::<M>::new().max_frame_len(l));
                    block_on_local(async {
                        let mut rs = vec![];
                        for m in owned {
                            rs.push(sink.feed(m).await.is_ok());
                        }
                        let _ = sink.flush().await;
                        rs
                    })
                });
                let want_ok: Vec<bool> = idx.iter().map(|i| sizes[*i] <= l).collect();
                let mut want_bytes = vec![];
                for (i, m) in msgs.iter().enumerate() {
                    if want_ok[i] {
                        want_bytes.extend_from_slice(&frame_of(*m));
                    }
                }
                match results {
                    Ok(Some(rs)) if rs == want_ok && out.borrow()[..] == want_bytes[..] => {}
                    other => f.violation(
                        "limit/sink-disagrees".into(),
                        format!("{fam} sequence {idx:?} (sizes {:?}), max_frame_len {l}: FramedWrite accepted {other:?}, expected {want_ok:?}; {} bytes written, expected {}", idx.iter().map(|i| sizes[*i]).collect::<Vec<_>>(), out.borrow().len(), want_bytes.len()),
                        replay.clone(),
                    ),
                }
                // stream: honest bytes of the whole sequence, decoder limited to l
                let mut data = vec![];
                let mut frame_ends = vec![];
                for m in &msgs {
                    data.extend_from_slice(&frame_of(*m));
                    frame_ends.push(data.len());
                }
                let first_big = idx.iter().position(|i| sizes[*i] > l);
                let data = Arc::new(data);
                let n = data.len();
                let mut cutsets: Vec<Vec<usize>> = vec![vec![]];
                if n <= 64 {
                    cutsets.extend((1..n).map(|p| vec![p]));
                } else {
                    for e in std::iter::once(0).chain(frame_ends.iter().copied()) {
                        for d in 1..=5usize {
                            if e + d < n {
                                cutsets.push(vec![e + d]);
                            }
                        }
                    }
                }
                for cuts in cutsets {
                    f.evals += 1;
                    let mut ends = cuts.clone();
                    ends.push(n);
                    for (path, run) in [
                        ("framed-read", run_framed::<M>(&data, &ends, 0, EndMode::Eof, Some(l))),
                        ("decode", run_direct::<M>(&data, &ends, Some(l))),
                    ] {
                        f.transitions += run.steps;
                        let want_items = first_big.unwrap_or(msgs.len());
                        let items_ok = run.items.len() == want_items && run.items.iter().zip(&msgs).all(|((a, _), b)| a == *b);
                        let err_ok = match (&run.error, first_big) {
                            (None, None) => true,
                            (Some((ErrKind::TooLarge(s, m), _)), Some(b)) => *s == sizes[idx[b]] && *m == l,
                            _ => false,
                        };
                        if !items_ok || !err_ok || run.after_error > 0 {
                            let key = if run.items.len() > want_items {
                                "limit/decode-accepts-too-large"
                            } else if run.error.is_some() && first_big.is_none() {
                                "limit/decode-rejects-allowed/in-sequence"
                            } else {
                                "limit/sequence-disagrees"
                            };
                            f.violation(
                                key.into(),
                                format!(
                                    "{fam} sequence {idx:?} (sizes {:?}), max_frame_len {l}, cut at {cuts:?}, {path}: decoded {} messages, error {:?}, {} items after the error; expected {want_items} messages then {}",
                                    idx.iter().map(|i| sizes[*i]).collect::<Vec<_>>(),
                                    run.items.len(),
                                    run.error.as_ref().map(|e| &e.0),
                                    run.after_error,
                                    if first_big.is_some() { "TooLargeMessage" } else { "the end of the stream" }
                                ),
                                replay.clone(),
                            );
                        }
                    }
                }
            }
        }
    }
}

// ---------------------------------------------------------------------------------------------
// Corrupted length prefixes: no panic, no message out of thin air, always progress.
// ---------------------------------------------------------------------------------------------

fn explore_corrupt<M: Msg>(fam: &str, alphabet: &[M], f: &mut Fold) {
    for (mi, m) in alphabet.iter().enumerate() {
        let body = body_of(m);
        let s = body.len();
        let mut inputs: Vec<(&'static str, Vec<u8>)> = vec![];
        for d in [1usize, 7, 1000] {
            let mut v = ((s + d) as u32).to_be_bytes().to_vec();
            v.extend_from_slice(&body);
            inputs.push(("declared-longer-than-data", v));
        }
        let mut v = vec![0, 0, 0, 0];
        v.extend_from_slice(&frame_of(m));
        inputs.push(("zero-length-frame-first", v));
        if s > 0 {
            let mut v = ((s - 1) as u32).to_be_bytes().to_vec();
            v.extend_from_slice(&body);
            v.extend_from_slice(&frame_of(m));
            inputs.push(("declared-shorter-than-message", v));
        }
        inputs.push(("huge-length", vec![0xff, 0xff, 0xff, 0xff, 1, 2, 3]));
        for (class, bytes) in inputs {
            f.evals += 1;
            let replay = json!({"part": "corrupt", "family": fam, "message": mi, "class": class});
            let n = bytes.len();
            let run = run_direct::<M>(&bytes, &[n], None);
            f.transitions += run.steps;
            f.outcomes.insert((5, run.items.len(), run.error.as_ref().map(|e| e.0.clone()), run.end));
            let data = Arc::new(bytes);
            let frun = run_framed::<M>(&data, &[n], 0, EndMode::Stall, None);
            f.transitions += frun.steps;
            for (path, r) in [("decode", &run), ("framed-read", &frun)] {
                if let Some((ErrKind::Panic(p), _)) = &r.error {
                    f.violation(format!("corrupt/panic/{class}"), format!("{fam} message #{mi}, {class}, {path}: panicked: {p}"), replay.clone());
                }
                if r.end == End::Budget {
                    f.violation(format!("corrupt/livelock/{class}"), format!("{fam} message #{mi}, {class}, {path}: no progress within the step budget"), replay.clone());
                }
                if class == "declared-longer-than-data" && (!r.items.is_empty() || r.error.is_some()) {
                    f.violation(
                        "decode/message-from-incomplete-frame".into(),
                        format!("{fam} message #{mi}: length prefix announces more bytes than present, {path} produced {} messages / error {:?}", r.items.len(), r.error.as_ref().map(|e| &e.0)),
                        replay.clone(),
                    );
                }
                if class == "huge-length" && !matches!(r.error, Some((ErrKind::TooLarge(..), _))) {
                    f.violation(
                        "limit/decode-accepts-too-large".into(),
                        format!("{fam}: length prefix 0xffffffff with the default maximum (128 MiB), {path}: {} messages, error {:?}", r.items.len(), r.error.as_ref().map(|e| &e.0)),
                        replay.clone(),
                    );
                }
            }
        }
    }
}

fn explore_family<M: Msg>(rep: &mut Report, fam: &'static str, alphabet: Vec<M>, b: &Bounds, limit_seq_len: usize) {
    // self-check of the alphabet: every message round-trips through plain postcard
    for (i, m) in alphabet.iter().enumerate() {
        match postcard::from_bytes::<M>(&body_of(m)) {
            Ok(x) if &x == m => {}
            other => {
                rep.machinery_error(format!("{fam}: alphabet message #{i} does not round-trip through postcard itself: {other:?}"));
                return;
            }
        }
    }
    let seqs = seq_indices(alphabet.len(), b.max_len);
    let threads = rep.args.threads.max(1);
    let mut total = Fold::default();
    let folds: Vec<Fold> = std::thread::scope(|s| {
        let hs: Vec<_> = (0..threads)
            .map(|t| {
                let (seqs, alphabet) = (&seqs, &alphabet);
                s.spawn(move || {
                    let mut f = Fold::default();
                    // longest sequences first would balance better; round-robin is close enough
                    for (i, idx) in seqs.iter().enumerate() {
                        if i % threads == t {
                            explore_sequence(fam, alphabet, idx, b, &mut f);
                        }
                    }
                    if t == 0 {
                        explore_limits(fam, alphabet, &mut f, limit_seq_len);
                        explore_corrupt(fam, alphabet, &mut f);
                    }
                    f
                })
            })
            .collect();
        hs.into_iter().map(|h| h.join().expect("worker")).collect()
    });
    for f in folds {
        total.absorb(f);
    }
    rep.evals(total.evals);
    rep.transitions += total.transitions;
    rep.nontrivial_count(total.nontrivial);
    for o in &total.outcomes {
        rep.outcome(&(fam, o));
    }
    for i in 0..seqs.len() {
        rep.state(&(fam, i));
    }
    for s in total.samples.into_iter().take(1) {
        rep.sample(s);
    }
    if total.capped {
        rep.not_exhaustive(&format!("{fam}: wall-clock cap reached before all cut sets were tried"));
    }
    for (k, (count, what, replay)) in total.violations {
        for _ in 0..count.min(1000) {
            rep.violation(k.clone(), what.clone(), replay.clone());
        }
    }
    rep.part(json!({
        "family": fam, "alphabet": alphabet.len(), "sequences": total.seqs, "cut_sets": total.cutsets,
        "longest_stream_bytes": total.max_bytes,
        "message_sizes": alphabet.iter().map(|m| body_of(m).len()).collect::<Vec<_>>(),
    }));
}

pub fn run(mut rep: Report) -> i32 {
    let thorough = rep.thorough();
    let b = Bounds {
        max_len: 3,
        pairs_all_upto: if thorough { 700 } else { 140 },
        near: if thorough { 16 } else { 5 },
        stride: if thorough { 16 } else { 0 },
        subsets_upto: if thorough { 20 } else { 16 },
        masks_all_upto: if thorough { 160 } else { 48 },
        deadline: Instant::now() + Duration::from_secs(if thorough { 540 } else { 35 }),
    };
    rep.rule = format!(
        "families: TopicLogSyncMessage<u64,()> (6), LogSyncMessage<u64> (6), (Header<()>, Option<Body>) (3), String (6), a harness enum (6), () (1); every sequence of length <= 3 per family; cut sets: none, every single position, every prefix followed by silence or end of stream, every pair of positions ({}), every subset of positions for streams <= {} bytes; each cut set decoded by Decoder::decode on a growing buffer and by FramedRead over a one-chunk-per-poll reader with every Pending pattern (<= 3 chunks, streams <= {} bytes; otherwise none/all); max_frame_len L in {{s-1, s, s+1 | s a message size}} + {{0}} on encode and on decode of every frame prefix, and for whole sequences through FramedWrite/FramedRead; corrupted prefixes (longer than data, zero, shorter, 0xffffffff); non-trivial = a cut set with at least one cut strictly inside a frame, or a limit within 1 of the frame size",
        if thorough { "all pairs for streams <= 700 bytes, otherwise pairs among positions within 16 bytes of a frame boundary, frame midpoints and every 16th position".to_string() } else { "all pairs for streams <= 140 bytes, otherwise pairs among positions within 5 bytes of a frame boundary and frame midpoints".to_string() },
        b.subsets_upto,
        b.masks_all_upto
    );
    let lim = if thorough { 3 } else { 2 };
    explore_family(&mut rep, "topic-log-sync", alphabet_topic(), &b, lim);
    explore_family(&mut rep, "log-sync", alphabet_log(), &b, lim);
    explore_family(&mut rep, "operation-tuple", alphabet_ops(), &b, lim);
    explore_family(&mut rep, "string", alphabet_strings(), &b, lim);
    explore_family(&mut rep, "harness-enum", alphabet_harness(), &b, lim);
    explore_family(&mut rep, "unit", vec![()], &b, 3);
    rep.assume("the reference wire format is the one documented at the top of codec.rs: 4-byte big-endian frame length followed by the postcard encoding of the message");
    rep.assume("FramedRead/FramedWrite are tokio-util's; the harness owns the reader/writer (one chunk per poll, Pending patterns, partial writes), no tokio runtime or timers are involved");
    rep.assume("a truncated stream that *ends* mid-frame is reported by tokio-util as an I/O error after the complete messages; the property's 'incomplete input yields nothing and no error' is checked on streams that pause mid-frame");
    rep.assume("for corrupted length prefixes only absence of panics, progress and 'no message from an incomplete frame' are demanded");
    rep.finish()
}
