//! Shared builders: deterministic keys, transport addresses, signed / trusted records.
use std::net::SocketAddr;

use p2panda_core::timestamp::{HybridTimestamp, LamportTimestamp, Timestamp};
use p2panda_core::SigningKey;
use p2panda_net::addrs::{
    AuthenticatedTransportInfo, TransportAddress, TrustedTransportInfo, UnsignedTransportInfo,
};
use p2panda_net::NodeId;

pub fn key(b: u8) -> SigningKey {
    SigningKey::from_bytes(&[b; 32])
}

/// Deterministic key number `n` (for per-case fresh node ids inside one shared address book).
pub fn key_n(n: u64) -> SigningKey {
    let mut bytes = [0x5a_u8; 32];
    bytes[..8].copy_from_slice(&n.to_le_bytes());
    SigningKey::from_bytes(&bytes)
}

pub fn ts(t: u64, l: u64) -> HybridTimestamp {
    HybridTimestamp::from_parts(Timestamp::new(t), LamportTimestamp::new(l))
}

/// An iroh transport address of node `id` (direct address 127.0.0.1:`port`, no relay).
pub fn addr(id: NodeId, port: u16) -> TransportAddress {
    TransportAddress::from_iroh(id, None, [SocketAddr::from(([127, 0, 0, 1], port))])
}

/// Record with the given timestamp and addresses, signed by `key`.
pub fn signed(
    key: &SigningKey,
    timestamp: HybridTimestamp,
    addrs: impl IntoIterator<Item = TransportAddress>,
) -> AuthenticatedTransportInfo {
    let mut unsigned = UnsignedTransportInfo::new();
    unsigned.timestamp = timestamp;
    for a in addrs {
        unsigned.add_addr(a);
    }
    unsigned.sign(key).expect("signing transport info")
}

pub fn trusted(
    timestamp: HybridTimestamp,
    addrs: impl IntoIterator<Item = TransportAddress>,
) -> TrustedTransportInfo {
    let mut info = TrustedTransportInfo::new();
    info.timestamp = timestamp;
    for a in addrs {
        info.add_addr(a);
    }
    info
}

pub fn runtime() -> tokio::runtime::Runtime {
    tokio::runtime::Builder::new_current_thread()
        .enable_time()
        .build()
        .expect("tokio runtime")
}
