//! C18 (second half, dispatched as "C18N"): a node's successive self-published transport records
//! are always accepted as newer than its previous one, whatever the wall clock reads.
//!
//! E-ENUM with the owned `MockClock` (p2panda-core feature `test_utils`):
//! * part `single`: every previous record timestamp (t, l) x every clock reading (earlier, equal,
//!   later): `UnsignedTransportInfo::from_addrs(..).increment_timestamp(Some(&prev)).sign(key)`
//!   must be accepted by `NodeInfo::update_transports` with `Ok(true)` — by the publishing node's
//!   own entry and by a remote entry that holds `prev`;
//! * part `seq`: sequences of publications under every clock-reading sequence, same oracle after
//!   every step;
//! * part `book`: the same sequences through the real `AddressBook` actor, mirroring the call
//!   sequence of `iroh_endpoint::discovery::AddressBookDiscovery::publish` (read own entry,
//!   take `transports()`, build, `increment_timestamp`, `sign`, skip when the addresses did not
//!   change, `insert_transport_info`).
use std::time::Duration;

use explorer::{json, Report};
use mock_instant::thread_local::MockClock;
use p2panda_core::SigningKey;
use p2panda_net::addrs::{
    AuthenticatedTransportInfo, NodeInfo, NodeTransportInfo, TransportInfo, UnsignedTransportInfo,
};
use p2panda_net::AddressBook;
use p2panda_store::address_book::NodeInfo as _;

use crate::fixtures::{addr, key, key_n, runtime, signed, ts};

fn set_clock(micros: u64) {
    MockClock::set_system_time(Duration::from_micros(micros));
}

fn clock_class(clock: u64, prev_t: u64) -> &'static str {
    if clock < prev_t {
        "clock-behind-previous"
    } else if clock == prev_t {
        "clock-equal-previous"
    } else {
        "clock-ahead-of-previous"
    }
}

/// What `publish` does between reading the previous record and inserting the new one.
fn build_next(
    key: &SigningKey,
    previous: Option<&AuthenticatedTransportInfo>,
    port: Option<u16>,
) -> AuthenticatedTransportInfo {
    let vk = key.verifying_key();
    match port {
        Some(p) => UnsignedTransportInfo::from_addrs([addr(vk, p)]),
        None => UnsignedTransportInfo::new(),
    }
    .increment_timestamp(previous)
    .sign(key)
    .expect("signing own transport info")
}

fn t_of(info: &AuthenticatedTransportInfo) -> u64 {
    u64::from(info.timestamp().to_parts().0)
}

/// Checks one publication against an entry holding `prev`.  Returns the violation (key, text).
fn check_accept(
    who: &str,
    entry: &mut NodeInfo,
    next: &AuthenticatedTransportInfo,
    clock: u64,
    prev_t: Option<u64>,
) -> Option<(String, String)> {
    let class = prev_t.map(|t| clock_class(clock, t)).unwrap_or("no-previous");
    let before = entry.transports.as_ref().map(|t| t.timestamp().to_string());
    match explorer::catch(|| entry.update_transports(next.clone().into())) {
        Ok(Ok(true)) => {
            if entry.transports != Some(TransportInfo::from(next.clone())) {
                return Some((
                    format!("self-published-not-stored/{class}"),
                    format!("{who}: update_transports returned Ok(true) but the entry does not hold the new record"),
                ));
            }
            None
        }
        Ok(Ok(false)) => Some((
            format!("self-published-not-newer/{class}"),
            format!(
                "{who}: record with timestamp {} published under wall clock {clock} was not accepted as newer than the previous record {}",
                next.timestamp(),
                before.unwrap_or_else(|| "none".into())
            ),
        )),
        Ok(Err(e)) => Some((
            format!("self-published-rejected/{class}"),
            format!("{who}: own record {} rejected: {e}", next.timestamp()),
        )),
        Err(p) => Some((
            format!("self-published-panics/{class}"),
            format!("{who}: update_transports panicked: {p}"),
        )),
    }
}

fn part_single(rep: &mut Report) {
    let k = key(1);
    let vk = k.verifying_key();
    let ts_dom: Vec<u64> = (0..=4).collect();
    let ls: Vec<u64> = vec![0, 1, 2, 1 << 32, u64::MAX - 1];
    let clks: Vec<u64> = (0..=5).collect();
    for &t in &ts_dom {
        for &l in &ls {
            for &c in &clks {
                rep.eval();
                rep.transition();
                rep.state(&("single", t, l, c));
                if c <= t {
                    rep.nontrivial(&("single", t, l, c));
                }
                set_clock(0);
                let prev = signed(&k, ts(t, l), [addr(vk, 1000)]);
                let mut own = NodeInfo::new(vk);
                let mut remote = NodeInfo::new(vk);
                assert!(matches!(own.update_transports(prev.clone().into()), Ok(true)));
                assert!(matches!(remote.update_transports(prev.clone().into()), Ok(true)));
                set_clock(c);
                // publish(): previous = own entry's authenticated transports
                let previous = own.transports();
                let next = match explorer::catch(|| build_next(&k, previous.as_ref(), Some(1001))) {
                    Ok(n) => n,
                    Err(p) => {
                        rep.violation(
                            format!("self-published-panics/{}", clock_class(c, t)),
                            format!("building the record after ({t},{l}) under clock {c} panicked: {p}"),
                            json!({"part": "single", "t": t, "l": l, "clock": c}),
                        );
                        continue;
                    }
                };
                rep.outcome(&(next.timestamp() > prev.timestamp()));
                if rep.want_sample() && c < t {
                    rep.sample(json!({"previous": prev.timestamp().to_string(), "clock": c, "published": next.timestamp().to_string()}));
                }
                for (who, entry) in [("own entry", &mut own), ("remote entry holding the previous record", &mut remote)] {
                    if let Some((key, what)) = check_accept(who, entry, &next, c, Some(t)) {
                        rep.violation(
                            key,
                            format!("previous record ({t},{l}), wall clock {c}: {what}"),
                            json!({"part": "single", "t": t, "l": l, "clock": c}),
                        );
                    }
                }
                // A remote entry that sees the new record first must keep it when the previous
                // one arrives late.
                let mut late = NodeInfo::new(vk);
                let _ = late.update_transports(next.clone().into());
                if !matches!(late.update_transports(prev.clone().into()), Ok(false)) || late.transports != Some(next.clone().into()) {
                    rep.violation(
                        format!("previous-record-replaces-newer/{}", clock_class(c, t)),
                        format!("previous record ({t},{l}), wall clock {c}: a remote entry holding the new record {} took the previous record back", next.timestamp()),
                        json!({"part": "single", "t": t, "l": l, "clock": c}),
                    );
                }
            }
        }
    }
}

/// Every clock-reading sequence of length `len + 1` over `alphabet` (first reading = first
/// publication without a previous record).
fn readings(alphabet: &[u64], len: usize) -> Vec<Vec<u64>> {
    let k = alphabet.len() as u64;
    (0..k.pow(len as u32 + 1))
        .map(|mut code| {
            (0..=len)
                .map(|_| {
                    let r = alphabet[(code % k) as usize];
                    code /= k;
                    r
                })
                .collect()
        })
        .collect()
}

fn part_seq(rep: &mut Report, n: usize, alphabet: &[u64]) {
    let k = key(1);
    let vk = k.verifying_key();
    for len in 1..=n {
        for rs in readings(alphabet, len) {
            rep.eval();
            rep.state(&("seq", &rs));
            let mut own = NodeInfo::new(vk);
            let mut remote = NodeInfo::new(vk);
            let mut trace = vec![];
            let mut nontrivial = false;
            for (i, r) in rs.iter().enumerate() {
                rep.transition();
                set_clock(*r);
                let previous = own.transports();
                let prev_t = previous.as_ref().map(t_of);
                if prev_t.is_some_and(|t| *r <= t) {
                    nontrivial = true;
                }
                let next = build_next(&k, previous.as_ref(), Some(2000 + i as u16));
                trace.push(next.timestamp().to_string());
                let mut bad = false;
                for (who, entry) in [("own entry", &mut own), ("remote entry", &mut remote)] {
                    if let Some((key, what)) = check_accept(who, entry, &next, *r, prev_t) {
                        rep.violation(
                            key,
                            format!("clock readings {rs:?}, publication #{i}: {what} (published so far: {trace:?})"),
                            json!({"part": "seq", "readings": rs}),
                        );
                        bad = true;
                    }
                }
                if bad {
                    break;
                }
            }
            if nontrivial {
                rep.nontrivial(&("seq", &rs));
            }
            if rep.want_sample() && nontrivial && len == n {
                rep.sample(json!({"clock_readings": rs, "published_timestamps": trace}));
            }
        }
    }
}

#[derive(Debug)]
enum Published {
    Inserted(AuthenticatedTransportInfo, bool),
    Skipped,
    Failed(String),
}

/// The body of the task spawned by `AddressBookDiscovery::publish`, call by call.
async fn publish(book: &AddressBook, key: &SigningKey, port: Option<u16>) -> Published {
    let verifying_key = key.verifying_key();
    let node_info = match book.node_info(verifying_key).await {
        Ok(i) => i,
        Err(e) => return Published::Failed(format!("node_info: {e}")),
    };
    let previous_transport_info = node_info.and_then(|info| info.transports());
    let transport_info = build_next(key, previous_transport_info.as_ref(), port);
    if let Some(previous) = previous_transport_info
        && transport_info.addresses() == previous.addresses()
    {
        return Published::Skipped;
    }
    match book
        .insert_transport_info(verifying_key, transport_info.clone().into())
        .await
    {
        Ok(is_newer) => Published::Inserted(transport_info, is_newer),
        Err(e) => Published::Failed(format!("insert_transport_info: {e}")),
    }
}

/// Outcome of one book case, produced on a worker thread and folded into the report in case order.
struct BookCase {
    steps: u64,
    nontrivial: bool,
    violations: Vec<(String, String, explorer::Value)>,
    machinery: Option<String>,
}

fn run_book_case(rt: &tokio::runtime::Runtime, book: &AddressBook, case: u64, rs: &[u64], empty_at: Option<usize>) -> BookCase {
    let mut out = BookCase { steps: 0, nontrivial: false, violations: vec![], machinery: None };
    // fresh node id per case inside the shared book: entries are keyed by node id
    let k = key_n(case);
    let vk = k.verifying_key();
    let mut remote = NodeInfo::new(vk);
    let mut prev: Option<AuthenticatedTransportInfo> = None;
    for (i, r) in rs.iter().enumerate() {
        out.steps += 1;
        set_clock(*r);
        let port = if empty_at == Some(i) { None } else { Some(3000 + i as u16) };
        let prev_t = prev.as_ref().map(t_of);
        if prev_t.is_some_and(|t| *r <= t) {
            out.nontrivial = true;
        }
        let published = rt.block_on(publish(book, &k, port));
        let replay = json!({"part": "book", "readings": rs, "empty_at": empty_at});
        let class = prev_t.map(|t| clock_class(*r, t)).unwrap_or("no-previous");
        match published {
            Published::Inserted(info, true) => {
                let stored = rt.block_on(book.node_info(vk)).ok().flatten().and_then(|i| i.transports);
                if stored != Some(TransportInfo::from(info.clone())) {
                    out.violations.push((
                        format!("self-published-not-stored/{class}"),
                        format!("address book, clock readings {rs:?}, publication #{i}: insert_transport_info returned true but the book holds {:?}", stored.map(|s| s.timestamp().to_string())),
                        replay.clone(),
                    ));
                }
                if let Some((key, what)) = check_accept("remote entry", &mut remote, &info, *r, prev_t) {
                    out.violations.push((key, format!("address book, clock readings {rs:?}, publication #{i}: {what}"), replay));
                }
                prev = Some(info);
            }
            Published::Inserted(info, false) => {
                out.violations.push((
                    format!("self-published-not-newer/{class}"),
                    format!(
                        "address book, clock readings {rs:?}, publication #{i}: own record {} (wall clock {r}) was not accepted as newer than the stored record {}",
                        info.timestamp(),
                        prev.as_ref().map(|p| p.timestamp().to_string()).unwrap_or_else(|| "none".into())
                    ),
                    replay,
                ));
                break;
            }
            Published::Skipped => {
                out.machinery = Some(format!("book part: publication #{i} of {rs:?} skipped although the addresses changed"));
                break;
            }
            Published::Failed(e) => {
                out.violations.push((
                    format!("self-published-rejected/{class}"),
                    format!("address book, clock readings {rs:?}, publication #{i}: {e}"),
                    replay,
                ));
                break;
            }
        }
    }
    out
}

fn part_book(rep: &mut Report, n: usize, alphabet: &[u64]) {
    // cases: clock-reading sequence x address pattern (ports change on every publication;
    // optionally one publication without any address - node not reachable - at `empty_at`)
    let mut cases: Vec<(Vec<u64>, Option<usize>)> = vec![];
    for len in 1..=n {
        for rs in readings(alphabet, len) {
            for empty_at in std::iter::once(None).chain((0..=len).map(Some)) {
                cases.push((rs.clone(), empty_at));
            }
        }
    }
    let threads = rep.args.threads.clamp(1, 8);
    let results: Vec<Vec<(usize, BookCase)>> = std::thread::scope(|s| {
        let hs: Vec<_> = (0..threads)
            .map(|t| {
                let cases = &cases;
                s.spawn(move || {
                    // one book (actor + in-memory SQLite) per worker; MockClock is thread-local
                    let rt = runtime();
                    let book = rt.block_on(async { AddressBook::builder().spawn().await.expect("address book") });
                    let mut out = vec![];
                    for (idx, (rs, empty_at)) in cases.iter().enumerate() {
                        if idx % threads == t {
                            out.push((idx, run_book_case(&rt, &book, idx as u64 + 1, rs, *empty_at)));
                        }
                    }
                    drop(book);
                    out
                })
            })
            .collect();
        hs.into_iter().map(|h| h.join().expect("worker")).collect()
    });
    let mut all: Vec<(usize, BookCase)> = results.into_iter().flatten().collect();
    all.sort_by_key(|(i, _)| *i);
    for (idx, c) in all {
        let (rs, empty_at) = &cases[idx];
        rep.eval();
        rep.transitions += c.steps;
        rep.state(&("book", rs, empty_at));
        if c.nontrivial {
            rep.nontrivial(&("book", rs, empty_at));
        }
        for (k, w, r) in c.violations {
            rep.violation(k, w, r);
        }
        if let Some(m) = c.machinery {
            rep.machinery_error(m);
        }
    }
    rep.set("book_cases", json!(cases.len()));
    rep.set("book_workers", json!(threads));
}

pub fn run(mut rep: Report) -> i32 {
    let thorough = rep.thorough();
    let (n, alphabet): (usize, Vec<u64>) = if thorough { (6, vec![0, 1, 2, 3]) } else { (4, vec![0, 1, 2]) };
    let (bn, balphabet): (usize, Vec<u64>) = if thorough { (5, vec![0, 1, 2, 3]) } else { (4, vec![0, 1, 2]) };
    rep.rule = format!(
        "part single: every previous record timestamp (t,l) in {{0..4}} x {{0,1,2,2^32,u64::MAX-1}} x clock reading in {{0..5}} us, new record built exactly as publish() does; part seq: every clock-reading sequence of length <= {n}+1 over {alphabet:?}, one publication per reading (NodeInfo level, own and remote entry); part book: every clock-reading sequence of length <= {bn}+1 over {balphabet:?} x (no / one address-less publication) through the real AddressBook actor mirroring AddressBookDiscovery::publish; oracle after every publication: accepted as newer (Ok(true)) and stored; non-trivial = at least one publication made while the wall clock reads <= the previous record's time"
    );
    let e0 = rep.evaluations;
    part_single(&mut rep);
    let e1 = rep.evaluations;
    rep.part(json!({"part": "single", "cases": e1 - e0}));
    part_seq(&mut rep, n, &alphabet);
    let e2 = rep.evaluations;
    rep.part(json!({"part": "seq", "clock_reading_sequences": e2 - e1, "max_publications": n + 1, "clock_alphabet": alphabet}));
    part_book(&mut rep, bn, &balphabet);
    rep.part(json!({"part": "book", "cases": rep.evaluations - e2, "max_publications": bn + 1, "clock_alphabet": balphabet}));
    rep.assume("logical = u64::MAX excluded (no greater logical value within one tick), as in the p2panda-core half of C18");
    rep.assume("clock readings are microsecond values standing for earlier / equal / later; increment only compares the reading with the previous time");
    rep.assume("book part: one AddressBook (in-memory SQLite) per worker thread is shared by that worker's cases, each case uses a fresh node id, so entries never interact");
    rep.assume("publish() is re-enacted call by call in the harness (it lives in a tokio task spawned by iroh's AddressLookup::publish and needs an iroh endpoint); the semaphore that serialises concurrent publications is not modelled: publications are sequential here");
    rep.finish()
}
