//! Not part of any check: compiles the real `backoff.rs` into an integration-test target, where
//! `cfg(test)` is on, so that the file's *own* unit tests (`tests::increment`, `tests::reset`)
//! can be run against a patched tree (used to validate proposed-fixes/C28-clamp-at-increment.diff):
//! `cargo test --release --offline -p vh-net --test c28_backoff_unit`.
#![allow(dead_code)]
include!("/repo/p2panda-net/src/discovery/backoff.rs");
