//! C12 Released orderer items survive cancellation of `next`.
//!
//! Fault enumeration: the real `Orderer<Item, Hash, Gate<SqliteStore>>` runs on a real in-memory
//! SQLite store behind `Gate`, which delegates every store call, numbers the calls made by a
//! `next` call and, where the explorer says so, makes `next` return `Pending` outward
//! (before / during / after the real call).  The driver DROPS the `next` future at that point —
//! what `Buffer`'s `select!` does when new input arrives first — and goes on calling `next`
//! until the orderer parks on an empty queue.
use std::collections::BTreeMap;
use std::time::Duration;

use explorer::{catch, dfs_par, json, Chooser, DfsCfg, Report, Value};
use p2panda_core::Hash;
use p2panda_store::operations::OperationStore;
use p2panda_store::{SqliteStore, Transaction};
use p2panda_stream::orderer::Orderer;
use p2panda_stream::Processor;

use crate::gate::{drive_next, key, make_item, pending_rows, ready_rows, wipe, Ctl, Ctx, Fired, Gate, Item, NextEnd};

#[derive(Clone, Debug, PartialEq, Eq, Hash)]
struct Hist {
    shape: &'static str,
    /// delivery order (node indices)
    order: Vec<usize>,
    drain_each: bool,
    max_cancels: usize,
}

fn shape_lists(shape: &str) -> Vec<Vec<usize>> {
    match shape {
        "single" => vec![vec![]],
        "chain2" => vec![vec![], vec![0]],
        "chain3" => vec![vec![], vec![0], vec![1]],
        "fork3" => vec![vec![], vec![0], vec![0]],
        "diamond4" => vec![vec![], vec![0], vec![0], vec![1, 2]],
        _ => vec![vec![]],
    }
}

fn static_shape(s: &str) -> &'static str {
    match s {
        "single" => "single",
        "chain2" => "chain2",
        "chain3" => "chain3",
        "fork3" => "fork3",
        "diamond4" => "diamond4",
        _ => "single",
    }
}

impl Hist {
    fn to_json(&self, vector: &[u32]) -> Value {
        json!({"part": "c12", "shape": self.shape, "order": self.order, "drain_each": self.drain_each, "max_cancels": self.max_cancels, "vector": vector})
    }
    fn from_json(v: &Value) -> Option<(Hist, Vec<u32>)> {
        Some((
            Hist {
                shape: static_shape(v.get("shape")?.as_str()?),
                order: v.get("order")?.as_array()?.iter().map(|x| x.as_u64().unwrap_or(0) as usize).collect(),
                drain_each: v.get("drain_each")?.as_bool()?,
                max_cancels: v.get("max_cancels")?.as_u64()? as usize,
            },
            v.get("vector")?.as_array()?.iter().map(|x| x.as_u64().unwrap_or(0) as u32).collect(),
        ))
    }
    fn describe(&self) -> String {
        format!(
            "dependency graph {} {:?}, processed in order {:?}, `next` called {}",
            self.shape,
            shape_lists(self.shape),
            self.order,
            if self.drain_each { "after every process until it parks" } else { "after all items were processed" }
        )
    }
}

#[derive(Clone, Debug)]
struct CancelEv {
    fired: Fired,
    /// nodes handed out by take_next_ready inside the cancelled call
    taken: Vec<usize>,
    trace: Vec<&'static str>,
}

#[derive(Debug, Default)]
struct Obs {
    /// chronological: P(i) process, R(i) next returned node i, C(..) next cancelled, I = parked
    script: Vec<String>,
    returned: Vec<usize>,
    cancels: Vec<CancelEv>,
    /// (node, in_queue) per row of orderer_ready_v1 at the end
    rows: Vec<(Result<usize, String>, bool)>,
    pending_rows: i64,
    error: Option<String>,
    hang: Option<String>,
    during_completed_first_poll: u64,
}

async fn run_hist(store: &SqliteStore, h: &Hist, ch: &Chooser) -> Obs {
    let mut o = Obs::default();
    macro_rules! tri {
        ($e:expr) => {
            match $e {
                Ok(v) => v,
                Err(e) => {
                    o.error = Some(e.to_string());
                    return o;
                }
            }
        };
    }
    tri!(wipe(store).await);
    let lists = shape_lists(h.shape);
    let sk = key();
    let mut items: Vec<Item> = vec![];
    for (i, l) in lists.iter().enumerate() {
        items.push(make_item(&sk, l.iter().map(|d| items[*d].0.hash).collect(), i as u64));
    }
    {
        let permit = tri!(store.begin().await);
        for it in &items {
            tri!(<SqliteStore as OperationStore<Item, Hash>>::insert_operation(store, &it.0.hash, it, &0u64).await);
        }
        tri!(store.commit(permit).await);
    }
    let node_of = |id: &str| items.iter().position(|it| it.0.hash.to_string() == id).ok_or(id.to_string());
    let ctl = Ctl::new();
    ctl.plan(ch, h.max_cancels);
    let ord: Orderer<Item, Hash, Gate<SqliteStore>> = Orderer::new(Gate::new(store.clone(), ctl.clone()));

    let mut steps: Vec<Option<usize>> = vec![]; // Some(i) = process item i, None = drain
    for &i in &h.order {
        steps.push(Some(i));
        if h.drain_each {
            steps.push(None);
        }
    }
    if !h.drain_each {
        steps.push(None);
    }
    for st in steps {
        match st {
            Some(i) => {
                if let Err((_, e)) = ord.process(items[i].clone()).await {
                    o.error = Some(format!("Orderer::process: {e}"));
                    return o;
                }
                o.script.push(format!("P{i}"));
            }
            None => {
                let mut rounds = 0;
                loop {
                    rounds += 1;
                    if rounds > 50 {
                        o.hang = Some("more than 50 `next` calls in one drain".into());
                        return o;
                    }
                    match drive_next(&ord, &ctl).await {
                        NextEnd::Done(Ok(item)) => match node_of(&item.0.hash.to_string()) {
                            Ok(n) => {
                                o.returned.push(n);
                                o.script.push(format!("R{n}"));
                            }
                            Err(id) => {
                                o.error = Some(format!("next returned unknown item {id}"));
                                return o;
                            }
                        },
                        NextEnd::Done(Err((_, e))) => {
                            o.script.push(format!("E({e})"));
                            o.error = Some(format!("Orderer::next: {e}"));
                            return o;
                        }
                        NextEnd::Cancelled { fired, taken, trace } => {
                            o.script.push(format!("C({} {}#{})", fired.variant, fired.call, fired.index));
                            o.cancels.push(CancelEv {
                                fired,
                                taken: taken.iter().filter_map(|id| node_of(id).ok()).collect(),
                                trace,
                            });
                        }
                        NextEnd::Idle => {
                            o.script.push("I".into());
                            break;
                        }
                        NextEnd::Hang { trace } => {
                            o.hang = Some(format!("`next` made no progress for 10 s; store calls of that call: {trace:?}"));
                            return o;
                        }
                    }
                }
            }
        }
    }
    o.during_completed_first_poll = ctl.during_completed_first_poll.get();
    let rows = tri!(ready_rows(store).await);
    o.rows = rows.iter().map(|(id, _, q)| (node_of(id), *q)).collect();
    o.pending_rows = tri!(pending_rows(store).await);
    o
}

fn exec(h: &Hist, ch: &Chooser) -> Obs {
    let ctx = Ctx::take();
    let store = ctx.store();
    let r = catch(|| ctx.rt.block_on(run_hist(&store, h, ch)));
    match r {
        Ok(o) => {
            let clean = o.error.is_none() && o.hang.is_none();
            ctx.give_back(clean);
            o
        }
        Err(p) => {
            ctx.give_back(false);
            Obs {
                error: Some(format!("panic: {p}")),
                ..Default::default()
            }
        }
    }
}

fn point(f: &Fired) -> String {
    format!("cancel-{}-{}", f.variant, f.call)
}

fn judge(rep: &mut Report, h: &Hist, ch: &Chooser, o: &Obs, table: &mut BTreeMap<String, (u64, u64)>) {
    let replay = h.to_json(&ch.vector());
    let ctx = || format!("{}; what happened: {}; rows of orderer_ready_v1 (node, in_queue): {:?}", h.describe(), o.script.join(" "), o.rows);
    let last_point = o.cancels.last().map(|c| point(&c.fired)).unwrap_or_else(|| "no-cancel".into());
    if let Some(hang) = &o.hang {
        rep.violation(format!("hang/{last_point}"), format!("{hang}; {}", ctx()), replay);
        return;
    }
    if let Some(e) = &o.error {
        let class = if e.starts_with("panic") { "panic" } else { "error" };
        rep.violation(format!("{class}/{last_point}"), format!("{e}; {}", ctx()), replay);
        return;
    }
    for c in &o.cancels {
        table.entry(format!("{}/{}", c.fired.call, c.fired.variant)).or_default().0 += 1;
    }
    let n = shape_lists(h.shape).len();
    // every item of these graphs has all its dependencies delivered, so the reference model
    // releases all of them
    let released: Vec<usize> = o.rows.iter().filter_map(|(n, _)| n.clone().ok()).collect();
    for x in 0..n {
        if !released.contains(&x) {
            rep.violation(
                "item-not-released",
                format!("n{x} has no row in orderer_ready_v1 although all its dependencies were processed; {}", ctx()),
                replay.clone(),
            );
        }
    }
    for (node, in_queue) in &o.rows {
        let x = match node {
            Ok(x) => *x,
            Err(id) => {
                rep.violation("unknown-ready-row", format!("row {id}; {}", ctx()), replay.clone());
                continue;
            }
        };
        let times = o.returned.iter().filter(|r| **r == x).count();
        // the cancelled call that had taken this item last
        let culprit = o.cancels.iter().rev().find(|c| c.taken.contains(&x));
        let cp = culprit.map(|c| point(&c.fired)).unwrap_or_else(|| "no-cancelled-call-took-it".into());
        if times == 0 {
            if *in_queue {
                rep.violation(
                    format!("released-item-stuck-in-queue/{cp}"),
                    format!("n{x} is still queued (in_queue = TRUE) although `next` parked as if the queue were empty; {}", ctx()),
                    replay.clone(),
                );
            } else {
                if let Some(c) = culprit {
                    table.entry(format!("{}/{}", c.fired.call, c.fired.variant)).or_default().1 += 1;
                }
                rep.violation(
                    format!("released-item-lost/{cp}"),
                    format!(
                        "n{x} was dequeued (in_queue = FALSE) but no `next` call ever returned it: the `next` future that had taken it was dropped at the injected Pending ({}){}; {}",
                        cp,
                        culprit.map(|c| format!(", store calls of that `next`: {:?}", c.trace)).unwrap_or_default(),
                        ctx()
                    ),
                    replay.clone(),
                );
            }
        } else if times > 1 {
            rep.violation(
                format!("released-item-returned-twice/{cp}"),
                format!("n{x} was returned by {times} `next` calls; {}", ctx()),
                replay.clone(),
            );
        } else if *in_queue {
            rep.violation(
                format!("returned-item-still-queued/{cp}"),
                format!("n{x} was returned once but its row still says in_queue = TRUE; {}", ctx()),
                replay.clone(),
            );
        }
    }
    for r in &o.returned {
        if !released.contains(r) {
            rep.violation("returned-item-not-in-ready-table", format!("n{r}; {}", ctx()), replay.clone());
        }
    }
    if o.pending_rows != 0 {
        rep.violation("pending-rows-left", format!("{} rows left in orderer_pending_v1; {}", o.pending_rows, ctx()), replay);
    }
}

fn pick_hist(ch: &Chooser, shapes: &[&'static str], max_cancels: usize) -> Hist {
    let shape = shapes[ch.choose_free(shapes.len(), "shape")];
    let n = shape_lists(shape).len();
    let order: Vec<usize> = if n > 1 && ch.choose_free(2, "order") == 1 { (0..n).rev().collect() } else { (0..n).collect() };
    let drain_each = ch.choose_free(2, "drain") == 1;
    Hist {
        shape,
        order,
        drain_each,
        max_cancels,
    }
}

pub fn run(mut rep: Report) -> i32 {
    let thorough = rep.thorough();
    rep.rule = "one execution = one history (graph single/chain2/chain3/fork3, thorough also diamond4; dependency-first or dependents-first processing; `next` after every process or only at the end) with up to 1 (thorough: 2) cancellations of `next`, each at one store call of that `next` (begin, take_next_ready, commit, get_operation) in variant before/during/after; non-trivial = at least one cancellation was injected (the `next` future was dropped at an await point)".into();
    let mut table: BTreeMap<String, (u64, u64)> = BTreeMap::new();

    if let Some(path) = rep.args.replay.clone() {
        match explorer::report::load_replay(&path) {
            Ok((_k, rp)) => match Hist::from_json(&rp) {
                Some((h, vector)) => {
                    let ch = Chooser::new(vector);
                    // the history choices are part of the vector: consume them the same way
                    let shapes: Vec<&'static str> = vec!["single", "chain2", "chain3", "fork3", "diamond4"];
                    let _ = shapes;
                    let o = exec_with_prefix(&h, &ch);
                    println!("replay: {}", h.describe());
                    println!("what happened: {}", o.script.join(" "));
                    println!("rows: {:?}", o.rows);
                    judge(&mut rep, &h, &ch, &o, &mut table);
                }
                None => rep.machinery_error("replay file has no C12 history".into()),
            },
            Err(e) => rep.machinery_error(e),
        }
        Ctx::drain_pool();
        return rep.finish();
    }

    let shapes: Vec<&'static str> = if thorough { vec!["single", "chain2", "chain3", "fork3", "diamond4"] } else { vec!["single", "chain2", "chain3", "fork3"] };
    let max_cancels = if thorough { 2 } else { 1 };
    let cfg = DfsCfg {
        max_dev: max_cancels,
        max_execs: u64::MAX,
        wall: Duration::from_secs(if thorough { 540 } else { 35 }),
        threads: rep.args.threads,
    };
    let mut first_poll_ready = 0u64;
    {
        let rep_ref = &mut rep;
        let table_ref = &mut table;
        let fpr = &mut first_poll_ready;
        let shapes = &shapes;
        let st = dfs_par(
            &cfg,
            |ch| {
                let h = pick_hist(ch, shapes, max_cancels);
                let o = exec(&h, ch);
                (h, o)
            },
            |ch, (h, o)| {
                *fpr += o.during_completed_first_poll;
                if !o.cancels.is_empty() {
                    rep_ref.nontrivial(&ch.vector());
                }
                rep_ref.outcome(&(h.shape, &h.order, h.drain_each, &o.returned, o.rows.iter().map(|r| r.1).collect::<Vec<_>>()));
                rep_ref.state(&(h.shape, &h.order, h.drain_each, &o.script));
                if rep_ref.want_sample() && o.cancels.len() == max_cancels && h.shape == "fork3" && o.error.is_none() {
                    rep_ref.sample(json!({"history": h.describe(), "what_happened": o.script.join(" "), "returned": o.returned}));
                }
                judge(rep_ref, &h, ch, &o, table_ref);
            },
        );
        rep.absorb_dfs("orderer next cancellation", &st, max_cancels);
    }
    Ctx::drain_pool();
    let t: BTreeMap<String, Value> = table
        .iter()
        .map(|(k, (n, lost))| (k.clone(), json!({"cancellations": n, "followed_by_lost_item": lost})))
        .collect();
    rep.set("cancel_points", json!(t));
    rep.set("during_variant_completed_within_first_poll", json!(first_poll_ready));
    rep.assume("the cancellation points are the store calls made by `Orderer::next` (the tokio Mutex and Notify awaits in it are never pending in these sequential histories, except the final park on an empty queue, after which the future is dropped too)");
    rep.assume("variant 'during' drops the future after the first poll of the real SQLite call returned Pending: the command has been handed to sqlx's worker thread, which still executes it; if the real call happened to complete within its first poll the case degenerates to variant 'after' (counted in during_variant_completed_within_first_poll)");
    rep.assume("process() calls are never cancelled (Buffer awaits them inside the select! arm body)");
    rep.finish()
}

/// Replay: the recorded vector already contains the history choices (shape, order, drain), so
/// they are consumed from the chooser exactly as during exploration.
fn exec_with_prefix(h: &Hist, ch: &Chooser) -> Obs {
    let shapes: Vec<&'static str> = if h.max_cancels >= 2 { vec!["single", "chain2", "chain3", "fork3", "diamond4"] } else { vec!["single", "chain2", "chain3", "fork3"] };
    let h2 = pick_hist(ch, &shapes, h.max_cancels);
    debug_assert_eq!(&h2, h);
    exec(&h2, ch)
}
