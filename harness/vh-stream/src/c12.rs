//! C12 Released orderer items survive cancellation of `next`.
//!
//! Fault enumeration: the real `Orderer<Item, Hash, Gate<SqliteStore>>` runs on a real in-memory
//! SQLite store behind `Gate`, which delegates every store call, numbers the calls made by a
//! `next` call and, where the explorer says so, makes `next` return `Pending` outward
//! (before / during / after the real call).  The driver DROPS the `next` future at that point —
//! what `Buffer`'s `select!` does when new input arrives first — and goes on calling `next`
//! until the orderer parks on an empty queue.
use std::collections::BTreeMap;
use std::time::Duration;

use explorer::{catch, dfs_par, json, Chooser, DfsCfg, Report, Value};
use p2panda_core::Hash;
use p2panda_store::operations::OperationStore;
use p2panda_store::{SqliteStore, Transaction};
use p2panda_stream::orderer::Orderer;
use p2panda_stream::Processor;

use crate::minv::MinV;
use crate::gate::{take_trouble, too_much_trouble, trouble, drive_next, key, make_item, pending_rows, ready_rows, wipe, Ctl, Ctx, Fired, Gate, Item, NextEnd};

#[derive(Clone, Debug, PartialEq, Eq, Hash)]
struct Hist {
    shape: &'static str,
    /// delivery order (node indices)
    order: Vec<usize>,
    drain_each: bool,
    max_cancels: usize,
    /// index of the exploration part (determines how the free choices are decoded on replay)
    part: usize,
}

fn shape_lists(shape: &str) -> Vec<Vec<usize>> {
    match shape {
        "single" => vec![vec![]],
        "chain2" => vec![vec![], vec![0]],
        "chain3" => vec![vec![], vec![0], vec![1]],
        "fork3" => vec![vec![], vec![0], vec![0]],
        "diamond4" => vec![vec![], vec![0], vec![0], vec![1, 2]],
        _ => vec![vec![]],
    }
}

fn static_shape(s: &str) -> &'static str {
    match s {
        "single" => "single",
        "chain2" => "chain2",
        "chain3" => "chain3",
        "fork3" => "fork3",
        "diamond4" => "diamond4",
        _ => "single",
    }
}

impl Hist {
    fn to_json(&self, vector: &[u32]) -> Value {
        json!({"part": "c12", "shape": self.shape, "order": self.order, "drain_each": self.drain_each, "max_cancels": self.max_cancels,
               "part_index": self.part, "vector": vector,
               "legend": "vector = [shape, order, drain policy, then one entry per store call of every `next`: 0 none, 1 Pending before, 2 Pending after first poll, 3 Pending after completion]"})
    }
    fn from_json(v: &Value) -> Option<(Hist, Vec<u32>)> {
        Some((
            Hist {
                shape: static_shape(v.get("shape")?.as_str()?),
                order: v.get("order")?.as_array()?.iter().map(|x| x.as_u64().unwrap_or(0) as usize).collect(),
                drain_each: v.get("drain_each")?.as_bool()?,
                max_cancels: v.get("max_cancels")?.as_u64()? as usize,
                part: v.get("part_index")?.as_u64()? as usize,
            },
            v.get("vector")?.as_array()?.iter().map(|x| x.as_u64().unwrap_or(0) as u32).collect(),
        ))
    }
    fn describe(&self) -> String {
        format!(
            "dependency graph {} {:?}, processed in order {:?}, `next` called {}",
            self.shape,
            shape_lists(self.shape),
            self.order,
            if self.drain_each { "after every process until it parks" } else { "after all items were processed" }
        )
    }
}

#[derive(Clone, Debug)]
struct CancelEv {
    fired: Fired,
    /// nodes handed out by take_next_ready inside the cancelled call
    taken: Vec<usize>,
    trace: Vec<&'static str>,
}

#[derive(Debug, Default)]
struct Obs {
    /// chronological: P(i) process, R(i) next returned node i, C(..) next cancelled, I = parked
    script: Vec<String>,
    returned: Vec<usize>,
    cancels: Vec<CancelEv>,
    /// (node, in_queue) per row of orderer_ready_v1 at the end
    rows: Vec<(Result<usize, String>, bool)>,
    pending_rows: i64,
    error: Option<String>,
    hang: Option<String>,
    during_completed_first_poll: u64,
    /// not executed: the exploration was cut short (see gate::TROUBLE)
    skipped: bool,
}

async fn run_hist(store: &SqliteStore, h: &Hist, ch: &Chooser) -> Obs {
    let mut o = Obs::default();
    macro_rules! tri {
        ($e:expr) => {
            match $e {
                Ok(v) => v,
                Err(e) => {
                    o.error = Some(e.to_string());
                    return o;
                }
            }
        };
    }
    tri!(wipe(store).await);
    let lists = shape_lists(h.shape);
    let sk = key();
    let mut items: Vec<Item> = vec![];
    for (i, l) in lists.iter().enumerate() {
        items.push(make_item(&sk, l.iter().map(|d| items[*d].0.hash).collect(), i as u64));
    }
    {
        let permit = tri!(store.begin().await);
        for it in &items {
            tri!(<SqliteStore as OperationStore<Item, Hash>>::insert_operation(store, &it.0.hash, it, &0u64).await);
        }
        tri!(store.commit(permit).await);
    }
    let node_of = |id: &str| items.iter().position(|it| it.0.hash.to_string() == id).ok_or(id.to_string());
    let ctl = Ctl::new();
    ctl.plan(ch, h.max_cancels);
    let ord: Orderer<Item, Hash, Gate<SqliteStore>> = Orderer::new(Gate::new(store.clone(), ctl.clone()));

    let mut steps: Vec<Option<usize>> = vec![]; // Some(i) = process item i, None = drain
    for &i in &h.order {
        steps.push(Some(i));
        if h.drain_each {
            steps.push(None);
        }
    }
    if !h.drain_each {
        steps.push(None);
    }
    for st in steps {
        match st {
            Some(i) => {
                if let Err((_, e)) = ord.process(items[i].clone()).await {
                    o.error = Some(format!("Orderer::process: {e}"));
                    return o;
                }
                o.script.push(format!("P{i}"));
            }
            None => {
                let mut rounds = 0;
                loop {
                    rounds += 1;
                    if rounds > 50 {
                        o.hang = Some("more than 50 `next` calls in one drain".into());
                        return o;
                    }
                    match drive_next(&ord, &ctl).await {
                        NextEnd::Done(Ok(item)) => match node_of(&item.0.hash.to_string()) {
                            Ok(n) => {
                                o.returned.push(n);
                                o.script.push(format!("R{n}"));
                            }
                            Err(id) => {
                                o.error = Some(format!("next returned unknown item {id}"));
                                return o;
                            }
                        },
                        NextEnd::Done(Err((_, e))) => {
                            o.script.push(format!("E({e})"));
                            o.error = Some(format!("Orderer::next: {e}"));
                            return o;
                        }
                        NextEnd::Cancelled { fired, taken, trace } => {
                            o.script.push(format!("C({} {}#{})", fired.variant, fired.call, fired.index));
                            o.cancels.push(CancelEv {
                                fired,
                                taken: taken.iter().filter_map(|id| node_of(id).ok()).collect(),
                                trace,
                            });
                        }
                        NextEnd::Idle => {
                            o.script.push("I".into());
                            break;
                        }
                        NextEnd::Hang { trace } => {
                            o.hang = Some(format!("`next` made no progress for 12 s; store calls of that call: {trace:?}"));
                            return o;
                        }
                    }
                }
            }
        }
    }
    o.during_completed_first_poll = ctl.during_completed_first_poll.get();
    let rows = tri!(ready_rows(store).await);
    o.rows = rows.iter().map(|(id, _, q)| (node_of(id), *q)).collect();
    o.pending_rows = tri!(pending_rows(store).await);
    o
}

/// The in-memory database lives in its pooled connection; when a store call is cancelled at the
/// wrong moment sqlx discards that connection and the next call sees an empty database ("no such
/// table").  That is an artefact of the in-memory test store, not an outcome of the orderer: the
/// execution is repeated on a fresh store (up to three times) before it is reported as an error.
/// The in-memory database lives in its pooled connection; when a store call is cancelled at the
/// wrong moment sqlx discards that connection and the next call sees an empty database ("no such
/// table").  That is an artefact of the in-memory test store, not an outcome of the orderer: such
/// an execution is repeated on a fresh store (up to three times) before it is reported as an error.
fn database_vanished(o: &Obs) -> bool {
    o.error.as_deref().is_some_and(|e| e.contains("no such table"))
}

fn exec(h: &Hist, ch: &Chooser) -> Obs {
    if too_much_trouble() {
        return Obs {
            skipped: true,
            ..Default::default()
        };
    }
    let ctx = Ctx::take();
    let store = ctx.store();
    let r = catch(|| {
        ctx.rt().block_on(async {
            match tokio::time::timeout(Duration::from_secs(40), run_hist(&store, h, ch)).await {
                Ok(o) => o,
                Err(_) => Obs {
                    hang: Some("the history did not finish within 40 s".into()),
                    ..Default::default()
                },
            }
        })
    });
    // the clone must go before the context: the last reference has to be dropped by Ctx::drop
    // inside the runtime
    drop(store);
    match r {
        Ok(o) => {
            let clean = o.error.is_none() && o.hang.is_none();
            if !clean {
                trouble();
            }
            ctx.give_back(clean);
            o
        }
        Err(p) => {
            trouble();
            ctx.give_back(false);
            Obs {
                error: Some(format!("panic: {p}")),
                ..Default::default()
            }
        }
    }
}

fn point(f: &Fired) -> String {
    format!("cancel-{}-{}", f.variant, f.call)
}

fn judge(mv: &mut MinV, h: &Hist, ch: &Chooser, o: &Obs, table: &mut BTreeMap<String, (u64, u64)>) {
    if o.skipped {
        return;
    }
    let replay = || h.to_json(&ch.vector());
    let ctx = || format!("{}; what happened: {}; rows of orderer_ready_v1 (node, in_queue): {:?}", h.describe(), o.script.join(" "), o.rows);
    let size = (o.cancels.len() as u64, h.order.len() as u64, o.script.len() as u64 + if h.drain_each { 1 } else { 0 });
    let last_point = o.cancels.last().map(|c| point(&c.fired)).unwrap_or_else(|| "no-cancel".into());
    if let Some(hang) = &o.hang {
        mv.add(format!("hang/{last_point}"), size, || format!("{hang}; {}", ctx()), replay);
        return;
    }
    if let Some(e) = &o.error {
        let class = if e.starts_with("panic") { "panic" } else { "error" };
        mv.add(format!("{class}/{last_point}"), size, || format!("{e}; {}", ctx()), replay);
        return;
    }
    for c in &o.cancels {
        table.entry(format!("{}/{}", c.fired.call, c.fired.variant)).or_default().0 += 1;
    }
    let n = shape_lists(h.shape).len();
    // every item of these graphs has all its dependencies delivered, so the reference model
    // releases all of them
    let released: Vec<usize> = o.rows.iter().filter_map(|(n, _)| n.clone().ok()).collect();
    for x in 0..n {
        if !released.contains(&x) {
            mv.add(
                "item-not-released".into(),
                size,
                || format!("n{x} has no row in orderer_ready_v1 although all its dependencies were processed; {}", ctx()),
                replay,
            );
        }
    }
    for (node, in_queue) in &o.rows {
        let x = match node {
            Ok(x) => *x,
            Err(id) => {
                mv.add("unknown-ready-row".into(), size, || format!("row {id}; {}", ctx()), replay);
                continue;
            }
        };
        let times = o.returned.iter().filter(|r| **r == x).count();
        // the cancelled call that had taken this item last
        let culprit = o.cancels.iter().rev().find(|c| c.taken.contains(&x));
        let cp = culprit.map(|c| point(&c.fired)).unwrap_or_else(|| "no-cancelled-call-took-it".into());
        if times == 0 {
            if *in_queue {
                mv.add(
                    format!("released-item-stuck-in-queue/{cp}"),
                    size,
                    || format!("n{x} is still queued (in_queue = TRUE) although `next` parked as if the queue were empty; {}", ctx()),
                    replay,
                );
            } else {
                if let Some(c) = culprit {
                    table.entry(format!("{}/{}", c.fired.call, c.fired.variant)).or_default().1 += 1;
                }
                mv.add(
                    format!("released-item-lost/{cp}"),
                    size,
                    || {
                        format!(
                            "n{x} was dequeued (in_queue = FALSE) but no `next` call ever returned it: the `next` future that had taken it was dropped at the injected Pending ({}){}; {}",
                            cp,
                            culprit.map(|c| format!(", store calls of that `next`: {:?}", c.trace)).unwrap_or_default(),
                            ctx()
                        )
                    },
                    replay,
                );
            }
        } else if times > 1 {
            mv.add(format!("released-item-returned-twice/{cp}"), size, || format!("n{x} was returned by {times} `next` calls; {}", ctx()), replay);
        } else if *in_queue {
            mv.add(
                format!("returned-item-still-queued/{cp}"),
                size,
                || format!("n{x} was returned once but its row still says in_queue = TRUE; {}", ctx()),
                replay,
            );
        }
    }
    for r in &o.returned {
        if !released.contains(r) {
            mv.add("returned-item-not-in-ready-table".into(), size, || format!("n{r}; {}", ctx()), replay);
        }
    }
    if o.pending_rows != 0 {
        mv.add("pending-rows-left".into(), size, || format!("{} rows left in orderer_pending_v1; {}", o.pending_rows, ctx()), replay);
    }
}

#[derive(Clone, Debug)]
struct Part {
    name: &'static str,
    shapes: Vec<&'static str>,
    /// every processing order (else: dependency-first and dependents-first only)
    all_orders: bool,
    max_cancels: usize,
    wall: u64,
}

fn parts(thorough: bool) -> Vec<Part> {
    if thorough {
        vec![
            Part { name: "graphs of up to 3 items, every processing order, up to 2 cancellations", shapes: vec!["single", "chain2", "chain3", "fork3"], all_orders: true, max_cancels: 2, wall: 240 },
            Part { name: "diamond4, every processing order, up to 2 cancellations", shapes: vec!["diamond4"], all_orders: true, max_cancels: 2, wall: 240 },
            Part { name: "single/chain2, forward/reverse processing order, up to 3 cancellations", shapes: vec!["single", "chain2"], all_orders: false, max_cancels: 3, wall: 180 },
        ]
    } else {
        vec![
            Part { name: "single/chain2/fork3, forward/reverse processing order, up to 2 cancellations", shapes: vec!["single", "chain2", "fork3"], all_orders: false, max_cancels: 2, wall: 90 },
            Part { name: "chain3, forward/reverse processing order, 1 cancellation", shapes: vec!["chain3"], all_orders: false, max_cancels: 1, wall: 30 },
        ]
    }
}

fn perms(n: usize) -> Vec<Vec<usize>> {
    if n == 0 {
        return vec![vec![]];
    }
    let mut out = vec![];
    for p in perms(n - 1) {
        for i in 0..=p.len() {
            let mut q = p.clone();
            q.insert(i, n - 1);
            out.push(q);
        }
    }
    out.sort();
    out
}

fn pick_hist(ch: &Chooser, part: &Part, part_index: usize) -> Hist {
    let shape = part.shapes[ch.choose_free(part.shapes.len(), "shape")];
    let n = shape_lists(shape).len();
    let order: Vec<usize> = if part.all_orders {
        let ps = perms(n);
        ps[ch.choose_free(ps.len(), "order")].clone()
    } else if n > 1 && ch.choose_free(2, "order") == 1 {
        (0..n).rev().collect()
    } else {
        (0..n).collect()
    };
    let drain_each = ch.choose_free(2, "drain") == 1;
    Hist {
        shape,
        order,
        drain_each,
        max_cancels: part.max_cancels,
        part: part_index,
    }
}

/// Re-execute a recorded (history, vector).
fn rerun(h: &Hist, vector: Vec<u32>) -> Option<(Hist, Chooser, Obs)> {
    // parts of both tiers; the recorded history says which one decodes the free choices
    let all: Vec<Part> = parts(true).into_iter().chain(parts(false)).collect();
    let part = all.iter().find(|p| {
        p.max_cancels == h.max_cancels && p.shapes.contains(&h.shape) && {
            let ch = Chooser::new(vector.clone());
            &pick_hist(&ch, p, h.part) == h
        }
    })?;
    let ch = Chooser::new(vector);
    let h2 = pick_hist(&ch, part, h.part);
    let o = exec(&h2, &ch);
    Some((h2, ch, o))
}

pub fn run(mut rep: Report) -> i32 {
    let thorough = rep.thorough();
    rep.rule = "one execution = one history (graph single/chain2/chain3/fork3, thorough also diamond4; processing order; `next` after every process or only at the end) with up to 2 (thorough: also 3 on single/chain2) cancellations of `next`, each at one store call of that `next` (begin, take_next_ready, commit, get_operation) in variant before/during/after; non-trivial = at least one cancellation was injected (the `next` future was dropped at an await point)".into();
    let mut table: BTreeMap<String, (u64, u64)> = BTreeMap::new();
    let mut mv = MinV::new();

    if let Some(path) = rep.args.replay.clone() {
        match explorer::report::load_replay(&path) {
            Ok((_k, rp)) => match Hist::from_json(&rp) {
                Some((h, vector)) => match rerun(&h, vector) {
                    Some((h2, ch, o)) => {
                        println!("replay: {}", h2.describe());
                        println!("what happened: {}", o.script.join(" "));
                        println!("rows: {:?}", o.rows);
                        judge(&mut mv, &h2, &ch, &o, &mut table);
                        mv.flush(&mut rep);
                    }
                    None => rep.machinery_error("replay vector does not decode to the recorded history".into()),
                },
                None => rep.machinery_error("replay file has no C12 history".into()),
            },
            Err(e) => rep.machinery_error(e),
        }
        Ctx::drain_pool();
        return rep.finish();
    }

    let mut first_poll_ready = 0u64;
    for (pi, part) in parts(thorough).iter().enumerate() {
        let cfg = DfsCfg {
            max_dev: part.max_cancels,
            max_execs: u64::MAX,
            wall: Duration::from_secs(part.wall),
            threads: rep.args.threads,
        };
        let rep_ref = &mut rep;
        let table_ref = &mut table;
        let mv_ref = &mut mv;
        let fpr = &mut first_poll_ready;
        let st = dfs_par(
            &cfg,
            |ch| {
                let mut h = pick_hist(ch, part, pi);
                let mut o = exec(&h, ch);
                for _ in 0..3 {
                    if !database_vanished(&o) {
                        break;
                    }
                    // repeat the whole execution (all its decisions) on a fresh store
                    ch.reset();
                    h = pick_hist(ch, part, pi);
                    o = exec(&h, ch);
                }
                (h, o)
            },
            |ch, (h, o)| {
                if o.skipped {
                    return;
                }
                *fpr += o.during_completed_first_poll;
                if !o.cancels.is_empty() {
                    rep_ref.nontrivial(&(pi, ch.vector()));
                }
                rep_ref.outcome(&(h.shape, &h.order, h.drain_each, &o.returned, o.rows.iter().map(|r| r.1).collect::<Vec<_>>()));
                rep_ref.state(&(h.shape, &h.order, h.drain_each, &o.script));
                if rep_ref.want_sample() && o.cancels.len() == 2 && h.shape == "fork3" && o.error.is_none() && o.returned.len() == 3 {
                    rep_ref.sample(json!({"history": h.describe(), "what_happened": o.script.join(" "), "returned": o.returned}));
                }
                judge(mv_ref, &h, ch, &o, table_ref);
            },
        );
        let mut st = st;
        if too_much_trouble() {
            // executions skipped after the cut make fewer decisions than their recorded prefix
            st.divergences.retain(|d| !d.contains("short run") && !d.contains("made only"));
        }
        rep.absorb_dfs(part.name, &st, part.max_cancels);
    }
    let cut_short = take_trouble();
    mv.confirm(&mut rep, |rp| match Hist::from_json(rp).and_then(|(h, v)| rerun(&h, v)) {
        Some((h, ch, o)) => {
            let mut m = MinV::new();
            let mut t = BTreeMap::new();
            judge(&mut m, &h, &ch, &o, &mut t);
            m.minimal_cases().into_iter().map(|(k, _)| k).collect()
        }
        None => vec![],
    });
    Ctx::drain_pool();
    if cut_short {
        rep.not_exhaustive("exploration cut short after 24 executions ended in a hang, panic or store error (each is reported as a violation)");
    }
    mv.flush(&mut rep);
    let t: BTreeMap<String, Value> = table
        .iter()
        .map(|(k, (n, lost))| (k.clone(), json!({"cancellations": n, "followed_by_lost_item": lost})))
        .collect();
    rep.set("cancel_points", json!(t));
    rep.set("during_variant_completed_within_first_poll", json!(first_poll_ready));
    rep.assume("the cancellation points are the store calls made by `Orderer::next` (the tokio Mutex and Notify awaits in it are never pending in these sequential histories, except the final park on an empty queue, after which the future is dropped too)");
    rep.assume("variant 'during' drops the future after the first poll of the real SQLite call returned Pending: the command has been handed to sqlx's worker thread, which still executes it; if the real call happened to complete within its first poll the case degenerates to variant 'after' (counted in during_variant_completed_within_first_poll)");
    rep.assume("process() calls are never cancelled (Buffer awaits them inside the select! arm body)");
    rep.finish()
}
