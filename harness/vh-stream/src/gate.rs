//! Shared infrastructure for C11 / C12: the harness item type carrying explicit dependencies,
//! `Gate<S>` (a store wrapper that delegates every trait call to the real store, numbers the
//! calls made on behalf of a `next` call and can turn one of them into a cancellation point),
//! the driver that polls `Processor::next` until it completes, is cancelled, or parks, and a
//! pool of (runtime, SqliteStore) contexts.
use std::cell::{Cell, RefCell};
use std::collections::HashSet;
use std::future::Future;
use std::pin::pin;
use std::rc::Rc;
use std::sync::Mutex;
use std::task::Poll;
use std::time::Duration;

use explorer::Chooser;
use p2panda_core::traits::Digest;
use p2panda_core::{Body, Hash, Header, LogId, Operation, SigningKey};
use p2panda_store::operations::OperationStore;
use p2panda_store::orderer::OrdererStore;
use p2panda_store::{SqliteStore, Transaction};
use p2panda_stream::orderer::Ordering;
use p2panda_stream::Processor;
use serde::{Deserialize, Serialize};

// ------------------------------------------------------------------------------------------
// Item type
// ------------------------------------------------------------------------------------------

/// Header extension carrying the dependency *list* exactly as the harness wrote it (repeated
/// entries and hashes of operations that never arrive included).
#[derive(Clone, Debug, Default, Serialize, Deserialize, PartialEq, Eq)]
pub struct DepExt {
    pub deps: Vec<Hash>,
    pub nonce: u64,
}

/// `Ordering<Hash>` cannot be implemented for the foreign `Operation<DepExt>` outside
/// p2panda-stream (orphan rule), so the orderer's item type is this newtype; it is stored in and
/// fetched from the real `operations_v1` table as the `Operation<DepExt>` it wraps.
#[derive(Clone, Debug, PartialEq, Eq)]
pub struct Item(pub Operation<DepExt>);

impl Digest<Hash> for Item {
    fn hash(&self) -> Hash {
        self.0.hash
    }
}

impl Ordering<Hash> for Item {
    fn dependencies(&self) -> &[Hash] {
        &self.0.header.extensions.deps
    }
}

impl OperationStore<Item, Hash> for SqliteStore {
    type Error = p2panda_store::sqlite::SqliteError;

    async fn insert_operation<L: LogId>(&self, id: &Hash, operation: &Item, log_id: &L) -> Result<bool, Self::Error> {
        <SqliteStore as OperationStore<Operation<DepExt>, Hash>>::insert_operation(self, id, &operation.0, log_id).await
    }
    async fn get_operation(&self, id: &Hash) -> Result<Option<Item>, Self::Error> {
        Ok(<SqliteStore as OperationStore<Operation<DepExt>, Hash>>::get_operation(self, id).await?.map(Item))
    }
    async fn get_operation_tx(&self, id: &Hash) -> Result<Option<Item>, Self::Error> {
        Ok(<SqliteStore as OperationStore<Operation<DepExt>, Hash>>::get_operation_tx(self, id).await?.map(Item))
    }
    async fn has_operation(&self, id: &Hash) -> Result<bool, Self::Error> {
        <SqliteStore as OperationStore<Operation<DepExt>, Hash>>::has_operation(self, id).await
    }
    async fn has_operation_tx(&self, id: &Hash) -> Result<bool, Self::Error> {
        <SqliteStore as OperationStore<Operation<DepExt>, Hash>>::has_operation_tx(self, id).await
    }
    async fn delete_operation(&self, id: &Hash) -> Result<bool, Self::Error> {
        <SqliteStore as OperationStore<Operation<DepExt>, Hash>>::delete_operation(self, id).await
    }
    async fn delete_operation_payload(&self, id: &Hash) -> Result<bool, Self::Error> {
        <SqliteStore as OperationStore<Operation<DepExt>, Hash>>::delete_operation_payload(self, id).await
    }
}

/// Deterministic signing key.
pub fn key() -> SigningKey {
    SigningKey::from_bytes(&[7u8; 32])
}

/// A signed operation whose header extension names `deps`; `nonce` makes hashes unique per case.
pub fn make_item(sk: &SigningKey, deps: Vec<Hash>, nonce: u64) -> Item {
    let body: Body = nonce.to_be_bytes().to_vec().into();
    let mut header = Header {
        verifying_key: sk.verifying_key(),
        payload_size: body.size(),
        payload_hash: Some(body.hash()),
        extensions: DepExt { deps, nonce },
        ..Default::default()
    };
    header.sign(sk);
    Item(Operation {
        hash: header.hash(),
        header,
        body: Some(body),
    })
}

// ------------------------------------------------------------------------------------------
// Gate
// ------------------------------------------------------------------------------------------

#[derive(Clone, Debug, PartialEq, Eq, Hash)]
pub struct Fired {
    pub call: &'static str,
    pub index: usize,
    pub variant: &'static str,
    /// variant "during" only: the real call completed within its first poll, so the injected
    /// `Pending` came after its effect (same as variant "after")
    pub completed_first_poll: bool,
}

#[derive(Default)]
pub struct Ctl {
    /// a `next` call is being driven: calls are numbered and may be cancellation points
    armed: Cell<bool>,
    chooser: RefCell<Option<Chooser>>,
    cancels_left: Cell<usize>,
    call_idx: Cell<usize>,
    fired: RefCell<Option<Fired>>,
    fired_this_call: Cell<bool>,
    /// the last store call was `take_next_ready` and returned `None`
    idle: Cell<bool>,
    /// ids (as strings) handed out by `take_next_ready` during the current `next` call
    pub taken: RefCell<Vec<String>>,
    /// names of the store calls of the current `next` call
    pub trace: RefCell<Vec<&'static str>>,
    pub during_completed_first_poll: Cell<u64>,
    /// store calls of the driven `next` currently in flight (0: a `Pending` of `next` comes from
    /// a suspension point of the processor's own code, outside every store call)
    in_call: Cell<usize>,
    /// fault injection for `process`: while armed, store calls are numbered and the call with
    /// index `fail_at` returns an error instead of being executed
    pub fail_armed: Cell<bool>,
    pub fail_idx: Cell<usize>,
    pub fail_at: Cell<Option<usize>>,
    pub failed_call: Cell<Option<&'static str>>,
}

impl Ctl {
    pub fn new() -> Rc<Ctl> {
        Rc::new(Ctl::default())
    }
    /// Allow up to `n` cancellations, decided by `ch` at every store call of a `next` call.
    pub fn plan(&self, ch: &Chooser, n: usize) {
        *self.chooser.borrow_mut() = Some(ch.clone());
        self.cancels_left.set(n);
    }
    fn fire(&self, call: &'static str, index: usize, variant: &'static str, completed: bool) {
        *self.fired.borrow_mut() = Some(Fired {
            call,
            index,
            variant,
            completed_first_poll: completed,
        });
        if completed {
            self.during_completed_first_poll.set(self.during_completed_first_poll.get() + 1);
        }
    }
}

/// Delegates every store trait call to `inner`.
#[derive(Clone)]
pub struct Gate<S> {
    pub inner: S,
    pub ctl: Rc<Ctl>,
}

fn cancel_label(call: &'static str) -> &'static str {
    match call {
        "begin" => "cancel@begin",
        "commit" => "cancel@commit",
        "rollback" => "cancel@rollback",
        "take_next_ready" => "cancel@take_next_ready",
        "get_operation" => "cancel@get_operation",
        "get_operation_tx" => "cancel@get_operation_tx",
        _ => "cancel@other",
    }
}

async fn pending_once() {
    let mut first = true;
    std::future::poll_fn(|cx| {
        if first {
            first = false;
            cx.waker().wake_by_ref();
            Poll::Pending
        } else {
            Poll::Ready(())
        }
    })
    .await
}

impl<S> Gate<S> {
    pub fn new(inner: S, ctl: Rc<Ctl>) -> Self {
        Gate { inner, ctl }
    }

    async fn gated<V, E: From<sqlx::Error>, F: Future<Output = Result<V, E>>>(&self, call: &'static str, fut: F) -> Result<V, E> {
        let ctl = &self.ctl;
        ctl.idle.set(false);
        if ctl.fail_armed.get() {
            let k = ctl.fail_idx.get();
            ctl.fail_idx.set(k + 1);
            if ctl.fail_at.get() == Some(k) {
                // the call fails before it reaches the database (a timed-out pool, a lost connection)
                ctl.fail_at.set(None);
                ctl.failed_call.set(Some(call));
                return Err(E::from(sqlx::Error::PoolTimedOut));
            }
        }
        if !ctl.armed.get() {
            return fut.await;
        }
        let index = ctl.call_idx.get();
        ctl.call_idx.set(index + 1);
        ctl.trace.borrow_mut().push(call);
        struct InCall<'a>(&'a Ctl);
        impl Drop for InCall<'_> {
            fn drop(&mut self) {
                self.0.in_call.set(self.0.in_call.get().saturating_sub(1));
            }
        }
        ctl.in_call.set(ctl.in_call.get() + 1);
        let _in_call = InCall(ctl);
        let mut variant = 0;
        if ctl.cancels_left.get() > 0 && !ctl.fired_this_call.get() {
            let ch = ctl.chooser.borrow().clone();
            if let Some(ch) = ch {
                variant = ch.choose(4, cancel_label(call));
            }
        }
        if variant != 0 {
            ctl.cancels_left.set(ctl.cancels_left.get() - 1);
            ctl.fired_this_call.set(true);
        }
        match variant {
            0 => fut.await,
            1 => {
                // Pending before the real call is even started
                ctl.fire(call, index, "before", false);
                pending_once().await;
                fut.await
            }
            2 => {
                // poll the real call once; if that poll is Pending, so are we
                let mut fut = pin!(fut);
                let mut first = true;
                let mut stash = None;
                std::future::poll_fn(|cx| {
                    if first {
                        first = false;
                        match fut.as_mut().poll(cx) {
                            Poll::Pending => {
                                ctl.fire(call, index, "during", false);
                                Poll::Pending
                            }
                            Poll::Ready(v) => {
                                stash = Some(v);
                                ctl.fire(call, index, "during", true);
                                cx.waker().wake_by_ref();
                                Poll::Pending
                            }
                        }
                    } else if let Some(v) = stash.take() {
                        Poll::Ready(v)
                    } else {
                        fut.as_mut().poll(cx)
                    }
                })
                .await
            }
            _ => {
                // Pending once after the real call completed
                let v = fut.await;
                ctl.fire(call, index, "after", false);
                pending_once().await;
                v
            }
        }
    }
}

impl<S: Transaction> Transaction for Gate<S>
where
    S::Error: From<sqlx::Error>,
{
    type Error = S::Error;
    type Permit = S::Permit;

    async fn begin(&self) -> Result<Self::Permit, Self::Error> {
        self.gated("begin", self.inner.begin()).await
    }
    async fn rollback(&self, permit: Self::Permit) -> Result<(), Self::Error> {
        self.gated("rollback", self.inner.rollback(permit)).await
    }
    async fn commit(&self, permit: Self::Permit) -> Result<(), Self::Error> {
        self.gated("commit", self.inner.commit(permit)).await
    }
}

impl<ID: ToString, S: OrdererStore<ID>> OrdererStore<ID> for Gate<S>
where
    S::Error: From<sqlx::Error>,
{
    type Error = S::Error;

    async fn mark_ready(&self, id: ID) -> Result<bool, Self::Error> {
        self.gated("mark_ready", self.inner.mark_ready(id)).await
    }
    async fn mark_pending(&self, id: ID, dependencies: Vec<ID>) -> Result<bool, Self::Error> {
        self.gated("mark_pending", self.inner.mark_pending(id, dependencies)).await
    }
    async fn get_next_pending(&self, id: ID) -> Result<Option<HashSet<(ID, Vec<ID>)>>, Self::Error> {
        self.gated("get_next_pending", self.inner.get_next_pending(id)).await
    }
    async fn take_next_ready(&self) -> Result<Option<ID>, Self::Error> {
        let r = self.gated("take_next_ready", self.inner.take_next_ready()).await;
        match &r {
            Ok(None) => self.ctl.idle.set(true),
            Ok(Some(id)) => {
                if self.ctl.armed.get() {
                    self.ctl.taken.borrow_mut().push(id.to_string())
                }
            }
            Err(_) => {}
        }
        r
    }
    async fn remove_pending(&self, id: ID) -> Result<bool, Self::Error> {
        self.gated("remove_pending", self.inner.remove_pending(id)).await
    }
    async fn ready(&self, keys: &[ID]) -> Result<bool, Self::Error> {
        self.gated("ready", self.inner.ready(keys)).await
    }
}

impl<T, ID, S: OperationStore<T, ID>> OperationStore<T, ID> for Gate<S>
where
    S::Error: From<sqlx::Error>,
{
    type Error = S::Error;

    async fn insert_operation<L: LogId>(&self, id: &ID, operation: &T, log_id: &L) -> Result<bool, Self::Error> {
        self.gated("insert_operation", self.inner.insert_operation(id, operation, log_id)).await
    }
    async fn get_operation(&self, id: &ID) -> Result<Option<T>, Self::Error> {
        self.gated("get_operation", self.inner.get_operation(id)).await
    }
    async fn get_operation_tx(&self, id: &ID) -> Result<Option<T>, Self::Error> {
        self.gated("get_operation_tx", self.inner.get_operation_tx(id)).await
    }
    async fn has_operation(&self, id: &ID) -> Result<bool, Self::Error> {
        self.gated("has_operation", self.inner.has_operation(id)).await
    }
    async fn has_operation_tx(&self, id: &ID) -> Result<bool, Self::Error> {
        self.gated("has_operation_tx", self.inner.has_operation_tx(id)).await
    }
    async fn delete_operation(&self, id: &ID) -> Result<bool, Self::Error> {
        self.gated("delete_operation", self.inner.delete_operation(id)).await
    }
    async fn delete_operation_payload(&self, id: &ID) -> Result<bool, Self::Error> {
        self.gated("delete_operation_payload", self.inner.delete_operation_payload(id)).await
    }
}

// ------------------------------------------------------------------------------------------
// Driving `next`
// ------------------------------------------------------------------------------------------

#[derive(Debug)]
pub enum NextEnd<O> {
    /// `next` completed
    Done(O),
    /// the future returned the injected `Pending` and was dropped at that point
    Cancelled { fired: Fired, taken: Vec<String>, trace: Vec<&'static str> },
    /// `next` found the ready queue empty and parked; the future was dropped (what `Buffer`'s
    /// `select!` does as soon as new input arrives)
    Idle,
    /// no progress for 12 s of real time
    Hang { trace: Vec<&'static str> },
}

/// Poll `p.next()` until it completes, reports the injected `Pending` (then DROP the future), or
/// parks on an empty queue (then drop it as well).
pub async fn drive_next<T, P: Processor<T>>(p: &P, ctl: &Rc<Ctl>) -> NextEnd<Result<P::Output, P::Error>> {
    ctl.armed.set(true);
    ctl.call_idx.set(0);
    ctl.fired_this_call.set(false);
    ctl.idle.set(false);
    ctl.in_call.set(0);
    *ctl.fired.borrow_mut() = None;
    ctl.taken.borrow_mut().clear();
    ctl.trace.borrow_mut().clear();
    let out = {
        let mut fut = pin!(p.next());
        let polled = std::future::poll_fn(|cx| match fut.as_mut().poll(cx) {
            Poll::Ready(r) => Poll::Ready(NextEnd::Done(r)),
            Poll::Pending => {
                if let Some(f) = ctl.fired.borrow_mut().take() {
                    Poll::Ready(NextEnd::Cancelled {
                        fired: f,
                        taken: ctl.taken.borrow().clone(),
                        trace: ctl.trace.borrow().clone(),
                    })
                } else if ctl.idle.get() {
                    Poll::Ready(NextEnd::Idle)
                } else if ctl.in_call.get() == 0 && ctl.cancels_left.get() > 0 && !ctl.fired_this_call.get() {
                    // `next` suspended at a point of its own (a yield, a lock, a timer) outside
                    // every store call: a cancellation point like any other
                    let ch = ctl.chooser.borrow().clone();
                    let cancel = ch.map(|ch| ch.choose(2, "cancel@own-suspension-point") == 1).unwrap_or(false);
                    if cancel {
                        ctl.cancels_left.set(ctl.cancels_left.get() - 1);
                        ctl.fired_this_call.set(true);
                        Poll::Ready(NextEnd::Cancelled {
                            fired: Fired { call: "own-suspension-point", index: ctl.call_idx.get(), variant: "at", completed_first_poll: false },
                            taken: ctl.taken.borrow().clone(),
                            trace: ctl.trace.borrow().clone(),
                        })
                    } else {
                        Poll::Pending
                    }
                } else {
                    Poll::Pending
                }
            }
        });
        match tokio::time::timeout(Duration::from_secs(12), polled).await {
            Ok(o) => o,
            Err(_) => NextEnd::Hang {
                trace: ctl.trace.borrow().clone(),
            },
        }
        // `fut` is dropped here
    };
    ctl.armed.set(false);
    out
}

// ------------------------------------------------------------------------------------------
// Runtime + store contexts
// ------------------------------------------------------------------------------------------

pub struct Ctx {
    rt: Option<tokio::runtime::Runtime>,
    store: Option<SqliteStore>,
    pub uses: u64,
}

impl Drop for Ctx {
    fn drop(&mut self) {
        // sqlx returns pooled connections in spawned tasks and a dropped TransactionPermit rolls
        // back in a spawned task: let those finish, drop the store inside the runtime, and never
        // let a panic of this teardown (sqlx panics when it finds no runtime) escape.
        let store = self.store.take();
        let Some(rt) = self.rt.take() else { return };
        let rt_ref = &rt;
        let _ = explorer::catch(move || {
            if let Some(store) = store {
                rt_ref.block_on(async {
                    let settle = async {
                        if let Ok(p) = store.begin().await {
                            let _ = store.rollback(p).await;
                        }
                    };
                    let _ = tokio::time::timeout(Duration::from_secs(2), settle).await;
                    drop(store);
                    for _ in 0..8 {
                        tokio::task::yield_now().await;
                    }
                });
            }
        });
        // a second, separate unwinding boundary: the first one may have ended in a panic
        let _ = explorer::catch(move || rt.shutdown_timeout(Duration::from_millis(200)));
    }
}

static POOL: Mutex<Vec<Ctx>> = Mutex::new(Vec::new());

/// Executions that ended in a hang, panic or store error.  Each hang costs seconds of real time,
/// so once a mutation (or defect) makes them systematic the exploration is cut short: the
/// violation is already recorded, the run is reported as not exhaustive.
pub static TROUBLE: std::sync::atomic::AtomicU64 = std::sync::atomic::AtomicU64::new(0);
pub const TROUBLE_LIMIT: u64 = 24;

pub fn trouble() {
    TROUBLE.fetch_add(1, std::sync::atomic::Ordering::SeqCst);
}

/// Returns whether the limit had been reached, and resets the counter (before confirmation runs).
pub fn take_trouble() -> bool {
    TROUBLE.swap(0, std::sync::atomic::Ordering::SeqCst) >= TROUBLE_LIMIT
}

pub fn too_much_trouble() -> bool {
    TROUBLE.load(std::sync::atomic::Ordering::SeqCst) >= TROUBLE_LIMIT
}

impl Ctx {
    fn fresh() -> Ctx {
        let rt = tokio::runtime::Builder::new_current_thread()
            .enable_all()
            .build()
            .expect("runtime");
        let store = rt.block_on(SqliteStore::temporary());
        Ctx { rt: Some(rt), store: Some(store), uses: 0 }
    }

    pub fn rt(&self) -> &tokio::runtime::Runtime {
        self.rt.as_ref().expect("runtime")
    }

    pub fn store(&self) -> SqliteStore {
        self.store.clone().expect("store")
    }

    /// Take a context from the pool (a used one has had its tables emptied).
    pub fn take() -> Ctx {
        let c = POOL.lock().unwrap().pop();
        match c {
            // a new database every 512 uses keeps SQLite's bookkeeping (rowids, free pages) small
            Some(c) if c.uses < 512 => c,
            Some(c) => {
                drop(c);
                Ctx::fresh()
            }
            None => Ctx::fresh(),
        }
    }

    /// Return the context; `clean == false` (error, hang, panic) discards it.
    pub fn give_back(mut self, clean: bool) {
        if !clean {
            return;
        }
        self.uses += 1;
        POOL.lock().unwrap().push(self);
    }

    pub fn drain_pool() {
        let v: Vec<Ctx> = std::mem::take(&mut *POOL.lock().unwrap());
        drop(v);
    }
}

/// Wait until no transaction is open (a dropped permit rolls back in a spawned task), then empty
/// the orderer and operation tables.
pub async fn wipe(store: &SqliteStore) -> Result<(), String> {
    let p = store.begin().await.map_err(|e| e.to_string())?;
    store.rollback(p).await.map_err(|e| e.to_string())?;
    for t in ["orderer_ready_v1", "orderer_pending_v1", "operations_v1"] {
        sqlx::query(&format!("DELETE FROM {t}"))
            .execute(store.pool())
            .await
            .map_err(|e| e.to_string())?;
    }
    Ok(())
}

/// Rows of `orderer_ready_v1` (id, queue_index, in_queue), read outside any transaction.
pub async fn ready_rows(store: &SqliteStore) -> Result<Vec<(String, i64, bool)>, String> {
    let p = store.begin().await.map_err(|e| e.to_string())?;
    store.rollback(p).await.map_err(|e| e.to_string())?;
    sqlx::query_as::<_, (String, i64, bool)>("SELECT id, queue_index, in_queue FROM orderer_ready_v1 ORDER BY queue_index")
        .fetch_all(store.pool())
        .await
        .map_err(|e| e.to_string())
}

/// Number of rows in `orderer_pending_v1`.
pub async fn pending_rows(store: &SqliteStore) -> Result<i64, String> {
    let r: (i64,) = sqlx::query_as("SELECT COUNT(*) FROM orderer_pending_v1")
        .fetch_one(store.pool())
        .await
        .map_err(|e| e.to_string())?;
    Ok(r.0)
}
