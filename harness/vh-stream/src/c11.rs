//! C11 Causal orderer releases items only after, and always after, their dependencies.
//!
//! E-DFS over free (input) choices at two levels, both on the real `SqliteStore`:
//!  * level "processor": the public `Orderer` processor (`process` / `next`) of p2panda-stream,
//!    items are signed operations stored in `operations_v1`, dependencies come from a header
//!    extension through the `Ordering` trait;
//!  * level "inner": the private `CausalOrderer` (`orderer/orderer.rs`, source-included) driven
//!    with small integer ids inside transactions exactly as `Orderer::process` / `next` do.
//! Oracle: a set-based reference ("released = least fixpoint of delivered and deps ⊆ released").
use std::collections::{BTreeMap, BTreeSet, HashMap};
use std::time::Duration;

use explorer::{catch, dfs_par, json, Chooser, DfsCfg, Report, Value};
use p2panda_core::Hash;
use p2panda_store::operations::OperationStore;
use p2panda_store::{SqliteStore, Transaction};
use p2panda_stream::orderer::Orderer;
use p2panda_stream::Processor;

use crate::minv::MinV;
use crate::gate::{take_trouble, too_much_trouble, trouble, drive_next, key, make_item, wipe, Ctl, Ctx, Gate, Item, NextEnd};

#[allow(dead_code)]
#[path = "/repo/p2panda-stream/src/orderer/orderer.rs"]
mod orderer;
use orderer::CausalOrderer;

/// Dependency symbol: a node index, or `M` = an item that never arrives.
const M: u8 = 9;

#[derive(Clone, Debug, PartialEq, Eq, Hash)]
struct Case {
    level: &'static str,
    n: usize,
    /// dependency list of node i: entries < i or M, possibly repeated
    lists: Vec<Vec<u8>>,
    /// node indices in delivery order; one index may occur twice (re-delivery)
    delivery: Vec<usize>,
    /// drain the ready queue after every delivery (else only at the end)
    drain_each: bool,
    /// (position in `delivery`, store-call index): that store call of that `process` call fails;
    /// the orderer hands the item back and it is processed again after the last delivery
    fault: Option<(usize, usize)>,
}

impl Case {
    fn to_json(&self) -> Value {
        json!({"part": "c11", "level": self.level, "n": self.n, "lists": self.lists, "delivery": self.delivery, "drain_each": self.drain_each, "fault": self.fault.map(|(a, b)| vec![a, b]),
               "legend": "lists[i] = dependency list of node i (9 = an item that never arrives)"})
    }
    fn from_json(v: &Value) -> Option<Case> {
        let level = match v.get("level")?.as_str()? {
            "processor" => "processor",
            _ => "inner",
        };
        Some(Case {
            level,
            n: v.get("n")?.as_u64()? as usize,
            lists: v
                .get("lists")?
                .as_array()?
                .iter()
                .map(|l| l.as_array().map(|a| a.iter().map(|x| x.as_u64().unwrap_or(0) as u8).collect()).unwrap_or_default())
                .collect(),
            delivery: v.get("delivery")?.as_array()?.iter().map(|x| x.as_u64().unwrap_or(0) as usize).collect(),
            drain_each: v.get("drain_each")?.as_bool()?,
            fault: v.get("fault").and_then(|f| f.as_array()).and_then(|a| Some((a.first()?.as_u64()? as usize, a.get(1)?.as_u64()? as usize))),
        })
    }
    fn describe(&self) -> String {
        let sym = |d: &u8| if *d == M { "missing".to_string() } else { format!("n{d}") };
        let g = self
            .lists
            .iter()
            .enumerate()
            .map(|(i, l)| format!("n{i}:[{}]", l.iter().map(sym).collect::<Vec<_>>().join(",")))
            .collect::<Vec<_>>()
            .join(" ");
        format!(
            "level {}; graph {g}; delivery {:?}; drain {}{}",
            self.level,
            self.delivery,
            if self.drain_each { "after every delivery" } else { "at the end" },
            match self.fault {
                Some((pos, k)) => format!("; store call #{k} of the process() call for delivery position {pos} fails, the item is processed again after the last delivery"),
                None => String::new(),
            }
        )
    }
    /// smaller = simpler reproduction
    fn size(&self) -> (u64, u64, u64) {
        (
            self.delivery.len() as u64,
            self.lists.iter().map(|l| l.len() as u64).sum::<u64>(),
            if self.level == "inner" { 0 } else { 1 } + if self.drain_each { 0 } else { 2 },
        )
    }
    fn has_repeat(&self) -> bool {
        self.lists.iter().any(|l| list_has_repeat(l))
    }
    fn dedup(&self) -> Case {
        let mut c = self.clone();
        for l in &mut c.lists {
            let mut seen = vec![];
            l.retain(|d| {
                if seen.contains(d) {
                    false
                } else {
                    seen.push(*d);
                    true
                }
            });
        }
        c
    }
}

fn list_has_repeat(l: &[u8]) -> bool {
    l.iter().enumerate().any(|(i, d)| l[..i].contains(d))
}

#[derive(Clone, Copy, Debug, PartialEq, Eq)]
enum Alphabet {
    /// every subset of the candidates (ascending)
    Plain,
    /// + every subset with one entry appended a second time ([a,b,a], [a,a])
    Medium,
    /// + reversed subsets, adjacent repeats ([a,a,b]), triples ([a,a,a])
    Rich,
    /// Medium for the last node (the one that may depend on all others), Plain for the rest
    MediumLast,
}

fn lists_for(cands: &[u8], alpha: Alphabet) -> Vec<Vec<u8>> {
    let c = cands.len();
    let mut out: Vec<Vec<u8>> = vec![];
    for mask in 0..(1u32 << c) {
        let s: Vec<u8> = (0..c).filter(|i| mask >> i & 1 == 1).map(|i| cands[i]).collect();
        out.push(s.clone());
        if alpha == Alphabet::Plain {
            continue;
        }
        for a in &s {
            let mut l = s.clone();
            l.push(*a);
            out.push(l);
        }
        if alpha == Alphabet::Medium {
            continue;
        }
        if s.len() >= 2 {
            let mut r = s.clone();
            r.reverse();
            out.push(r);
            for (i, a) in s.iter().enumerate() {
                if i + 1 == s.len() {
                    continue; // adjacent repeat of the last entry = appended repeat
                }
                let mut l = s.clone();
                l.insert(i + 1, *a);
                out.push(l);
            }
        }
        if s.len() == 1 {
            out.push(vec![s[0], s[0], s[0]]);
        }
    }
    out
}

fn permutations(n: usize) -> Vec<Vec<usize>> {
    fn rec(cur: &mut Vec<usize>, used: &mut Vec<bool>, n: usize, out: &mut Vec<Vec<usize>>) {
        if cur.len() == n {
            out.push(cur.clone());
            return;
        }
        for i in 0..n {
            if !used[i] {
                used[i] = true;
                cur.push(i);
                rec(cur, used, n, out);
                cur.pop();
                used[i] = false;
            }
        }
    }
    let mut out = vec![];
    rec(&mut vec![], &mut vec![false; n], n, &mut out);
    out
}

/// All deliveries: every permutation, plus (if `dups`) every way to deliver one item a second
/// time at any later position.
fn deliveries(n: usize, dups: bool) -> Vec<Vec<usize>> {
    let mut out = vec![];
    for p in permutations(n) {
        out.push(p.clone());
        if !dups {
            continue;
        }
        for pos in 0..n {
            for slot in (pos + 1)..=n {
                let mut d = p.clone();
                d.insert(slot, p[pos]);
                out.push(d);
            }
        }
    }
    out
}

#[derive(Clone, Debug)]
struct Part {
    name: &'static str,
    level: &'static str,
    n_min: usize,
    n_max: usize,
    alpha: Alphabet,
    dups: bool,
    /// enumerate both drain policies (else only "after every delivery")
    both_drains: bool,
    /// also enumerate one failing store call inside one `process` call
    faults: bool,
}

fn pick_case(ch: &Chooser, part: &Part) -> Case {
    let n = part.n_min + ch.choose_free(part.n_max - part.n_min + 1, "n");
    let mut lists = vec![];
    for i in 0..n {
        let mut cands: Vec<u8> = (0..i as u8).collect();
        cands.push(M);
        let alpha = match part.alpha {
            Alphabet::MediumLast if i + 1 == n => Alphabet::Medium,
            Alphabet::MediumLast => Alphabet::Plain,
            a => a,
        };
        let ls = lists_for(&cands, alpha);
        lists.push(ls[ch.choose_free(ls.len(), "deps")].clone());
    }
    let ds = deliveries(n, part.dups);
    let delivery = ds[ch.choose_free(ds.len(), "delivery")].clone();
    let drain_each = !part.both_drains || ch.choose_free(2, "drain") == 0;
    let fault = if part.faults {
        let pos = ch.choose_free(delivery.len(), "fault-position");
        // process() makes at most a handful of store calls for graphs this small; an index beyond
        // the last call means "no fault" for that case
        Some((pos, ch.choose_free(8, "fault-call")))
    } else {
        None
    };
    Case {
        level: part.level,
        n,
        lists,
        delivery,
        drain_each,
        fault,
    }
}

// ------------------------------------------------------------------------------------------
// Running a case on the real code
// ------------------------------------------------------------------------------------------

#[derive(Clone, Debug, PartialEq, Eq, Hash)]
enum Ev {
    Deliver(usize),
    /// node index, or Err(raw id) for an id that is not one of the delivered nodes
    Release(Result<usize, String>),
    /// `process` returned an error for this node (injected store fault) and handed the item back
    ProcessFailed(usize),
    /// the ready queue was drained until the orderer reported "nothing ready"
    Quiescent,
}

async fn run_inner_level(store: &SqliteStore, case: &Case) -> Result<Vec<Ev>, String> {
    let es = |e: p2panda_store::SqliteError| e.to_string();
    let ord: CausalOrderer<u32, SqliteStore> = CausalOrderer::new(store.clone());
    let id = |d: u8| if d == M { 99u32 } else { d as u32 + 1 };
    let mut evs = vec![];
    let drain = async |evs: &mut Vec<Ev>| -> Result<(), String> {
        loop {
            // as Orderer::next: begin, take, commit if an item was taken, else the permit is
            // dropped (rolled back)
            let permit = store.begin().await.map_err(es)?;
            match ord.next().await.map_err(es)? {
                Some(x) => {
                    store.commit(permit).await.map_err(es)?;
                    let node = if x >= 1 && (x as usize) <= case.n { Ok(x as usize - 1) } else { Err(x.to_string()) };
                    evs.push(Ev::Release(node));
                }
                None => {
                    store.rollback(permit).await.map_err(es)?;
                    evs.push(Ev::Quiescent);
                    return Ok(());
                }
            }
        }
    };
    for &i in &case.delivery {
        // as Orderer::process: begin, CausalOrderer::process, commit
        let deps: Vec<u32> = case.lists[i].iter().map(|d| id(*d)).collect();
        let permit = store.begin().await.map_err(es)?;
        ord.process(id(i as u8), &deps).await.map_err(es)?;
        store.commit(permit).await.map_err(es)?;
        evs.push(Ev::Deliver(i));
        if case.drain_each {
            drain(&mut evs).await?;
        }
    }
    if !case.drain_each {
        drain(&mut evs).await?;
    }
    Ok(evs)
}

async fn run_processor_level(store: &SqliteStore, case: &Case) -> Result<Vec<Ev>, String> {
    let es = |e: p2panda_store::SqliteError| e.to_string();
    let sk = key();
    let missing = make_item(&sk, vec![], 99);
    let mut items: Vec<Item> = vec![];
    for i in 0..case.n {
        let deps: Vec<Hash> = case.lists[i].iter().map(|d| if *d == M { missing.0.hash } else { items[*d as usize].0.hash }).collect();
        items.push(make_item(&sk, deps, i as u64));
    }
    // operations are in the operation store before they are handed to the orderer
    {
        let permit = store.begin().await.map_err(es)?;
        for it in &items {
            <SqliteStore as OperationStore<Item, Hash>>::insert_operation(store, &it.0.hash, it, &0u64)
                .await
                .map_err(es)?;
        }
        store.commit(permit).await.map_err(es)?;
    }
    let ctl = Ctl::new();
    let ord: Orderer<Item, Hash, Gate<SqliteStore>> = Orderer::new(Gate::new(store.clone(), ctl.clone()));
    let mut evs = vec![];
    let drain = async |evs: &mut Vec<Ev>| -> Result<(), String> {
        loop {
            match drive_next(&ord, &ctl).await {
                NextEnd::Done(Ok(item)) => {
                    let node = items.iter().position(|it| it.0.hash == item.0.hash).ok_or(item.0.hash.to_string());
                    evs.push(Ev::Release(node));
                }
                NextEnd::Done(Err((_, e))) => return Err(format!("Orderer::next failed: {e}")),
                NextEnd::Idle => {
                    evs.push(Ev::Quiescent);
                    return Ok(());
                }
                NextEnd::Hang { trace } => return Err(format!("Orderer::next made no progress for 12 s (store calls {trace:?})")),
                NextEnd::Cancelled { .. } => return Err("unexpected cancellation".into()),
            }
        }
    };
    let mut retry: Vec<usize> = vec![];
    for (pos, &i) in case.delivery.iter().enumerate() {
        let inject = case.fault.filter(|(p, _)| *p == pos).map(|(_, k)| k);
        if let Some(k) = inject {
            ctl.fail_idx.set(0);
            ctl.fail_at.set(Some(k));
            ctl.failed_call.set(None);
            ctl.fail_armed.set(true);
        }
        let r = ord.process(items[i].clone()).await;
        ctl.fail_armed.set(false);
        ctl.fail_at.set(None);
        match r {
            Ok(()) => evs.push(Ev::Deliver(i)),
            Err((back, e)) => {
                if inject.is_none() || ctl.failed_call.get().is_none() {
                    return Err(format!("Orderer::process failed: {e}"));
                }
                if back.is_none() {
                    return Err("Orderer::process failed without handing the item back".into());
                }
                evs.push(Ev::ProcessFailed(i));
                retry.push(i);
            }
        }
        if case.drain_each {
            drain(&mut evs).await?;
        }
    }
    for i in retry {
        if let Err((_, e)) = ord.process(items[i].clone()).await {
            return Err(format!("Orderer::process failed on the retry: {e}"));
        }
        evs.push(Ev::Deliver(i));
        if case.drain_each {
            drain(&mut evs).await?;
        }
    }
    if !case.drain_each {
        drain(&mut evs).await?;
    }
    Ok(evs)
}

#[derive(Debug)]
struct CaseResult {
    case: Case,
    evs: Result<Vec<Ev>, String>,
}

fn exec_case(case: &Case) -> CaseResult {
    if too_much_trouble() {
        return CaseResult { case: case.clone(), evs: Err("skipped".into()) };
    }
    let ctx = Ctx::take();
    let store = ctx.store();
    let r = catch(|| {
        ctx.rt().block_on(async {
            let run = async {
                wipe(&store).await?;
                if case.level == "processor" {
                    run_processor_level(&store, case).await
                } else {
                    run_inner_level(&store, case).await
                }
            };
            match tokio::time::timeout(Duration::from_secs(20), run).await {
                Ok(r) => r,
                Err(_) => Err("the case did not finish within 20 s (hang)".to_string()),
            }
        })
    });
    // the clone must go before the context: the last reference has to be dropped by Ctx::drop
    // inside the runtime
    drop(store);
    match r {
        Ok(evs) => {
            if evs.is_err() {
                trouble();
            }
            ctx.give_back(evs.is_ok());
            CaseResult { case: case.clone(), evs }
        }
        Err(p) => {
            trouble();
            ctx.give_back(false);
            CaseResult {
                case: case.clone(),
                evs: Err(format!("panic: {p}")),
            }
        }
    }
}

// ------------------------------------------------------------------------------------------
// Reference model and oracle
// ------------------------------------------------------------------------------------------

/// Least fixpoint of "delivered and every distinct dependency released".
fn close(lists: &[Vec<u8>], delivered: &BTreeSet<usize>, released: &mut BTreeSet<usize>) {
    loop {
        let mut changed = false;
        for &y in delivered {
            if !released.contains(&y) && lists[y].iter().all(|d| *d != M && released.contains(&(*d as usize))) {
                released.insert(y);
                changed = true;
            }
        }
        if !changed {
            return;
        }
    }
}

struct Judged {
    violations: Vec<(String, String)>,
    /// some item was blocked at its first delivery (a dependency not yet ready) and became ready
    /// later, i.e. it had to travel through the pending table
    unblocked_later: bool,
    final_released: BTreeSet<usize>,
    states: Vec<(BTreeSet<usize>, BTreeSet<usize>)>,
}

fn judge_events(case: &Case, evs: &[Ev]) -> Judged {
    let lists = &case.lists;
    let mut delivered = BTreeSet::new();
    let mut model = BTreeSet::new();
    let mut real = BTreeSet::new();
    // for the classification: were all distinct dependencies released when the item was delivered?
    let mut deps_ready_at_delivery: BTreeMap<usize, bool> = BTreeMap::new();
    let mut out = Judged {
        violations: vec![],
        unblocked_later: false,
        final_released: BTreeSet::new(),
        states: vec![],
    };
    for ev in evs {
        match ev {
            Ev::Deliver(i) => {
                // "ready" in the reference model = delivered with all distinct dependencies ready
                // (whether or not `next` has handed it out yet)
                let ready = lists[*i].iter().all(|d| *d != M && model.contains(&(*d as usize)));
                deps_ready_at_delivery.entry(*i).or_insert(ready);
                delivered.insert(*i);
                close(lists, &delivered, &mut model);
            }
            Ev::Release(Err(raw)) => out.violations.push((
                "released-unknown-id".into(),
                format!("the orderer released id {raw} which is none of the delivered items"),
            )),
            Ev::Release(Ok(y)) => {
                if !delivered.contains(y) {
                    out.violations.push(("released-undelivered-item".into(), format!("n{y} was released before it was delivered")));
                }
                for d in &lists[*y] {
                    if *d == M {
                        out.violations.push((
                            "released-before-dependency/dependency-never-arrives".into(),
                            format!("n{y} was released although its dependency 'missing' never arrived"),
                        ));
                    } else if !real.contains(&(*d as usize)) {
                        out.violations.push((
                            "released-before-dependency/dependency-not-yet-released".into(),
                            format!("n{y} was released before its dependency n{d}"),
                        ));
                    }
                }
                real.insert(*y);
            }
            Ev::ProcessFailed(_) => {}
            Ev::Quiescent => {
                close(lists, &delivered, &mut model);
                out.states.push((delivered.clone(), real.clone()));
                // roots: owed by the model, all distinct dependencies really released, not released
                for y in model.difference(&real) {
                    let root = lists[*y].iter().all(|d| real.contains(&(*d as usize)));
                    if !root {
                        continue;
                    }
                    let class = if list_has_repeat(&lists[*y]) { "repeated-dependency-entry" } else { "distinct-dependency-entries" };
                    let timing = if deps_ready_at_delivery.get(y).copied().unwrap_or(false) {
                        "dependencies-ready-before-delivery"
                    } else {
                        "dependencies-ready-after-delivery"
                    };
                    out.violations.push((
                        format!("ready-item-never-released/{class}/{timing}"),
                        format!(
                            "n{y} (dependency list {:?}) was delivered, all its dependencies were released, the ready queue was drained, yet n{y} was not released",
                            lists[*y]
                        ),
                    ));
                }
            }
        }
    }
    out.unblocked_later = model.iter().any(|y| deps_ready_at_delivery.get(y) == Some(&false));
    out.final_released = real;
    out
}

fn judge(rep: &mut Report, mv: &mut MinV, r: &CaseResult) -> Option<BTreeSet<usize>> {
    let case = &r.case;
    let evs = match &r.evs {
        Ok(e) => e,
        Err(e) if e == "skipped" => return None,
        Err(e) => {
            let class = if e.starts_with("panic") { "panic" } else { "error" };
            let short: String = e.chars().take(50).collect::<String>().replace(' ', "-");
            mv.add(format!("{class}/{short}"), case.size(), || format!("{e}; {}", case.describe()), || case.to_json());
            return None;
        }
    };
    let j = judge_events(case, evs);
    for (key, what) in &j.violations {
        mv.add(key.clone(), case.size(), || format!("{what}; {}; observed {:?}", case.describe(), evs), || case.to_json());
    }
    if j.unblocked_later {
        rep.nontrivial(&(case.level, &case.lists, &case.delivery, case.drain_each));
    }
    rep.outcome(&(case.level, &case.lists, &j.final_released));
    for s in &j.states {
        rep.state(&(case.level, &case.lists, s));
    }
    if j.violations.is_empty() { Some(j.final_released) } else { None }
}

pub fn run(mut rep: Report) -> i32 {
    let thorough = rep.thorough();
    rep.rule = "one case = (level, DAG on n nodes given as dependency lists that may repeat an entry or name an item that never arrives, delivery order = permutation optionally with one item delivered twice, drain policy); non-trivial = some item was blocked when it was first delivered (a dependency not yet ready) and became ready later, so it had to go through mark_pending / get_next_pending / process_pending".into();

    if let Some(path) = rep.args.replay.clone() {
        match explorer::report::load_replay(&path) {
            Ok((_k, rp)) => match Case::from_json(&rp) {
                Some(case) => {
                    let r = exec_case(&case);
                    println!("replay: {}", case.describe());
                    println!("observed: {:?}", r.evs);
                    let mut mv = MinV::new();
                    judge(&mut rep, &mut mv, &r);
                    mv.flush(&mut rep);
                }
                None => rep.machinery_error("replay file has no C11 case".into()),
            },
            Err(e) => rep.machinery_error(e),
        }
        Ctx::drain_pool();
        return rep.finish();
    }

    use Alphabet::*;
    let p = |name, level, n_min, n_max, alpha, dups, both_drains| Part { name, level, n_min, n_max, alpha, dups, both_drains, faults: false };
    let pf = |name, level, n_min, n_max, alpha, dups, both_drains| Part { name, level, n_min, n_max, alpha, dups, both_drains, faults: true };
    // (part, wall budget in seconds)
    let parts: Vec<(Part, u64)> = if thorough {
        vec![
            (p("inner n<=3, rich lists, permutations + re-deliveries, both drain policies", "inner", 1, 3, Rich, true, true), 120),
            (p("inner n=4, set lists (last node: also with appended repeats), permutations, both drain policies", "inner", 4, 4, MediumLast, false, true), 150),
            (p("inner n=4, set lists, permutations + re-deliveries, drain after every delivery", "inner", 4, 4, Plain, true, false), 200),
            (p("processor n<=3, rich lists, permutations + re-deliveries, both drain policies", "processor", 1, 3, Rich, true, true), 120),
            (p("processor n=4, set lists, permutations, both drain policies", "processor", 4, 4, Plain, false, true), 40),
            (pf("processor n<=3 with one failing store call in one process(), set lists, permutations + re-deliveries, both drain policies", "processor", 2, 3, Plain, true, true), 120),
        ]
    } else {
        vec![
            (p("inner n<=3, lists with appended repeats, permutations + re-deliveries, both drain policies", "inner", 1, 3, Medium, true, true), 90),
            (p("processor n<=2, rich lists, permutations + re-deliveries, both drain policies", "processor", 1, 2, Rich, true, true), 30),
            (p("processor n=3, lists with appended repeats, permutations, drain after every delivery", "processor", 3, 3, Medium, false, false), 45),
            (pf("processor n<=3 with one failing store call in one process(), set lists, permutations, drain after every delivery", "processor", 2, 3, Plain, false, false), 45),
        ]
    };
    let mut by_level: BTreeMap<&'static str, u64> = BTreeMap::new();
    let mut viol_by_level: BTreeMap<String, u64> = BTreeMap::new();
    let mut differential_pairs = 0u64;
    let mut mv = MinV::new();
    for (part, wall) in &parts {
        let cfg = DfsCfg {
            max_dev: 0,
            max_execs: u64::MAX,
            wall: Duration::from_secs(*wall),
            threads: rep.args.threads,
        };
        // final released set of every violation-free case, for the differential
        // "repeating an entry does not change the outcome"
        let mut finals: HashMap<(Vec<Vec<u8>>, Vec<usize>, bool), BTreeSet<usize>> = HashMap::new();
        let mut with_repeats: Vec<Case> = vec![];
        {
            let rep_ref = &mut rep;
            let vb = &mut viol_by_level;
            let finals = &mut finals;
            let with_repeats = &mut with_repeats;
            let mv = &mut mv;
            let st = dfs_par(
                &cfg,
                |ch| exec_case(&pick_case(ch, part)),
                |_ch, r| {
                    if rep_ref.want_sample() && r.case.n == 3 && r.case.has_repeat() && r.case.delivery.len() == 4 && r.case.lists[0].is_empty() {
                        rep_ref.sample(json!({"case": r.case.describe(), "observed": format!("{:?}", r.evs)}));
                    }
                    match judge(rep_ref, mv, &r) {
                        Some(f) => {
                            if r.case.has_repeat() {
                                with_repeats.push(r.case.clone());
                            }
                            finals.insert((r.case.lists.clone(), r.case.delivery.clone(), r.case.drain_each), f);
                        }
                        None if r.evs.as_ref().err().map(|e| e == "skipped").unwrap_or(false) => {}
                        None => *vb.entry(r.case.level.to_string()).or_default() += 1,
                    }
                },
            );
            *by_level.entry(part.level).or_default() += st.executions;
            let mut st = st;
            if too_much_trouble() {
                // cases skipped after the cut make fewer decisions than their recorded prefix
                st.divergences.retain(|d| !d.contains("short run") && !d.contains("made only"));
            }
            rep.absorb_dfs(part.name, &st, 0);
        }
        // differential: every violation-free case with a repeated entry against its twin with
        // de-duplicated lists (which is a case of the same part)
        for c in &with_repeats {
            let d = c.dedup();
            let a = &finals[&(c.lists.clone(), c.delivery.clone(), c.drain_each)];
            if let Some(b) = finals.get(&(d.lists.clone(), d.delivery.clone(), d.drain_each)) {
                differential_pairs += 1;
                if a != b {
                    mv.add(
                        "repeated-entry-changes-outcome".into(),
                        c.size(),
                        || format!("released {a:?} with the lists as given, {b:?} with de-duplicated lists; {}", c.describe()),
                        || c.to_json(),
                    );
                }
            }
        }
    }
    let cut_short = take_trouble();
    {
        let mut scratch = Report::new(&rep.args, "model_checking");
        mv.confirm(&mut rep, |rp| match Case::from_json(rp) {
            Some(case) => {
                let r = exec_case(&case);
                let mut m = MinV::new();
                judge(&mut scratch, &mut m, &r);
                m.minimal_cases().into_iter().map(|(k, _)| k).collect()
            }
            None => vec![],
        });
    }
    Ctx::drain_pool();
    if cut_short {
        rep.not_exhaustive("exploration cut short after 24 cases ended in a hang, panic or store error (each is reported as a violation)");
    }
    mv.flush(&mut rep);
    rep.set("cases_per_level", json!(by_level));
    rep.set("violating_cases_per_level", json!(viol_by_level));
    rep.set("differential_pairs_compared", json!(differential_pairs));
    rep.assume("release order among siblings freed by the same item depends on std HashSet iteration order (RandomState) inside get_next_pending; the oracle only uses release sets and precedence, so the verdict does not depend on it");
    rep.assume("a second release of an item that is delivered twice (documented re-queue behaviour of mark_ready) is not counted as a violation; the property does not state exactly-once");
    rep.assume("SQLite calls are awaited to completion one after the other on a current_thread runtime; tables are emptied between cases, a new in-memory database every 512 cases");
    rep.assume("level 'processor' wraps the store in a pass-through Gate only to observe that `next` parked on an empty queue; the item type is a newtype around Operation<DepExt> because of the orphan rule");
    rep.assume("the differential 'repeated entry vs de-duplicated list' compares violation-free cases only; a case that already violates the reference model is reported under its own key");
    rep.finish()
}
