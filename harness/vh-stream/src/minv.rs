//! Violation buffer: keeps, per key, the smallest failing case (so the replay artefact and the
//! explanation show a minimal reproduction) and the number of occurrences; flushed into the
//! `Report` at the end.  `VERIF_DRILL_IGNORE=key1,key2` (drills only) withholds the listed keys
//! so that a mutation drill on a tree with recorded findings shows exit 1 only for *new* keys;
//! the evidence file records the withheld keys.
use std::collections::BTreeMap;

use explorer::{json, Report, Value};

struct Entry {
    size: (u64, u64, u64),
    what: String,
    replay: Value,
    count: u64,
}

pub struct MinV {
    map: BTreeMap<String, Entry>,
    ignore: Vec<String>,
    ignored: BTreeMap<String, u64>,
}

impl MinV {
    pub fn new() -> MinV {
        let ignore = std::env::var("VERIF_DRILL_IGNORE")
            .map(|s| s.split(',').map(|k| k.trim().to_string()).filter(|k| !k.is_empty()).collect())
            .unwrap_or_default();
        MinV {
            map: BTreeMap::new(),
            ignore,
            ignored: BTreeMap::new(),
        }
    }

    pub fn add(&mut self, key: String, size: (u64, u64, u64), what: impl FnOnce() -> String, replay: impl FnOnce() -> Value) {
        if self.ignore.iter().any(|k| *k == key) {
            *self.ignored.entry(key).or_default() += 1;
            return;
        }
        match self.map.get_mut(&key) {
            Some(e) => {
                e.count += 1;
                if size < e.size {
                    e.size = size;
                    e.what = what();
                    e.replay = replay();
                }
            }
            None => {
                self.map.insert(
                    key,
                    Entry {
                        size,
                        what: what(),
                        replay: replay(),
                        count: 1,
                    },
                );
            }
        }
    }

    /// (key, replay JSON) of the minimal case of every key, for the confirmation re-run.
    pub fn minimal_cases(&self) -> Vec<(String, Value)> {
        self.map.iter().map(|(k, e)| (k.clone(), e.replay.clone())).collect()
    }

    /// Re-execute the minimal case of every key with `rerun` (which returns the keys that fire)
    /// until it fired twice more.  A key that fires on every re-run is confirmed.  A key that fires
    /// on some re-runs only was still observed on the real code: the code's behaviour then depends
    /// on something outside its input (hash iteration order of a std `HashSet`, say) — it stays a
    /// violation and the evidence records how often it reproduced.  A key that never fires again
    /// in 20 re-runs is uncaptured nondeterminism of the harness: a machinery error, not a verdict.
    pub fn confirm(&self, rep: &mut Report, mut rerun: impl FnMut(&Value) -> Vec<String>) {
        let mut confirmed = 0u64;
        let mut flaky = BTreeMap::new();
        for (key, replay) in self.minimal_cases() {
            let (mut hits, mut rounds) = (0u32, 0u32);
            while hits < 2 && rounds < 20 {
                rounds += 1;
                if rerun(&replay).contains(&key) {
                    hits += 1;
                }
            }
            if hits == 0 {
                rep.machinery_error(format!("violation {key} did not reproduce in {rounds} confirmation runs"));
            } else if hits < rounds {
                flaky.insert(key.clone(), format!("reproduced in {hits} of {rounds} re-runs of the same input: the outcome depends on state outside the input (e.g. hash iteration order)"));
                confirmed += 1;
            } else {
                confirmed += 1;
            }
        }
        rep.set("violations_confirmed_by_rerun", json!(confirmed));
        if !flaky.is_empty() {
            rep.set("violations_input_nondeterministic", json!(flaky));
        }
    }

    pub fn flush(self, rep: &mut Report) {
        for (key, e) in self.map {
            rep.violation(key.clone(), e.what, e.replay);
            for _ in 1..e.count {
                rep.violation(key.clone(), "", Value::Null);
            }
        }
        if !self.ignored.is_empty() {
            rep.set("drill_ignored_keys", json!(self.ignored));
            rep.assume("DRILL RUN: violation keys listed in VERIF_DRILL_IGNORE were withheld (see drill_ignored_keys)");
        }
    }
}
