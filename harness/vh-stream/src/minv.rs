//! Violation buffer: keeps, per key, the smallest failing case (so the replay artefact and the
//! explanation show a minimal reproduction) and the number of occurrences; flushed into the
//! `Report` at the end.  `VERIF_DRILL_IGNORE=key1,key2` (drills only) withholds the listed keys
//! so that a mutation drill on a tree with recorded findings shows exit 1 only for *new* keys;
//! the evidence file records the withheld keys.
use std::collections::BTreeMap;

use explorer::{json, Report, Value};

struct Entry {
    size: (u64, u64, u64),
    what: String,
    replay: Value,
    count: u64,
}

pub struct MinV {
    map: BTreeMap<String, Entry>,
    ignore: Vec<String>,
    ignored: BTreeMap<String, u64>,
}

impl MinV {
    pub fn new() -> MinV {
        let ignore = std::env::var("VERIF_DRILL_IGNORE")
            .map(|s| s.split(',').map(|k| k.trim().to_string()).filter(|k| !k.is_empty()).collect())
            .unwrap_or_default();
        MinV {
            map: BTreeMap::new(),
            ignore,
            ignored: BTreeMap::new(),
        }
    }

    pub fn add(&mut self, key: String, size: (u64, u64, u64), what: impl FnOnce() -> String, replay: impl FnOnce() -> Value) {
        if self.ignore.iter().any(|k| *k == key) {
            *self.ignored.entry(key).or_default() += 1;
            return;
        }
        match self.map.get_mut(&key) {
            Some(e) => {
                e.count += 1;
                if size < e.size {
                    e.size = size;
                    e.what = what();
                    e.replay = replay();
                }
            }
            None => {
                self.map.insert(
                    key,
                    Entry {
                        size,
                        what: what(),
                        replay: replay(),
                        count: 1,
                    },
                );
            }
        }
    }

    /// (key, replay JSON) of the minimal case of every key, for the confirmation re-run.
    pub fn minimal_cases(&self) -> Vec<(String, Value)> {
        self.map.iter().map(|(k, e)| (k.clone(), e.replay.clone())).collect()
    }

    /// Re-execute the minimal case of every key twice with `rerun` (which returns the keys that
    /// fire); a key that does not fire again is uncaptured nondeterminism: a machinery error,
    /// never a verdict.
    pub fn confirm(&self, rep: &mut Report, mut rerun: impl FnMut(&Value) -> Vec<String>) {
        let mut confirmed = 0u64;
        for (key, replay) in self.minimal_cases() {
            for round in 0..2 {
                let keys = rerun(&replay);
                if !keys.contains(&key) {
                    rep.machinery_error(format!("violation {key} did not reproduce on confirmation run {round} (got {keys:?})"));
                } else {
                    confirmed += 1;
                }
            }
        }
        rep.set("violations_confirmed_by_rerun", json!(confirmed));
    }

    pub fn flush(self, rep: &mut Report) {
        for (key, e) in self.map {
            rep.violation(key.clone(), e.what, e.replay);
            for _ in 1..e.count {
                rep.violation(key.clone(), "", Value::Null);
            }
        }
        if !self.ignored.is_empty() {
            rep.set("drill_ignored_keys", json!(self.ignored));
            rep.assume("DRILL RUN: violation keys listed in VERIF_DRILL_IGNORE were withheld (see drill_ignored_keys)");
        }
    }
}
