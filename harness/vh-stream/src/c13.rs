//! C13 Processor streams deliver every output exactly once and in order.
//!
//! Engine: E-TASK (the controlled executor of `explorer::task`, no tokio runtime) + seam S1.
//! The real `ProcessorStream` / `Buffer` / `ComposedProcessors` / `PipelineBuilder` of
//! p2panda-stream run around *scripted processors* supplied by the harness.  `Buffer::new` needs
//! `spawn_local`, so every stream layer is constructed inside its own `tokio::task::LocalSet`
//! (entered, never attached to a runtime); each LocalSet is one task of the explorer's executor,
//! next to the consumer task and the environment "ticker".  What is enumerated:
//!
//! * which woken task runs next (`sched`, default: keep running / lowest id),
//! * the start branch of every `tokio::select!` in buffered.rs and composed.rs (`select`, S1),
//! * how many times the marked await point in a scripted `process` / `next` parks
//!   (`d.process`, `d.next` in {0,1,2}); a parked await point is only released by the ticker,
//!   so anything can happen in between,
//! * whether the next input item has already arrived when the input stream is polled (`arrive`),
//! * which parked await point the ticker releases first (`tick`).
use std::cell::{Cell, RefCell};
use std::collections::VecDeque;
use std::future::Future;
use std::pin::Pin;
use std::rc::Rc;
use std::task::{Context, Poll, Waker};
use std::time::Duration;

use explorer::task::{disown_select, own_select, End, Exec};
use explorer::{catch, dfs_par, json, Chooser, DfsCfg, Report, Value};
use futures_util::{Stream, StreamExt};
use p2panda_stream::{PipelineBuilder, Processor, StreamLayerExt};
use tokio::sync::Notify;
use tokio::task::LocalSet;

use crate::minv::MinV;

// ------------------------------------------------------------------------------------------
// Environment: parked await points and the ticker that releases them
// ------------------------------------------------------------------------------------------

struct ParkState {
    released: Cell<bool>,
    cancelled: Cell<bool>,
    waker: RefCell<Option<Waker>>,
}

#[derive(Clone, Debug, PartialEq, Eq, Hash)]
enum Ev {
    /// stage, value handed to `process`
    ProcessStart(usize, u32),
    /// stage, input value (the `process` future was dropped before it completed)
    ProcessCancelled(usize, u32),
    /// stage, input value
    ProcessDone(usize, u32),
    /// stage, input value: `process` returned an error for it
    ProcessRejected(usize, u32),
    /// stage, value returned by `next`
    Emit(usize, u32),
    /// value delivered by the input stream
    Input(u32),
}

struct Env {
    ch: Chooser,
    parked: RefCell<VecDeque<Rc<ParkState>>>,
    ticker_waker: RefCell<Option<Waker>>,
    log: RefCell<Vec<Ev>>,
    /// error items of an inner stream layer (they cannot travel through the next layer)
    inner_errs: RefCell<Vec<String>>,
    max_delay: usize,
}

impl Env {
    fn new(ch: &Chooser, max_delay: usize) -> Rc<Env> {
        Rc::new(Env {
            ch: ch.clone(),
            parked: RefCell::new(VecDeque::new()),
            ticker_waker: RefCell::new(None),
            log: RefCell::new(Vec::new()),
            inner_errs: RefCell::new(Vec::new()),
            max_delay,
        })
    }

    fn ev(&self, e: Ev) {
        self.log.borrow_mut().push(e);
    }

    fn register(&self, st: Rc<ParkState>) {
        self.parked.borrow_mut().push_back(st);
        if let Some(w) = self.ticker_waker.borrow_mut().take() {
            w.wake();
        }
    }

    /// A marked await point: parks `d` times, `d` chosen by the explorer (default 0 = the
    /// operation completes within the same poll).
    async fn delay(self: &Rc<Self>, label: &'static str) {
        let d = self.ch.choose(self.max_delay + 1, label);
        for _ in 0..d {
            Park {
                env: self.clone(),
                st: None,
            }
            .await;
        }
    }
}

/// Pending until the ticker releases it (never self-waking).
struct Park {
    env: Rc<Env>,
    st: Option<Rc<ParkState>>,
}

impl Future for Park {
    type Output = ();
    fn poll(mut self: Pin<&mut Self>, cx: &mut Context<'_>) -> Poll<()> {
        match &self.st {
            None => {
                let st = Rc::new(ParkState {
                    released: Cell::new(false),
                    cancelled: Cell::new(false),
                    waker: RefCell::new(Some(cx.waker().clone())),
                });
                self.env.register(st.clone());
                self.st = Some(st);
                Poll::Pending
            }
            Some(st) => {
                if st.released.get() {
                    Poll::Ready(())
                } else {
                    *st.waker.borrow_mut() = Some(cx.waker().clone());
                    Poll::Pending
                }
            }
        }
    }
}

impl Drop for Park {
    fn drop(&mut self) {
        if let Some(st) = &self.st {
            st.cancelled.set(true);
        }
    }
}

/// The environment task: releases one parked await point per step.
async fn ticker(env: Rc<Env>) {
    std::future::poll_fn(|cx: &mut Context<'_>| -> Poll<()> {
        let mut q = env.parked.borrow_mut();
        q.retain(|s| !s.cancelled.get());
        if q.is_empty() {
            *env.ticker_waker.borrow_mut() = Some(cx.waker().clone());
            return Poll::Pending;
        }
        let k = env.ch.choose(q.len(), "tick");
        let st = q.remove(k).unwrap();
        st.released.set(true);
        if let Some(w) = st.waker.borrow_mut().take() {
            w.wake();
        }
        if q.is_empty() {
            *env.ticker_waker.borrow_mut() = Some(cx.waker().clone());
        } else {
            cx.waker().wake_by_ref();
        }
        Poll::Pending
    })
    .await
}

// ------------------------------------------------------------------------------------------
// Input stream
// ------------------------------------------------------------------------------------------

struct InputStream {
    env: Rc<Env>,
    items: VecDeque<u32>,
    waiting: Option<Rc<ParkState>>,
    /// true: `Ready(None)` after the last item (like `stream::iter`); false: pending for ever
    terminates: bool,
}

impl Stream for InputStream {
    type Item = u32;
    fn poll_next(mut self: Pin<&mut Self>, cx: &mut Context<'_>) -> Poll<Option<u32>> {
        let mut just_arrived = false;
        if let Some(st) = &self.waiting {
            if !st.released.get() {
                *st.waker.borrow_mut() = Some(cx.waker().clone());
                return Poll::Pending;
            }
            self.waiting = None;
            just_arrived = true;
        }
        if self.items.is_empty() {
            return if self.terminates { Poll::Ready(None) } else { Poll::Pending };
        }
        if !just_arrived && self.env.ch.choose(2, "arrive") == 1 {
            // not there yet: the item arrives when the ticker says so
            let st = Rc::new(ParkState {
                released: Cell::new(false),
                cancelled: Cell::new(false),
                waker: RefCell::new(Some(cx.waker().clone())),
            });
            self.env.register(st.clone());
            self.waiting = Some(st);
            return Poll::Pending;
        }
        let x = self.items.pop_front().unwrap();
        self.env.ev(Ev::Input(x));
        Poll::Ready(Some(x))
    }
}

// ------------------------------------------------------------------------------------------
// Scripted processors
// ------------------------------------------------------------------------------------------

#[derive(Clone, Copy, Debug, PartialEq, Eq, Hash)]
enum Kind {
    /// order preserving
    Fifo,
    /// releases the most recently accepted item first
    Lifo,
    /// order preserving, but withholds an item until its partner (the next item) has been
    /// accepted, then releases both -- like an orderer waiting for a dependency.  Only used as
    /// first stage and with an even number of inputs.
    Pairs,
}

impl Kind {
    fn name(self) -> &'static str {
        match self {
            Kind::Fifo => "fifo",
            Kind::Lifo => "lifo",
            Kind::Pairs => "pairs",
        }
    }
}

struct Scripted {
    kind: Kind,
    stage: usize,
    env: Rc<Env>,
    q: RefCell<VecDeque<u32>>,
    /// Kind::Pairs: the item waiting for its partner
    held: RefCell<Option<u32>>,
    notify: Notify,
    /// the value this stage's `process` rejects with an error (none: accepts everything)
    reject: Option<u32>,
    /// the value this stage accepts (`Ok`) but never emits, like a de-duplicating or filtering
    /// processor; the chain then has fewer outputs than inputs
    swallow: Option<u32>,
    /// every accepted item yields two outputs (a splitting processor): more outputs than inputs
    fan_out: bool,
}

/// Second output of a fan-out stage for input `x`.
fn stage_fn2(stage: usize, x: u32) -> u32 {
    x * 10 + stage as u32 + 6
}

fn reject_msg(stage: usize, x: u32) -> String {
    format!("rejected by stage {stage}: {x}")
}

fn stage_fn(stage: usize, x: u32) -> u32 {
    x * 10 + stage as u32 + 1
}

struct CancelGuard<'a> {
    env: &'a Env,
    stage: usize,
    x: u32,
    done: bool,
}
impl Drop for CancelGuard<'_> {
    fn drop(&mut self) {
        if !self.done {
            self.env.ev(Ev::ProcessCancelled(self.stage, self.x));
        }
    }
}

impl Processor<u32> for Scripted {
    type Output = u32;
    type Error = String;

    async fn process(&self, x: u32) -> Result<(), String> {
        self.env.ev(Ev::ProcessStart(self.stage, x));
        let mut guard = CancelGuard {
            env: &self.env,
            stage: self.stage,
            x,
            done: false,
        };
        // the "expensive" part of accepting an item (a transaction, a signature check, ...)
        self.env.delay("d.process").await;
        if self.reject == Some(x) {
            guard.done = true;
            self.env.ev(Ev::ProcessRejected(self.stage, x));
            return Err(reject_msg(self.stage, x));
        }
        if self.swallow == Some(x) {
            guard.done = true;
            self.env.ev(Ev::ProcessDone(self.stage, x));
            return Ok(());
        }
        let v = stage_fn(self.stage, x);
        if self.fan_out {
            self.q.borrow_mut().push_back(v);
            self.q.borrow_mut().push_back(stage_fn2(self.stage, x));
            self.notify.notify_one();
        } else if self.kind == Kind::Pairs {
            let partner = self.held.borrow_mut().take();
            match partner {
                None => *self.held.borrow_mut() = Some(v),
                Some(first) => {
                    self.q.borrow_mut().push_back(first);
                    self.q.borrow_mut().push_back(v);
                    self.notify.notify_one();
                }
            }
        } else {
            self.q.borrow_mut().push_back(v);
            self.notify.notify_one();
        }
        guard.done = true;
        self.env.ev(Ev::ProcessDone(self.stage, x));
        Ok(())
    }

    async fn next(&self) -> Result<u32, String> {
        loop {
            // the "expensive" part of `next` happens before an item is taken, so the scripted
            // processor itself is cancel-safe: dropping this future never loses an item
            self.env.delay("d.next").await;
            let v = {
                let mut q = self.q.borrow_mut();
                match self.kind {
                    Kind::Fifo | Kind::Pairs => q.pop_front(),
                    Kind::Lifo => q.pop_back(),
                }
            };
            if let Some(v) = v {
                self.env.ev(Ev::Emit(self.stage, v));
                return Ok(v);
            }
            self.notify.notified().await;
        }
    }
}

fn scripted(env: &Rc<Env>, kind: Kind, stage: usize) -> Scripted {
    scripted_r(env, kind, stage, None)
}

/// `cfg.reject = Some((stage, input))`: that stage rejects the value the input has become.
fn scripted_c(env: &Rc<Env>, cfg: &Config, stage: usize) -> Scripted {
    let reject = cfg.reject.filter(|(s, _)| *s == stage).map(|(s, x)| (0..s).fold(x, |v, k| stage_fn(k, v)));
    let mut p = scripted_r(env, cfg.kinds[stage], stage, reject);
    p.swallow = cfg.swallow.filter(|(s, _)| *s == stage).map(|(s, x)| (0..s).fold(x, |v, k| stage_fn(k, v)));
    p.fan_out = cfg.fan_out == Some(stage);
    p
}

fn scripted_r(env: &Rc<Env>, kind: Kind, stage: usize, reject: Option<u32>) -> Scripted {
    Scripted {
        reject,
        swallow: None,
        fan_out: false,
        kind,
        stage,
        env: env.clone(),
        q: RefCell::new(VecDeque::new()),
        held: RefCell::new(None),
        notify: Notify::new(),
    }
}

// ------------------------------------------------------------------------------------------
// Topologies
// ------------------------------------------------------------------------------------------

#[derive(Clone, Copy, Debug, PartialEq, Eq, Hash)]
enum Topo {
    /// input.layer(P0)
    Single,
    /// input.layer(P0).layer(P1): two ProcessorStreams, two Buffers
    Layered2,
    /// input.layer(PipelineBuilder.layer(P0).layer(P1).build())
    Composed2,
    /// input.layer(PipelineBuilder.layer(P0).layer(P1).layer(P2).build())
    Composed3,
    /// input.layer(P0).layer(Pipeline(P1,P2)): a stream layer feeding a composed layer
    LayeredComposed,
}

impl Topo {
    fn name(self) -> &'static str {
        match self {
            Topo::Single => "single",
            Topo::Layered2 => "layered2",
            Topo::Composed2 => "composed2",
            Topo::Composed3 => "composed3",
            Topo::LayeredComposed => "layered+composed",
        }
    }
    fn stages(self) -> usize {
        match self {
            Topo::Single => 1,
            Topo::Layered2 | Topo::Composed2 => 2,
            Topo::Composed3 | Topo::LayeredComposed => 3,
        }
    }
    /// Kind of the boundary *after* stage `k` (k = stages-1: the consumer side).
    fn boundary_after(self, k: usize) -> &'static str {
        if k + 1 == self.stages() {
            return "output";
        }
        match (self, k) {
            (Topo::Layered2, 0) => "stream-handover",
            (Topo::LayeredComposed, 0) => "stream-handover",
            _ => "composed-handover",
        }
    }
    fn from_name(s: &str) -> Option<Topo> {
        [Topo::Single, Topo::Layered2, Topo::Composed2, Topo::Composed3, Topo::LayeredComposed]
            .into_iter()
            .find(|t| t.name() == s)
    }
}

type OutItem = Result<u32, String>;

/// Erase the concrete stream type: the consumer only needs `Stream<Item = Result<u32, String>>`.
fn erase<S, E: std::fmt::Debug>(s: S) -> Pin<Box<dyn Stream<Item = OutItem>>>
where
    S: Stream<Item = Result<u32, E>> + 'static,
{
    Box::pin(s.map(|r| r.map_err(|e| format!("{e:?}"))))
}

/// Between two stream layers only the `Ok` items travel on (as in the repository's `into_stream`
/// test); an error item of the inner layer is a violation by itself and is recorded for the oracle.
fn strip_errors<S>(env: &Rc<Env>, s: S) -> impl Stream<Item = u32> + 'static
where
    S: Stream<Item = Result<u32, String>> + 'static,
{
    let env = env.clone();
    s.filter_map(move |r| {
        let env = env.clone();
        async move {
            match r {
                Ok(v) => Some(v),
                Err(e) => {
                    env.inner_errs.borrow_mut().push(e);
                    None
                }
            }
        }
    })
}

#[derive(Clone, Debug)]
struct Config {
    topo: Topo,
    kinds: Vec<Kind>,
    inputs: Vec<u32>,
    terminates: bool,
    max_delay: usize,
    /// deviation bound for this configuration
    max_dev: usize,
    /// (stage, input): that stage's `process` rejects what this input has become; the error is an
    /// output of the chain like any other and has to be yielded exactly once
    reject: Option<(usize, u32)>,
    /// (stage, input): that stage accepts what this input has become but never emits it
    swallow: Option<(usize, u32)>,
    /// this stage emits two outputs per accepted item
    fan_out: Option<usize>,
}

impl Config {
    fn label(&self) -> String {
        format!(
            "{}[{}] inputs={} end={} dev<={}{}",
            self.topo.name(),
            self.kinds.iter().map(|k| k.name()).collect::<Vec<_>>().join(","),
            self.inputs.len(),
            if self.terminates { "none" } else { "pending" },
            self.max_dev,
            match (self.reject, self.swallow, self.fan_out) {
                (Some((s, x)), _, _) => format!(" stage{s}-rejects-input{x}"),
                (_, Some((s, x)), _) => format!(" stage{s}-swallows-input{x}"),
                (_, _, Some(s)) => format!(" stage{s}-fans-out"),
                _ => String::new(),
            }
        )
    }
    fn to_json(&self) -> Value {
        json!({
            "topology": self.topo.name(),
            "kinds": self.kinds.iter().map(|k| k.name()).collect::<Vec<_>>(),
            "inputs": self.inputs,
            "terminates": self.terminates,
            "max_delay": self.max_delay,
            "max_dev": self.max_dev,
            "reject": self.reject.map(|(s, x)| vec![s as u64, x as u64]),
            "swallow": self.swallow.map(|(s, x)| vec![s as u64, x as u64]),
            "fan_out": self.fan_out,
        })
    }
    fn from_json(v: &Value) -> Option<Config> {
        Some(Config {
            topo: Topo::from_name(v.get("topology")?.as_str()?)?,
            kinds: v
                .get("kinds")?
                .as_array()?
                .iter()
                .map(|k| match k.as_str() {
                    Some("lifo") => Kind::Lifo,
                    Some("pairs") => Kind::Pairs,
                    _ => Kind::Fifo,
                })
                .collect(),
            inputs: v.get("inputs")?.as_array()?.iter().map(|x| x.as_u64().unwrap_or(0) as u32).collect(),
            terminates: v.get("terminates")?.as_bool()?,
            max_delay: v.get("max_delay")?.as_u64()? as usize,
            max_dev: v.get("max_dev").and_then(|x| x.as_u64()).unwrap_or(2) as usize,
            reject: v.get("reject").and_then(|r| r.as_array()).and_then(|a| Some((a.first()?.as_u64()? as usize, a.get(1)?.as_u64()? as u32))),
            swallow: v.get("swallow").and_then(|r| r.as_array()).and_then(|a| Some((a.first()?.as_u64()? as usize, a.get(1)?.as_u64()? as u32))),
            fan_out: v.get("fan_out").and_then(|x| x.as_u64()).map(|x| x as usize),
        })
    }
    fn all_fifo(&self) -> bool {
        self.kinds.iter().all(|k| *k != Kind::Lifo)
    }
    fn expected(&self, x: u32) -> u32 {
        (0..self.topo.stages()).fold(x, |v, s| stage_fn(s, v))
    }
    /// Every output the chain owes for input `x`, each with the value it has after every stage
    /// (`path[s]` = value emitted by stage s).  One path for 1:1 chains, two behind a fan-out
    /// stage, none when a stage swallows the item.
    fn lineages(&self, x: u32) -> Vec<Vec<u32>> {
        let mut paths: Vec<Vec<u32>> = vec![vec![]];
        for s in 0..self.topo.stages() {
            let mut next = vec![];
            for p in paths {
                let v = p.last().copied().unwrap_or(x);
                let swallowed = self.swallow.is_some_and(|(ss, sx)| ss == s && (0..s).fold(sx, |w, k| stage_fn(k, w)) == v);
                if swallowed {
                    continue;
                }
                let mut a = p.clone();
                a.push(stage_fn(s, v));
                next.push(a);
                if self.fan_out == Some(s) {
                    let mut b = p.clone();
                    b.push(stage_fn2(s, v));
                    next.push(b);
                }
            }
            paths = next;
        }
        paths
    }
}

#[derive(Debug)]
struct Obs {
    end: String,
    outs: Vec<u32>,
    errs: Vec<String>,
    stream_ended: bool,
    log: Vec<Ev>,
    panic: Option<String>,
}

fn run_one(cfg: &Config, ch: &Chooser) -> Obs {
    own_select(ch);
    let res = catch(|| run_inner(cfg, ch));
    disown_select();
    match res {
        Ok(o) => o,
        Err(p) => Obs {
            end: "panic".into(),
            outs: vec![],
            errs: vec![],
            stream_ended: false,
            log: vec![],
            panic: Some(p),
        },
    }
}

fn run_inner(cfg: &Config, ch: &Chooser) -> Obs {
    let env = Env::new(ch, cfg.max_delay);
    let input = InputStream {
        env: env.clone(),
        items: cfg.inputs.iter().copied().collect(),
        waiting: None,
        terminates: cfg.terminates,
    };
    let mut locals: Vec<LocalSet> = Vec::new();
    // Every ProcessorStream spawns its Buffer task with `spawn_local`; entering a LocalSet makes
    // it the target.  One LocalSet per stream layer, so the explorer schedules layers separately.
    let stream: Pin<Box<dyn Stream<Item = OutItem>>> = match cfg.topo {
        Topo::Single => {
            let l0 = LocalSet::new();
            let s = {
                let _g = l0.enter();
                erase(input.layer(scripted_c(&env, cfg, 0)))
            };
            locals.push(l0);
            s
        }
        Topo::Layered2 => {
            let l0 = LocalSet::new();
            let l1 = LocalSet::new();
            let s0 = {
                let _g = l0.enter();
                input.layer(scripted_c(&env, cfg, 0))
            };
            let s0 = strip_errors(&env, s0);
            let s1 = {
                let _g = l1.enter();
                erase(s0.layer(scripted_c(&env, cfg, 1)))
            };
            locals.push(l0);
            locals.push(l1);
            s1
        }
        Topo::Composed2 => {
            let l0 = LocalSet::new();
            let p = PipelineBuilder::<u32>::new()
                .layer(scripted_c(&env, cfg, 0))
                .layer(scripted_c(&env, cfg, 1))
                .build();
            let s = {
                let _g = l0.enter();
                erase(input.layer(p))
            };
            locals.push(l0);
            s
        }
        Topo::Composed3 => {
            let l0 = LocalSet::new();
            let p = PipelineBuilder::<u32>::new()
                .layer(scripted_c(&env, cfg, 0))
                .layer(scripted_c(&env, cfg, 1))
                .layer(scripted_c(&env, cfg, 2))
                .build();
            let s = {
                let _g = l0.enter();
                erase(input.layer(p))
            };
            locals.push(l0);
            s
        }
        Topo::LayeredComposed => {
            let l0 = LocalSet::new();
            let l1 = LocalSet::new();
            let s0 = {
                let _g = l0.enter();
                input.layer(scripted_c(&env, cfg, 0))
            };
            let s0 = strip_errors(&env, s0);
            let p = PipelineBuilder::<u32>::new()
                .layer(scripted_c(&env, cfg, 1))
                .layer(scripted_c(&env, cfg, 2))
                .build();
            let s1 = {
                let _g = l1.enter();
                erase(s0.layer(p))
            };
            locals.push(l0);
            locals.push(l1);
            s1
        }
    };

    let outs: Rc<RefCell<Vec<u32>>> = Rc::default();
    let errs: Rc<RefCell<Vec<String>>> = Rc::default();
    let ended = Rc::new(Cell::new(false));

    let mut ex = Exec::new();
    {
        let outs = outs.clone();
        let errs = errs.clone();
        let ended = ended.clone();
        let mut stream = stream;
        ex.spawn("consumer", async move {
            loop {
                match stream.next().await {
                    Some(Ok(v)) => outs.borrow_mut().push(v),
                    Some(Err(e)) => errs.borrow_mut().push(e),
                    None => {
                        ended.set(true);
                        break;
                    }
                }
            }
            // keep the stream (and its Buffer tasks) alive until the end of the execution
            std::future::pending::<()>().await;
            drop(stream);
        });
    }
    for (i, l) in locals.into_iter().enumerate() {
        ex.spawn_daemon(&format!("layer{i}"), async move {
            l.await;
        });
    }
    ex.spawn_daemon("ticker", ticker(env.clone()));
    let end = ex.run(ch, 20_000);
    drop(ex);
    let log = env.log.borrow().clone();
    let o = Obs {
        end: match end {
            End::AllDone => "all-done".into(),
            End::Deadlock(_) => "quiescent".into(),
            End::Horizon => "horizon".into(),
        },
        outs: outs.borrow().clone(),
        errs: errs.borrow().iter().cloned().chain(env.inner_errs.borrow().iter().cloned()).collect(),
        stream_ended: ended.get(),
        log,
        panic: None,
    };
    o
}

// ------------------------------------------------------------------------------------------
// Oracle
// ------------------------------------------------------------------------------------------

/// Where did the lineage of input `x` stop?  Returns (boundary kind, how).
fn diagnose(cfg: &Config, log: &[Ev], x: u32, path: &[u32]) -> (String, String) {
    if !log.contains(&Ev::Input(x)) {
        return ("input".into(), "never-pulled-from-input-stream".into());
    }
    let mut v = x;
    for s in 0..cfg.topo.stages() {
        let started = log.contains(&Ev::ProcessStart(s, v));
        let done = log.contains(&Ev::ProcessDone(s, v));
        let cancelled = log.contains(&Ev::ProcessCancelled(s, v));
        let before = if s == 0 { "input".to_string() } else { cfg.topo.boundary_after(s - 1).to_string() };
        if !started {
            return (before, "taken-from-previous-stage-but-never-handed-to-process".into());
        }
        if !done {
            return (
                before,
                if cancelled { "process-future-dropped-midway".into() } else { "process-never-completed".into() },
            );
        }
        let out = path[s];
        if !log.contains(&Ev::Emit(s, out)) {
            return (format!("stage{s}"), "accepted-but-never-taken-by-next".into());
        }
        v = out;
    }
    ("output".into(), "emitted-by-last-stage-but-never-yielded".into())
}

fn fmt_log(log: &[Ev]) -> String {
    log.iter()
        .map(|e| match e {
            Ev::Input(x) => format!("in({x})"),
            Ev::ProcessStart(s, x) => format!("P{s}.process({x})<"),
            Ev::ProcessDone(s, x) => format!("P{s}.process({x})>"),
            Ev::ProcessRejected(s, x) => format!("P{s}.process({x})REJECTED"),
            Ev::ProcessCancelled(s, x) => format!("P{s}.process({x})DROPPED"),
            Ev::Emit(s, x) => format!("P{s}.next->{x}"),
        })
        .collect::<Vec<_>>()
        .join(" ")
}

fn judge(mv: &mut MinV, cfg: &Config, ch: &Chooser, o: &Obs) {
    let replay = || json!({"part": "c13", "config": cfg.to_json(), "vector": ch.vector()});
    let ctx = || {
        format!(
            "{}; choices: {}; trace: {}; yielded {:?}",
            cfg.label(),
            ch.describe(),
            fmt_log(&o.log),
            o.outs
        )
    };
    // smaller = fewer deviations, fewer inputs, fewer stages
    let size = (ch.deviations() as u64, cfg.inputs.len() as u64, (cfg.topo.stages() * 1000 + ch.log().len()) as u64);
    if let Some(p) = &o.panic {
        let short: String = p.chars().take(60).collect();
        mv.add(format!("panic/{}", short.replace(' ', "-")), size, || format!("panic: {p}; {}", ctx()), replay);
        return;
    }
    if o.end == "horizon" {
        mv.add("livelock/step-horizon".into(), size, || format!("no quiescence within 20000 steps; {}", ctx()), replay);
        return;
    }
    // the error of a rejecting stage is an output of the chain: exactly once
    let expected_errs: Vec<String> = cfg.reject.map(|(s, x)| vec![reject_msg(s, (0..s).fold(x, |v, k| stage_fn(k, v)))]).unwrap_or_default();
    let mut extra_errs = o.errs.clone();
    for e in &expected_errs {
        if let Some(p) = extra_errs.iter().position(|x| x.contains(e.as_str())) {
            extra_errs.remove(p);
        } else {
            let (s, x) = cfg.reject.unwrap();
            let rejected = o.log.iter().any(|ev| matches!(ev, Ev::ProcessRejected(st, _) if *st == s));
            if rejected {
                let boundary = if s == 0 { "input".to_string() } else { cfg.topo.boundary_after(s - 1).to_string() };
                mv.add(
                    format!("lost/{boundary}/error-returned-by-process-never-yielded"),
                    size,
                    || format!("stage {s} rejected what input {x} had become, but the error was never yielded by the stream; {}", ctx()),
                    replay,
                );
            }
            // not rejected at all: the item never reached the stage; reported below as a lost input
        }
    }
    if !extra_errs.is_empty() {
        mv.add("error-item".into(), size, || format!("error items {:?}; {}", extra_errs, ctx()), replay);
    }
    if o.stream_ended {
        mv.add("stream-terminated".into(), size, || format!("the processor stream returned None; {}", ctx()), replay);
    }
    let rejected_reached = cfg.reject.is_some_and(|(s, _)| o.log.iter().any(|ev| matches!(ev, Ev::ProcessRejected(st, _) if *st == s)));
    let ok_inputs: Vec<u32> = cfg.inputs.iter().copied().filter(|x| !(rejected_reached && cfg.reject.is_some_and(|(_, r)| r == *x))).collect();
    // every output the chain owes, in input order (behind a fan-out stage both copies, first copy first)
    let owed: Vec<(u32, Vec<u32>)> = ok_inputs.iter().flat_map(|x| cfg.lineages(*x).into_iter().map(move |p| (*x, p))).collect();
    let expected: Vec<u32> = owed.iter().map(|(_, p)| *p.last().unwrap()).collect();
    let mut rest = o.outs.clone();
    let mut missing: Vec<(u32, Vec<u32>)> = vec![];
    for (x, path) in &owed {
        let e = path.last().unwrap();
        if let Some(p) = rest.iter().position(|v| v == e) {
            rest.remove(p);
        } else {
            missing.push((*x, path.clone()));
        }
    }
    for (x, path) in &missing {
        let (boundary, how) = diagnose(cfg, &o.log, *x, path);
        let class = if how.starts_with("accepted-but") { "stalled" } else { "lost" };
        mv.add(
            format!("{class}/{boundary}/{how}"),
            size,
            || {
                format!(
                    "input {x} (expected output {}) was never yielded: {how} at the {boundary} boundary; {}",
                    path.last().unwrap(),
                    ctx()
                )
            },
            replay,
        );
    }
    if !rest.is_empty() {
        let dup = rest.iter().any(|v| expected.contains(v));
        mv.add(
            if dup { "duplicated-output".into() } else { "unexpected-output".into() },
            size,
            || format!("outputs beyond the expected multiset: {rest:?}; {}", ctx()),
            replay,
        );
    }
    if cfg.all_fifo() && missing.is_empty() && rest.is_empty() && o.outs != expected {
        mv.add(
            "fifo-order-broken".into(),
            size,
            || format!("all processors are FIFO, expected {expected:?}; {}", ctx()),
            replay,
        );
    }
}

fn configs(thorough: bool) -> Vec<Config> {
    let base_dev = if thorough { 3 } else { 2 };
    let mut v = vec![];
    let kinds = [Kind::Fifo, Kind::Lifo];
    let topos: &[Topo] = if thorough {
        &[Topo::Single, Topo::Layered2, Topo::Composed2, Topo::Composed3, Topo::LayeredComposed]
    } else {
        &[Topo::Single, Topo::Layered2, Topo::Composed2, Topo::Composed3]
    };
    for &topo in topos {
        let n = topo.stages();
        for code in 0..(1u32 << n) {
            let ks: Vec<Kind> = (0..n).map(|i| kinds[((code >> i) & 1) as usize]).collect();
            // quick: all-FIFO and the chains with exactly one reordering stage
            if !thorough && ks.iter().filter(|k| **k == Kind::Lifo).count() > 1 {
                continue;
            }
            for len in 1..=3usize {
                for terminates in [true, false] {
                    if !thorough && !terminates {
                        continue;
                    }
                    // thorough: one more deviation where the space is small enough
                    let deep = thorough
                        && terminates
                        && ks.iter().all(|k| *k == Kind::Fifo)
                        && (topo == Topo::Single || (topo.stages() == 2 && len <= 2));
                    v.push(Config {
                        topo,
                        kinds: ks.clone(),
                        inputs: (1..=len as u32).collect(),
                        terminates,
                        max_delay: 2,
                        max_dev: if deep { base_dev + 1 } else { base_dev },
                        reject: None,
                        swallow: None,
                        fan_out: None,
                    });
                }
            }
        }
    }
    // a withholding first stage (releases nothing until the second input has been forwarded)
    for &topo in topos {
        let mut ks = vec![Kind::Fifo; topo.stages()];
        ks[0] = Kind::Pairs;
        for terminates in [true, false] {
            if !thorough && !terminates {
                continue;
            }
            for len in [2u32, 4] {
                if len == 4 && !(thorough && topo.stages() <= 2) {
                    continue;
                }
                v.push(Config {
                    topo,
                    kinds: ks.clone(),
                    inputs: (1..=len).collect(),
                    terminates,
                    max_delay: 2,
                    max_dev: base_dev,
                    reject: None,
                    swallow: None,
                    fan_out: None,
                });
            }
        }
    }
    // a stage that rejects one input: the error has to come out exactly once, whatever is
    // cancelled around it
    for &topo in topos {
        for stage in 0..topo.stages() {
            for len in 2..=3u32 {
                for rejected in 1..=len {
                    if !thorough && rejected == 3 {
                        continue;
                    }
                    v.push(Config {
                        topo,
                        kinds: vec![Kind::Fifo; topo.stages()],
                        inputs: (1..=len).collect(),
                        terminates: true,
                        max_delay: 2,
                        max_dev: base_dev,
                        reject: Some((stage, rejected)),
                        swallow: None,
                        fan_out: None,
                    });
                }
            }
        }
    }
    // chains whose outputs are not one per input: a stage that swallows one item (a filter, a
    // de-duplication, an orderer whose dependency never arrives) and a stage that emits two
    // outputs per item (a splitter)
    for &topo in topos {
        for stage in 0..topo.stages() {
            for len in 2..=3u32 {
                if !thorough && len == 3 && topo.stages() == 3 {
                    continue;
                }
                for swallowed in 1..=len {
                    v.push(Config {
                        topo,
                        kinds: vec![Kind::Fifo; topo.stages()],
                        inputs: (1..=len).collect(),
                        terminates: true,
                        max_delay: 2,
                        max_dev: base_dev,
                        reject: None,
                        swallow: Some((stage, swallowed)),
                        fan_out: None,
                    });
                }
            }
            for len in 1..=2u32 {
                v.push(Config {
                    topo,
                    kinds: vec![Kind::Fifo; topo.stages()],
                    inputs: (1..=len).collect(),
                    terminates: true,
                    max_delay: 2,
                    max_dev: base_dev,
                    reject: None,
                    swallow: None,
                    fan_out: Some(stage),
                });
            }
        }
    }
    v
}

pub fn run(mut rep: Report) -> i32 {
    let thorough = rep.thorough();
    rep.rule = "one execution = one topology (single layer, two stream layers, composed pair, composed triple; thorough also stream layer + composed layer) x FIFO/LIFO scripted processors (plus chains whose first stage withholds items pairwise) x 1..3 inputs, run to quiescence on the controlled executor under one choice vector (task scheduling, select! start branch, 0..2 parks per process/next call, input arrival, release order); non-trivial = an execution in which some `next` or `process` future of a scripted processor was pending (parked) at least once or an input arrived late, i.e. the schedule differs from the all-default one".into();

    if let Some(path) = rep.args.replay.clone() {
        match explorer::report::load_replay(&path) {
            Ok((_key, rp)) => {
                let cfg = rp.get("config").and_then(Config::from_json);
                let vector: Option<Vec<u32>> = rp
                    .get("vector")
                    .and_then(|v| v.as_array())
                    .map(|a| a.iter().map(|x| x.as_u64().unwrap_or(0) as u32).collect());
                if let (Some(cfg), Some(vector)) = (cfg, vector) {
                    let ch = Chooser::new(vector);
                    let o = run_one(&cfg, &ch);
                    println!("replay trace: {}", fmt_log(&o.log));
                    println!("replay outputs: {:?} end={}", o.outs, o.end);
                    let mut mv = MinV::new();
                    judge(&mut mv, &cfg, &ch, &o);
                    mv.flush(&mut rep);
                } else {
                    rep.machinery_error("replay file has no config/vector".into());
                }
            }
            Err(e) => rep.machinery_error(e),
        }
        return rep.finish();
    }

    let cfgs = configs(thorough);
    let wall_total = if thorough { 540.0 } else { 30.0 };
    let started = std::time::Instant::now();
    let mut per_topo: std::collections::BTreeMap<&'static str, u64> = Default::default();
    let mut mv = MinV::new();
    for (ci, cfg) in cfgs.iter().enumerate() {
        let left = (wall_total - started.elapsed().as_secs_f64()).max(1.0);
        let share = left / (cfgs.len() - ci) as f64;
        let max_dev = cfg.max_dev;
        let dcfg = DfsCfg {
            max_dev,
            max_execs: u64::MAX,
            wall: Duration::from_secs_f64((share * 3.0).max(if thorough { 60.0 } else { 15.0 })),
            threads: rep.args.threads,
        };
        let rep_ref = &mut rep;
        let mv_ref = &mut mv;
        let st = dfs_par(
            &dcfg,
            |ch| run_one(cfg, ch),
            |ch, o| {
                let rep = &mut *rep_ref;
                let parked = ch.log().iter().any(|c| c.c != 0 && (c.label.starts_with("d.") || c.label == "arrive"));
                if parked {
                    rep.nontrivial(&(cfg.label(), ch.vector()));
                }
                rep.outcome(&(cfg.label(), &o.outs, &o.end));
                rep.state(&(cfg.label(), &o.log));
                if rep.want_sample() && parked && o.outs.len() == cfg.inputs.len() && cfg.inputs.len() == 3 {
                    rep.sample(json!({"config": cfg.label(), "choices": ch.describe(), "trace": fmt_log(&o.log), "yielded": o.outs}));
                }
                judge(mv_ref, cfg, ch, &o);
            },
        );
        *per_topo.entry(cfg.topo.name()).or_default() += st.executions;
        rep.absorb_dfs(&cfg.label(), &st, max_dev);
    }
    mv.confirm(&mut rep, |rp| {
        let cfg = rp.get("config").and_then(Config::from_json);
        let vector: Option<Vec<u32>> = rp.get("vector").and_then(|v| v.as_array()).map(|a| a.iter().map(|x| x.as_u64().unwrap_or(0) as u32).collect());
        match (cfg, vector) {
            (Some(cfg), Some(vector)) => {
                let ch = Chooser::new(vector);
                let o = run_one(&cfg, &ch);
                let mut m = MinV::new();
                judge(&mut m, &cfg, &ch, &o);
                m.minimal_cases().into_iter().map(|(k, _)| k).collect()
            }
            _ => vec![],
        }
    });
    mv.flush(&mut rep);
    rep.set("executions_per_topology", json!(per_topo));
    rep.set("deviation_bound", json!(if thorough { "3 (4 for all-FIFO single-layer chains and two-stage chains with <= 2 inputs)" } else { "2" }));
    rep.assume("scripted processors are cancel-safe in `next` (they park before taking an item) and accept an item only at the end of `process`; their delays are parks released by an environment task, so every other task may run in between");
    rep.assume("each stream layer's Buffer task lives in its own LocalSet which is one task of the controlled executor; tokio's LocalSet, mpsc, Notify and select! are trusted");
    rep.assume("the consumer polls the outermost stream only when woken (no spurious polls)");
    rep.finish()
}
