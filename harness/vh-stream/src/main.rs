//! Checks on p2panda-stream: causal orderer (C11, C12) and processor streams (C13).
use explorer::{Args, Report};

mod c13;

fn main() {
    let args = Args::parse();
    explorer::quiet_panics();
    let code = match args.property.as_str() {
        "C13" => c13::run(Report::new(&args, "model_checking")),
        other => {
            eprintln!("vh-stream: unknown property {other}");
            2
        }
    };
    std::process::exit(code);
}
