//! Checks on p2panda-stream: causal orderer (C11, C12) and processor streams (C13).
use explorer::{Args, Report};

mod c11;
mod c12;
mod c13;
mod gate;
mod minv;

fn main() {
    let args = Args::parse();
    if std::env::var_os("VERIF_LOUD").is_none() {
        explorer::quiet_panics();
    }
    let code = explorer::guard_main(&args.property, || match args.property.as_str() {
        "C11" => c11::run(Report::new(&args, "model_checking")),
        "C12" => c12::run(Report::new(&args, "fault_enumeration")),
        "C13" => c13::run(Report::new(&args, "model_checking")),
        other => {
            eprintln!("vh-stream: unknown property {other}");
            2
        }
    });
    std::process::exit(code);
}
