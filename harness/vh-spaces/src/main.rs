//! Checks on p2panda-spaces (C39) and p2panda-discovery (C30).
use explorer::{Args, Report};

mod c30;
mod c39;
mod clock;

fn main() {
    let args = Args::parse();
    explorer::quiet_panics();
    c39::install_panic_probe();
    if let Err(e) = clock::self_test() {
        eprintln!("MACHINERY-ERROR property={} clock seam self-test failed: {e}", args.property);
        std::process::exit(2);
    }
    let code = explorer::guard_main(&args.property, || match args.property.as_str() {
        "C30" => c30::run(Report::new(&args, "model_checking")),
        "C39" => c39::run(Report::new(&args, "model_checking")),
        other => {
            eprintln!("vh-spaces: unknown property {other}");
            2
        }
    });
    std::process::exit(code);
}
