use explorer::Report;
pub fn run(rep: Report) -> i32 {
    rep.finish()
}
