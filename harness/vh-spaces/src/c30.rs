//! C30 Confidential discovery yields exactly the common topics.
//!
//! E-ENUM on the real `PsiHashDiscoveryProtocol` with the only address-book store the code base
//! has (`SqliteStore`, in memory) and the crate's `TestSubscription`.  Both sides run as two futures
//! joined on a current-thread runtime, connected by harness pipes (futures mpsc + a recording
//! `Sink::with` stage) that keep every protocol message.  The protocol is a strict ping-pong (each
//! side sends only after it received), so the interleaving of the two sides is unique; the
//! enumerated dimensions are the inputs:
//!   universe of 4 topics, all 16 x 16 subset pairs; address books with 3 further nodes whose topic
//!   sets come from a menu; own topics registered in the own address book or not; restricted
//!   sharing (`Config::share_nodes_with_common_topics`) on / off.
//! Oracle: both results' `topics` = intersection; no serialised protocol message (CBOR as the
//! stores/codecs use, and JSON for the human-readable serde path) contains a raw topic of either
//! side, nor does any hashed-topic set; restricted mode: node ids sent by X are a subset of
//! {X} + {nodes of X's book sharing a common topic}.  The per-session random salt halves only feed
//! the hashes; no part of the oracle depends on their values.
use std::cell::RefCell;
use std::collections::{BTreeMap, BTreeSet, HashSet};
use std::rc::Rc;
use std::sync::atomic::{AtomicUsize, Ordering};
use std::sync::Mutex;

use explorer::{json, Report};
use futures_channel::mpsc;
use futures_util::{SinkExt, StreamExt};
use p2panda_core::cbor::encode_cbor;
use p2panda_core::{Hash, SigningKey, Topic, VerifyingKey};
use p2panda_discovery::psi_hash::{Config, PsiHashDiscoveryProtocol, PsiHashMessage};
use p2panda_discovery::test_utils::TestSubscription;
use p2panda_discovery::DiscoveryProtocol;
use p2panda_store::address_book::test_utils::{TestNodeId, TestNodeInfo, TestTransportInfo};
use p2panda_store::address_book::AddressBookStore;
use p2panda_store::{SqliteStore, Transaction};

use crate::clock;

type Msg = PsiHashMessage<TestNodeId, TestNodeInfo>;

/// Largest topic universe used (quick: 4, thorough: 5).
const MAX_UNIVERSE: usize = 5;

fn topic(i: usize) -> Topic {
    Topic::from(*Hash::digest(format!("c30 topic {i}")).as_bytes())
}

fn node(i: u8) -> VerifyingKey {
    SigningKey::from_bytes(&[0x30 + i; 32]).verifying_key()
}

fn subset(mask: usize) -> Vec<usize> {
    (0..MAX_UNIVERSE).filter(|i| mask & (1 << i) != 0).collect()
}

fn contains_window(hay: &[u8], needle: &[u8; 32]) -> bool {
    hay.len() >= 32 && hay.windows(32).any(|w| w == needle)
}

#[derive(Clone)]
struct Sent {
    from_alice: bool,
    variant: &'static str,
    cbor: Vec<u8>,
    json: String,
    hashed: Vec<Topic>,
    node_ids: Option<Vec<VerifyingKey>>,
}

fn record(from_alice: bool, m: &Msg) -> Sent {
    let (variant, hashed, node_ids) = match m {
        PsiHashMessage::AliceSaltHalf { .. } => ("AliceSaltHalf", vec![], None),
        PsiHashMessage::BobSaltHalfAndHashedData { topics_for_alice, .. } => ("BobSaltHalfAndHashedData", topics_for_alice.iter().cloned().collect(), None),
        PsiHashMessage::AliceHashedData { topics_for_bob } => ("AliceHashedData", topics_for_bob.iter().cloned().collect(), None),
        PsiHashMessage::Nodes { transport_infos } => ("Nodes", vec![], Some(transport_infos.keys().cloned().collect())),
    };
    Sent {
        from_alice,
        variant,
        cbor: encode_cbor(m).unwrap_or_default(),
        json: serde_json::to_string(m).unwrap_or_default(),
        hashed,
        node_ids,
    }
}

/// The topic sets (as masks) of the three further nodes in a book.
#[derive(Clone, Debug)]
struct Book {
    others: [usize; 3],
}

async fn make_store(own: VerifyingKey, book: &Book) -> Result<SqliteStore, String> {
    let store = SqliteStore::temporary().await;
    let permit = store.begin().await.map_err(|e| e.to_string())?;
    let mut info = TestNodeInfo::new(own);
    info.transports = Some(TestTransportInfo::new("own"));
    AddressBookStore::<TestNodeId, TestNodeInfo>::insert_node_info(&store, info).await.map_err(|e| e.to_string())?;
    for (k, mask) in book.others.iter().enumerate() {
        let id = node(2 + k as u8);
        let mut info = TestNodeInfo::new(id);
        info.transports = Some(TestTransportInfo::new(&format!("other-{k}")));
        AddressBookStore::<TestNodeId, TestNodeInfo>::insert_node_info(&store, info).await.map_err(|e| e.to_string())?;
        let ts: HashSet<Topic> = subset(*mask).into_iter().map(topic).collect();
        AddressBookStore::<TestNodeId, TestNodeInfo>::set_topics(&store, id, ts).await.map_err(|e| e.to_string())?;
    }
    store.commit(permit).await.map_err(|e| e.to_string())?;
    Ok(store)
}

async fn set_own_topics(store: &SqliteStore, own: VerifyingKey, mask: usize) -> Result<(), String> {
    let permit = store.begin().await.map_err(|e| e.to_string())?;
    let ts: HashSet<Topic> = subset(mask).into_iter().map(topic).collect();
    AddressBookStore::<TestNodeId, TestNodeInfo>::set_topics(store, own, ts).await.map_err(|e| e.to_string())?;
    store.commit(permit).await.map_err(|e| e.to_string())?;
    Ok(())
}

#[derive(Default)]
struct Part {
    evals: u64,
    transitions: u64,
    nontrivial: u64,
    restricted_nontrivial: u64,
    outcomes: BTreeSet<String>,
    violations: BTreeMap<String, (String, serde_json::Value, u64)>,
    samples: Vec<serde_json::Value>,
    machinery: Vec<String>,
    states: BTreeSet<u64>,
}

impl Part {
    fn violation(&mut self, key: String, what: String, replay: serde_json::Value) {
        let e = self.violations.entry(key).or_insert((what.clone(), replay.clone(), 0));
        e.2 += 1;
        // keep the smallest description (deterministic across thread schedules)
        if what < e.0 {
            e.0 = what;
            e.1 = replay;
        }
    }
}

struct Case {
    book_idx: usize,
    a_mask: usize,
    b_mask: usize,
    own_reg: bool,
    restricted: bool,
}

async fn run_case(part: &mut Part, case: &Case, books: (&Book, &Book), stores: (&SqliteStore, &SqliteStore)) {
    let (alice, bob) = (node(0), node(1));
    let (a_store, b_store) = stores;
    let replay = json!({"part": "case", "book": case.book_idx, "alice_topics": subset(case.a_mask), "bob_topics": subset(case.b_mask), "own_topics_in_book": case.own_reg, "restricted": case.restricted, "alice_book": books.0.others, "bob_book": books.1.others});
    let desc = format!(
        "alice topics {:?}, bob topics {:?}, alice book others {:?}, bob book others {:?}, own topics in own book: {}, share_nodes_with_common_topics: {}",
        subset(case.a_mask), subset(case.b_mask),
        books.0.others.iter().map(|m| subset(*m)).collect::<Vec<_>>(),
        books.1.others.iter().map(|m| subset(*m)).collect::<Vec<_>>(),
        case.own_reg, case.restricted
    );
    part.evals += 1;

    let own_a = if case.own_reg { case.a_mask } else { 0 };
    let own_b = if case.own_reg { case.b_mask } else { 0 };
    if let Err(e) = set_own_topics(a_store, alice, own_a).await {
        part.machinery.push(format!("set_topics: {e}"));
        return;
    }
    if let Err(e) = set_own_topics(b_store, bob, own_b).await {
        part.machinery.push(format!("set_topics: {e}"));
        return;
    }

    let a_topics: HashSet<Topic> = subset(case.a_mask).into_iter().map(topic).collect();
    let b_topics: HashSet<Topic> = subset(case.b_mask).into_iter().map(topic).collect();
    let config = Config { share_nodes_with_common_topics: case.restricted };
    let alice_protocol = PsiHashDiscoveryProtocol::<_, _, TestNodeId, TestNodeInfo>::with_config(a_store.clone(), TestSubscription { topics: a_topics.clone() }, alice, bob, config.clone());
    let bob_protocol = PsiHashDiscoveryProtocol::<_, _, TestNodeId, TestNodeInfo>::with_config(b_store.clone(), TestSubscription { topics: b_topics.clone() }, bob, alice, config);

    let log: Rc<RefCell<Vec<Sent>>> = Rc::new(RefCell::new(vec![]));
    let (a_tx, a_out) = mpsc::channel::<Msg>(16);
    let (b_tx, b_out) = mpsc::channel::<Msg>(16);
    let la = log.clone();
    let mut a_tx = a_tx.with(move |m: Msg| {
        la.borrow_mut().push(record(true, &m));
        futures_util::future::ready(Ok::<Msg, mpsc::SendError>(m))
    });
    let lb = log.clone();
    let mut b_tx = b_tx.with(move |m: Msg| {
        lb.borrow_mut().push(record(false, &m));
        futures_util::future::ready(Ok::<Msg, mpsc::SendError>(m))
    });
    let mut a_in = b_out.map(Ok::<Msg, ()>);
    let mut b_in = a_out.map(Ok::<Msg, ()>);
    let (ra, rb) = futures_util::future::join(alice_protocol.alice(&mut a_tx, &mut a_in), bob_protocol.bob(&mut b_tx, &mut b_in)).await;
    let log = log.borrow().clone();
    part.transitions += log.len() as u64;

    let inter_mask = case.a_mask & case.b_mask;
    let expected: HashSet<Topic> = subset(inter_mask).into_iter().map(topic).collect();
    let to_idx = |ts: &HashSet<Topic>| -> Vec<String> {
        let mut v: Vec<String> = ts.iter().map(|t| (0..MAX_UNIVERSE).find(|i| topic(*i) == *t).map(|i| i.to_string()).unwrap_or_else(|| "foreign".into())).collect();
        v.sort();
        v
    };

    // (1) results
    for (side, r) in [("alice", &ra), ("bob", &rb)] {
        match r {
            Ok(res) => {
                if res.topics != expected {
                    let missing = expected.difference(&res.topics).count();
                    let extra = res.topics.difference(&expected).count();
                    let class = match (missing > 0, extra > 0) {
                        (true, true) => "missing-and-extra",
                        (true, false) => "missing-common-topic",
                        _ => "extra-topic",
                    };
                    part.violation(
                        format!("topics/{side}-result/{class}"),
                        format!("{side} obtained topics {:?}, the intersection is {:?}; {desc}", to_idx(&res.topics), subset(inter_mask)),
                        replay.clone(),
                    );
                }
            }
            Err(e) => {
                part.violation(format!("protocol-error/{side}"), format!("{side} failed with '{e}'; {desc}"), replay.clone());
            }
        }
    }

    // (2) no raw topic on the wire
    let held: Vec<(usize, Topic)> = subset(case.a_mask | case.b_mask).into_iter().map(|i| (i, topic(i))).collect();
    for s in &log {
        for (i, t) in &held {
            let who = if s.from_alice { "alice" } else { "bob" };
            if contains_window(&s.cbor, t.as_bytes()) {
                part.violation(format!("raw-topic-in-message/{}/cbor", s.variant), format!("the CBOR encoding of {who}'s {} message contains the raw bytes of topic {i}; {desc}", s.variant), replay.clone());
            }
            if s.json.contains(&t.to_string()) {
                part.violation(format!("raw-topic-in-message/{}/json", s.variant), format!("the JSON encoding of {who}'s {} message contains topic {i} in hex; {desc}", s.variant), replay.clone());
            }
            if s.hashed.contains(t) {
                part.violation(format!("raw-topic-in-message/{}/hashed-set", s.variant), format!("the hashed topic set in {who}'s {} message contains raw topic {i}; {desc}", s.variant), replay.clone());
            }
        }
    }

    // (3) node sharing
    let mut sent_summary = vec![];
    for (from_alice, me, book) in [(true, alice, books.0), (false, bob, books.1)] {
        let who = if from_alice { "alice" } else { "bob" };
        let Some(ids) = log.iter().find(|s| s.from_alice == from_alice && s.variant == "Nodes").and_then(|s| s.node_ids.clone()) else {
            continue;
        };
        let mut allowed: BTreeSet<VerifyingKey> = BTreeSet::new();
        allowed.insert(me);
        for (k, mask) in book.others.iter().enumerate() {
            if mask & inter_mask != 0 {
                allowed.insert(node(2 + k as u8));
            }
        }
        let leaked: Vec<String> = ids.iter().filter(|id| !allowed.contains(id)).map(|id| (0..5u8).find(|k| node(*k) == *id).map(|k| format!("node{k}")).unwrap_or_else(|| "unknown".into())).collect();
        sent_summary.push(format!("{who}:{}/{}", ids.len(), allowed.len()));
        if case.restricted {
            if !leaked.is_empty() {
                part.violation(
                    format!("restricted-sharing/{who}-sent-node-without-common-topic"),
                    format!("with share_nodes_with_common_topics = true {who} sent the transport info of {leaked:?} although none of them shares a topic of the intersection {:?}; {desc}", subset(inter_mask)),
                    replay.clone(),
                );
            }
            if allowed.len() < 4 && ids.iter().any(|id| *id != me) {
                part.restricted_nontrivial += 1;
            }
        }
        // the receiver's result must carry exactly what was sent
        let got = if from_alice { rb.as_ref().ok() } else { ra.as_ref().ok() };
        if let Some(res) = got {
            let got_ids: Vec<VerifyingKey> = res.transport_infos.keys().cloned().collect();
            if got_ids != ids {
                part.machinery.push(format!("harness pipe altered the Nodes message of {who}; {desc}"));
            }
        }
    }

    let strict = inter_mask != 0 && inter_mask != case.a_mask && inter_mask != case.b_mask;
    if strict {
        part.nontrivial += 1;
    }
    part.outcomes.insert(format!("inter={} restricted={} sent={}", subset(inter_mask).len(), case.restricted, sent_summary.join(",")));
    part.states.insert(explorer::h64(&(case.a_mask, case.b_mask, case.book_idx, case.restricted, case.own_reg)));
    if log.iter().any(|s| s.cbor.is_empty() || s.json.is_empty()) {
        part.machinery.push(format!("a protocol message could not be serialised for the wire check; {desc}"));
    }
    let filtered = sent_summary.first().map(|s| s != "alice:1/1" && !s.ends_with("/4")).unwrap_or(false);
    if strict && case.restricted && case.own_reg && filtered && case.a_mask == 0b0111 && case.b_mask == 0b1110 {
        part.samples.push(json!({
            "alice_topics": subset(case.a_mask), "bob_topics": subset(case.b_mask), "intersection": subset(inter_mask),
            "alice_book_others": books.0.others.iter().map(|m| subset(*m)).collect::<Vec<_>>(),
            "bob_book_others": books.1.others.iter().map(|m| subset(*m)).collect::<Vec<_>>(),
            "restricted": case.restricted, "own_topics_in_book": case.own_reg,
            "nodes_sent/allowed": sent_summary,
            "messages": log.iter().map(|s| format!("{}:{}", if s.from_alice { "A" } else { "B" }, s.variant)).collect::<Vec<_>>(),
        }));
    }
}

pub fn run(mut rep: Report) -> i32 {
    clock::freeze(1_800_000_000);
    let thorough = rep.thorough();
    // topic-set menu for the three further nodes of an address book (masks over the universe)
    let universe: usize = if thorough { 5 } else { 4 };
    let menu: Vec<usize> = if thorough { vec![0b00000, 0b00001, 0b00011, 0b01100, 0b10000] } else { vec![0b0001, 0b1100] };
    let m = menu.len();
    let mut books: Vec<(Book, Book)> = vec![];
    for code in 0..m.pow(3) {
        let (x, y, z) = (menu[code % m], menu[(code / m) % m], menu[code / (m * m)]);
        // bob's book: the same multiset, assigned to the nodes in reverse order
        books.push((Book { others: [x, y, z] }, Book { others: [z, y, x] }));
    }
    rep.rule = format!(
        "every pair of subsets of a {universe}-topic universe ({} pairs) x {} address-book pairs (3 further nodes, topic sets from menu {:?}) x own topics registered in the own book (no/yes) x share_nodes_with_common_topics (off/on); non-trivial = intersection non-empty and a proper subset of both sides' sets",
        (1usize << universe) * (1usize << universe), books.len(), menu.iter().map(|m| subset(*m)).collect::<Vec<_>>()
    );

    let next = AtomicUsize::new(0);
    let parts: Mutex<Vec<Part>> = Mutex::new(vec![]);
    let threads = rep.args.threads.max(1).min(books.len());
    std::thread::scope(|s| {
        for _ in 0..threads {
            s.spawn(|| {
                let rt = tokio::runtime::Builder::new_current_thread().enable_time().build().expect("runtime");
                let mut part = Part::default();
                loop {
                    let b = next.fetch_add(1, Ordering::SeqCst);
                    if b >= books.len() {
                        break;
                    }
                    let (ab, bb) = &books[b];
                    rt.block_on(async {
                        let (a_store, b_store) = match (make_store(node(0), ab).await, make_store(node(1), bb).await) {
                            (Ok(a), Ok(b)) => (a, b),
                            (Err(e), _) | (_, Err(e)) => {
                                part.machinery.push(format!("address book setup: {e}"));
                                return;
                            }
                        };
                        for a_mask in 0..(1usize << universe) {
                            for b_mask in 0..(1usize << universe) {
                                for own_reg in [false, true] {
                                    for restricted in [false, true] {
                                        let case = Case { book_idx: b, a_mask, b_mask, own_reg, restricted };
                                        run_case(&mut part, &case, (ab, bb), (&a_store, &b_store)).await;
                                    }
                                }
                            }
                        }
                    });
                }
                parts.lock().unwrap().push(part);
            });
        }
    });
    clock::release();

    let mut nontrivial = 0;
    let mut restricted_nt = 0;
    let mut samples = vec![];
    let mut all_viol: BTreeMap<String, (String, serde_json::Value, u64)> = BTreeMap::new();
    for part in parts.into_inner().unwrap() {
        rep.evals(part.evals);
        rep.transitions += part.transitions;
        nontrivial += part.nontrivial;
        restricted_nt += part.restricted_nontrivial;
        for o in &part.outcomes {
            rep.outcome(o);
        }
        for s in &part.states {
            rep.state(s);
        }
        samples.extend(part.samples);
        for m in part.machinery.into_iter().take(3) {
            rep.machinery_error(m);
        }
        for (k, (what, replay, n)) in part.violations {
            let e = all_viol.entry(k).or_insert((what.clone(), replay.clone(), 0));
            e.2 += n;
            if what < e.0 {
                e.0 = what;
                e.1 = replay;
            }
        }
    }
    rep.nontrivial_count(nontrivial);
    rep.set("restricted_cases_where_a_filter_applied_and_a_foreign_node_was_sent", json!(restricted_nt));
    samples.sort_by_key(|v| v.to_string());
    for s in samples.into_iter().take(4) {
        rep.sample(s);
    }
    rep.assume("the two 32-byte salt halves come from the thread RNG inside the protocol and cannot be owned; they only enter the BLAKE3 hashes, and no part of the oracle depends on their values (an accidental 32-byte collision with a topic has probability 2^-256 per window)");
    rep.assume("the protocol is a strict ping-pong, so with any pipe capacity >= 1 there is exactly one interleaving of the two sides; the pipes are futures mpsc channels of capacity 16 with a recording stage");
    rep.assume("wire encodings checked: CBOR (p2panda_core::cbor, non-human-readable serde path; p2panda-net's postcard codec writes the same raw byte strings) and JSON (human-readable path, topics in hex); postcard itself is not part of the harness lock file");
    rep.assume("address book = the real SqliteStore (in memory); all further nodes are non-stale and have transport info; wall clock frozen (TestTransportInfo timestamps)");
    for (k, (what, replay, n)) in all_viol {
        rep.violation(k, format!("{what} [{n} cases]"), replay);
    }
    rep.finish()
}
