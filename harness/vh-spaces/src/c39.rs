//! C39 Spaces message processing is idempotent and total.
//!
//! E-DFS on the real `p2panda_spaces::manager::Manager` with the crate's own test store / forge
//! (`TestPeer`: in-memory SQLite + `TestForge`), wall clock frozen through seam S3.
//!
//! One DFS execution = one *scenario*: a choice vector over the number of peers, the key-bundle
//! bootstrap mode (registered out of band | published as messages), the `create_space` variant and
//! `depth` further actions from {add, remove, publish application message, publish key bundle}; only
//! actions the harness' membership model allows are offered (generation is pure, the real API is
//! only executed afterwards).  Every message is delivered to every other peer right after it was
//! forged (causal order, linear history).
//!
//! DFS re-executes shared prefixes, so every prefix is *owned* by exactly one scenario (the one
//! whose later choices are all 0) and the expensive probes are done by the owner only:
//!   * totality run: after every owned action every receiver is handed the whole adversarial menu
//!     through the real, non-persisting `Manager::process`, each call under `catch_unwind`;
//!   * baseline run (no duplicates);
//!   * one duplicate run per message position j produced by an owned action: after message j has
//!     reached everybody, every peer (authors included) re-processes every message i <= j once, in
//!     order, then the scenario continues.  Over all scenarios this covers every (peer, i, j >= i)
//!     and nobody processes a message more than twice in a run.
//! Idempotency oracle per duplicate: no panic, no events, and the complete persisted state of the
//! manager (global auth state, space state, read back from the store and canonicalised) as well as
//! `members()` unchanged.  The manager keeps no other mutable state than its store and an RNG that
//! `process` never touches, so "unchanged now" carries over to the rest of the run; in addition the
//! classes of all later first deliveries and the final member lists are compared with the baseline
//! for peers none of whose duplicates fired.
use std::borrow::Borrow;
use std::cell::RefCell;
use std::collections::{BTreeMap, BTreeSet};
use std::future::Future;
use std::time::Duration;

use ciborium::Value as Cbor;
use explorer::{dfs_par, json, Chooser, DfsCfg, Report};
use futures_util::FutureExt;
use p2panda_auth::group::{GroupAction, GroupCrdtState, GroupMember};
use p2panda_auth::Access;
use p2panda_core::cbor::encode_cbor;
use p2panda_core::{Hash, Header, SigningKey, VerifyingKey};
use p2panda_encryption::crypto::x25519::SecretKey;
use p2panda_encryption::key_bundle::{Lifetime, LongTermKeyBundle, PreKey};
use p2panda_encryption::Rng;
use p2panda_spaces::test_utils::{TestOperation, TestPeer, TestSpacesStore};
use p2panda_spaces::{AuthMessage, SpacesArgs, SpacesMessage};
use p2panda_store::groups::GroupsStore;
use p2panda_store::key_registry::KeyRegistryStore;
use p2panda_store::spaces::SpacesStore;
use p2panda_store::Transaction;
use serde::Serialize;

use crate::clock;

const FROZEN_NOW: u64 = 1_800_000_000;
const GLOBAL_GROUPS_CONTEXT_ID: &[u8] = b"global-groups-context";

// ------------------------------------------------------------------------------------------------
// panic probe: location + message of the last panic on this thread
// ------------------------------------------------------------------------------------------------

thread_local! {
    static LAST_PANIC: RefCell<Option<(String, u32)>> = const { RefCell::new(None) };
}

pub fn install_panic_probe() {
    std::panic::set_hook(Box::new(|info| {
        let loc = info.location().map(|l| (l.file().to_string(), l.line()));
        let _ = LAST_PANIC.try_with(|c| {
            if let Ok(mut g) = c.try_borrow_mut() {
                *g = loc;
            }
        });
    }));
}

#[derive(Clone, Debug, PartialEq, Eq, Hash, PartialOrd, Ord)]
pub struct PanicInfo {
    /// First line of the panic message.
    msg: String,
    /// Source file relative to the repository root.
    file: String,
    line: u32,
}

impl PanicInfo {
    fn site(&self) -> String {
        format!("{}:{}", self.file, self.msg)
    }
}

/// Canonical class of a panic: one key per defect site (independent of which message variant or
/// which history reached it).  Unknown sites keep file and message.
fn panic_class(p: &PanicInfo) -> String {
    let f = p.file.as_str();
    let m = p.msg.as_str();
    let class = if f.ends_with("p2panda-spaces/src/manager.rs") && m == "not implemented" {
        "space-update-unimplemented"
    } else if (f.ends_with("p2panda-spaces/src/event.rs") || f.ends_with("p2panda-spaces/src/encryption/message.rs") || f.ends_with("p2panda-spaces/src/space.rs")) && m == "not implemented" {
        "promote-demote-unimplemented"
    } else if f.ends_with("p2panda-auth/src/group/crdt/mod.rs") && m == "group already present in states map" {
        "auth-action-on-unknown-group"
    } else if f.ends_with("p2panda-auth/src/group/resolver.rs") && (m == "all operations present in map" || m == "all processed operations exist" || m == "all state objects to exist") {
        "auth-dependency-not-in-graph"
    } else if f.ends_with("p2panda-encryption/src/key_registry.rs") && m.starts_with("assertion") {
        "key-bundle-identity-key-changed"
    } else {
        return format!("panic/other/{}", p.site());
    };
    format!("panic/{class}")
}

fn kind_slug(kind: &str) -> &'static str {
    match base_kind(kind).as_str() {
        "KeyBundle" => "key-bundle",
        "Auth" => "auth",
        "SpaceMembership" => "space-membership",
        "SpaceUpdate" => "space-update",
        "Application" => "application",
        _ => "other",
    }
}

fn repo_relative(file: &str) -> String {
    // path of the source file inside the repository, wherever the repository is checked out
    match file.find("/p2panda") {
        Some(p) => file[p + 1..].to_string(),
        None => file.to_string(),
    }
}

async fn guarded<T>(f: impl Future<Output = T>) -> Result<T, PanicInfo> {
    LAST_PANIC.with(|c| *c.borrow_mut() = None);
    match std::panic::AssertUnwindSafe(f).catch_unwind().await {
        Ok(v) => Ok(v),
        Err(e) => {
            let msg = if let Some(s) = e.downcast_ref::<&str>() {
                s.to_string()
            } else if let Some(s) = e.downcast_ref::<String>() {
                s.clone()
            } else {
                "panic (non-string payload)".to_string()
            };
            let msg = msg.lines().next().unwrap_or("").trim().to_string();
            let (file, line) = LAST_PANIC.with(|c| c.borrow_mut().take()).unwrap_or_default();
            Err(PanicInfo { msg, file: repo_relative(&file), line })
        }
    }
}

// ------------------------------------------------------------------------------------------------
// canonical CBOR (independent of HashMap / HashSet iteration order)
// ------------------------------------------------------------------------------------------------

/// Canonical byte string of a CBOR tree: map entries *and array elements* are sorted by their
/// canonical form.  The persisted states contain `HashMap`s and `HashSet`s (serialised as maps /
/// arrays in `RandomState` order), so two equal states may differ in raw bytes; after this
/// normalisation equal states are always equal (no false alarm).  The price: a change that only
/// permutes a `Vec` is not seen.
fn canon(v: &Cbor, out: &mut Vec<u8>) {
    fn wrap(tag: u8, parts: Vec<Vec<u8>>, out: &mut Vec<u8>) {
        out.push(tag);
        out.extend((parts.len() as u32).to_be_bytes());
        for p in parts {
            out.extend((p.len() as u32).to_be_bytes());
            out.extend(p);
        }
    }
    match v {
        Cbor::Array(xs) => {
            let mut parts: Vec<Vec<u8>> = xs
                .iter()
                .map(|x| {
                    let mut b = vec![];
                    canon(x, &mut b);
                    b
                })
                .collect();
            parts.sort();
            wrap(b'[', parts, out);
        }
        Cbor::Map(kvs) => {
            let mut parts: Vec<Vec<u8>> = kvs
                .iter()
                .map(|(k, x)| {
                    let mut b = vec![];
                    canon(k, &mut b);
                    canon(x, &mut b);
                    b
                })
                .collect();
            parts.sort();
            wrap(b'{', parts, out);
        }
        Cbor::Tag(t, x) => {
            out.push(b't');
            out.extend(t.to_be_bytes());
            canon(x, out);
        }
        other => {
            let mut b = vec![];
            let _ = ciborium::into_writer(other, &mut b);
            out.push(b'v');
            out.extend((b.len() as u32).to_be_bytes());
            out.extend(b);
        }
    }
}

fn canon_bytes(v: &Cbor) -> Vec<u8> {
    let mut b = vec![];
    canon(v, &mut b);
    b
}

/// Split a CBOR struct (map with text keys) into canonical bytes per field, descending into the
/// fields named in `descend`.
fn fields(prefix: &str, v: &Cbor, descend: &[&str], out: &mut BTreeMap<String, Vec<u8>>) {
    if let Cbor::Map(kvs) = v {
        for (k, x) in kvs {
            let name = match k {
                Cbor::Text(s) => s.clone(),
                other => format!("{other:?}"),
            };
            let full = if prefix.is_empty() { name.clone() } else { format!("{prefix}.{name}") };
            if descend.contains(&name.as_str()) {
                fields(&full, x, descend, out);
            } else {
                out.insert(full, canon_bytes(x));
            }
        }
    } else {
        out.insert(prefix.to_string(), canon_bytes(v));
    }
}

fn to_cbor<T: Serialize>(t: &T) -> Cbor {
    match encode_cbor(t) {
        Ok(bytes) => ciborium::from_reader(&bytes[..]).unwrap_or(Cbor::Null),
        Err(_) => Cbor::Null,
    }
}

// ------------------------------------------------------------------------------------------------
// scenario alphabet
// ------------------------------------------------------------------------------------------------

#[derive(Clone, Copy, Debug, PartialEq, Eq, Hash, PartialOrd, Ord, Serialize)]
pub enum Acc {
    Pull,
    Write,
    Manage,
}

impl Acc {
    fn access(self) -> Access<()> {
        match self {
            Acc::Pull => Access::pull(),
            Acc::Write => Access::write(),
            Acc::Manage => Access::manage(),
        }
    }
}

#[derive(Clone, Debug, PartialEq, Eq, Hash, PartialOrd, Ord, Serialize)]
pub enum Act {
    /// peer publishes its key bundle message
    Kb(usize),
    /// a freshly rotated key bundle of the peer (own identity key, new pre-key, later expiry than
    /// every bundle before) arrives as a key-bundle message signed by the peer; the frozen clock
    /// never lets `key_bundle_message()` rotate, so the harness builds the bundle with the peer's
    /// credentials exactly as the identity manager would
    KbFresh(usize),
    /// peer 0 creates the space with these further initial members
    Create(Vec<(usize, Acc)>),
    Add(usize, usize, Acc),
    Remove(usize, usize),
    /// peer publishes an encrypted application message
    App(usize),
}

const NAMES: [&str; 4] = ["A", "B", "C", "D"];

impl Act {
    fn show(&self) -> String {
        match self {
            Act::Kb(p) => format!("{}.key_bundle_message()", NAMES[*p]),
            Act::KbFresh(p) => format!("{}.key_bundle_message(rotated)", NAMES[*p]),
            Act::Create(ms) => format!(
                "A.create_space([{}])",
                ms.iter().map(|(p, a)| format!("{}:{:?}", NAMES[*p], a)).collect::<Vec<_>>().join(",")
            ),
            Act::Add(x, y, a) => format!("{}.add({},{:?})", NAMES[*x], NAMES[*y], a),
            Act::Remove(x, y) => format!("{}.remove({})", NAMES[*x], NAMES[*y]),
            Act::App(x) => format!("{}.publish()", NAMES[*x]),
        }
    }
}

fn show_acts(acts: &[Act]) -> String {
    acts.iter().map(|a| a.show()).collect::<Vec<_>>().join("; ")
}

/// The harness' membership model: only used to offer actions the real API will accept.
#[derive(Clone, Default)]
struct Model {
    created: bool,
    members: BTreeMap<usize, Acc>,
}

impl Model {
    fn options(&self, peers: usize, accs: &[Acc], kb_actors: &[usize], kb_only: bool) -> Vec<Act> {
        let mut v = vec![];
        if !self.created {
            return v;
        }
        if kb_only {
            for &x in kb_actors {
                if x < peers {
                    v.push(Act::KbFresh(x));
                }
            }
            return v;
        }
        let managers: Vec<usize> = self.members.iter().filter(|(_, a)| **a == Acc::Manage).map(|(p, _)| *p).collect();
        for &x in &managers {
            for y in 0..peers {
                if !self.members.contains_key(&y) {
                    for &a in accs {
                        v.push(Act::Add(x, y, a));
                    }
                }
            }
        }
        for &x in &managers {
            for (&y, _) in &self.members {
                if y != x {
                    v.push(Act::Remove(x, y));
                }
            }
        }
        for (&x, &a) in &self.members {
            if a != Acc::Pull {
                v.push(Act::App(x));
            }
        }
        for &x in kb_actors {
            if x < peers {
                v.push(Act::Kb(x));
            }
        }
        v
    }
    fn apply(&mut self, act: &Act) {
        match act {
            Act::Create(ms) => {
                self.created = true;
                self.members.insert(0, Acc::Manage);
                for (p, a) in ms {
                    self.members.insert(*p, *a);
                }
            }
            Act::Add(_, y, a) => {
                self.members.insert(*y, *a);
            }
            Act::Remove(_, y) => {
                self.members.remove(y);
            }
            _ => {}
        }
    }
}

fn create_variants(peers: usize, accs: &[Acc]) -> Vec<Vec<(usize, Acc)>> {
    // every assignment "not a member | one of accs" to the peers 1..peers
    let mut out: Vec<Vec<(usize, Acc)>> = vec![vec![]];
    for p in 1..peers {
        let mut next = vec![];
        for base in &out {
            next.push(base.clone());
            for &a in accs {
                let mut b = base.clone();
                b.push((p, a));
                next.push(b);
            }
        }
        out = next;
    }
    out
}

// ------------------------------------------------------------------------------------------------
// observations
// ------------------------------------------------------------------------------------------------

#[derive(Clone, Debug, PartialEq, Eq, Hash, PartialOrd, Ord)]
pub enum Proc {
    /// `Ok(events)`: event kinds and the full canonical JSON of the events
    Events(Vec<String>, String),
    Error(String),
    Panic(PanicInfo),
}

impl Proc {
    fn class(&self) -> String {
        match self {
            Proc::Events(k, _) if k.is_empty() => "ok/no-events".into(),
            Proc::Events(k, _) => format!("ok/{}", k.join("+")),
            Proc::Error(e) => format!("err/{}", strip_ids(e).chars().take(70).collect::<String>()),
            Proc::Panic(p) => format!("panic/{}", p.site()),
        }
    }
}

/// Replace hex ids and Debug byte lists (`[12, 200, 7, ...]`) by `#` so that classes do not depend on
/// concrete ids.
fn strip_ids(s: &str) -> String {
    // 1. byte lists: a run of digits, commas and blanks of length >= 12
    let mut t = String::new();
    let mut run = String::new();
    for c in s.chars() {
        if c.is_ascii_digit() || c == ',' || c == ' ' {
            run.push(c);
        } else {
            if run.len() >= 12 && run.contains(',') {
                t.push('#');
            } else {
                t.push_str(&run);
            }
            run.clear();
            t.push(c);
        }
    }
    if run.len() >= 12 && run.contains(',') {
        t.push('#');
    } else {
        t.push_str(&run);
    }
    // 2. hex words of length >= 8
    let mut out = String::new();
    let mut word = String::new();
    let flush = |word: &mut String, out: &mut String| {
        if word.len() >= 8 && word.chars().all(|c| c.is_ascii_hexdigit()) {
            out.push('#');
        } else {
            out.push_str(word);
        }
        word.clear();
    };
    for c in t.chars() {
        if c.is_ascii_alphanumeric() {
            word.push(c);
        } else {
            flush(&mut word, &mut out);
            out.push(c);
        }
    }
    flush(&mut word, &mut out);
    out
}

fn event_kind(v: &serde_json::Value) -> String {
    // externally tagged enums: {"Space": {"Created": {...}}}
    let mut parts = vec![];
    let mut cur = v;
    for _ in 0..2 {
        if let Some(obj) = cur.as_object() {
            if obj.len() == 1 {
                let (k, x) = obj.iter().next().unwrap();
                parts.push(k.clone());
                cur = x;
                continue;
            }
        }
        break;
    }
    parts.join(".")
}

fn summarise<E: Serialize, X: std::fmt::Display>(r: Result<Result<Vec<E>, X>, PanicInfo>) -> Proc {
    match r {
        Ok(Ok(events)) => {
            let vals: Vec<serde_json::Value> = events.iter().map(|e| serde_json::to_value(e).unwrap_or(serde_json::Value::Null)).collect();
            let kinds = vals.iter().map(event_kind).collect();
            Proc::Events(kinds, serde_json::to_string(&vals).unwrap_or_default())
        }
        Ok(Err(e)) => Proc::Error(e.to_string()),
        Err(p) => Proc::Panic(p),
    }
}

#[derive(Clone, Debug, PartialEq, Eq, Default)]
struct Snap {
    /// canonical bytes per field of the global auth ("groups") state read back from the store
    groups: BTreeMap<String, Vec<u8>>,
    /// canonical bytes per field of the persisted `SpacesStoreState` of the scenario's space
    space: BTreeMap<String, Vec<u8>>,
    /// `Space::members()` / `Group::members()` through the public API
    members: String,
    /// key registry (identity state; reported, but not part of "group or space state")
    registry: Vec<u8>,
}

fn diff_fields(a: &BTreeMap<String, Vec<u8>>, b: &BTreeMap<String, Vec<u8>>) -> Vec<String> {
    let keys: BTreeSet<&String> = a.keys().chain(b.keys()).collect();
    keys.into_iter().filter(|k| a.get(*k) != b.get(*k)).cloned().collect()
}

#[derive(Clone, Debug)]
struct MsgInfo {
    hash: Hash,
    author: usize,
    kind: String,
    act: usize,
}

#[derive(Clone, Debug)]
struct DupObs {
    peer: usize,
    i: usize,
    j: usize,
    own: bool,
    res: Proc,
    groups_changed: Vec<String>,
    space_changed: Vec<String>,
    members_changed: bool,
    registry_changed: bool,
}

#[derive(Clone, Debug)]
struct AdvObs {
    prefix_len: usize,
    receiver: usize,
    label: String,
    variant: &'static str,
    res: Proc,
}

#[derive(Default)]
struct RunOut {
    acts: Vec<Act>,
    msgs: Vec<MsgInfo>,
    /// first[i][p]: result of p's first processing of message i (None for the author)
    first: Vec<Vec<Option<Proc>>>,
    dups: Vec<DupObs>,
    adv: Vec<AdvObs>,
    finals: Vec<Snap>,
    #[allow(dead_code)]
    ops: Vec<TestOperation>,
    /// the real API refused an action the model allowed (scenario cut there; not a C39 matter)
    refused: Option<String>,
    machinery: Option<String>,
}

// ------------------------------------------------------------------------------------------------
// world
// ------------------------------------------------------------------------------------------------

fn msg_kind(op: &TestOperation) -> String {
    match Borrow::<SpacesArgs<()>>::borrow(op) {
        SpacesArgs::KeyBundle { .. } => "KeyBundle".into(),
        SpacesArgs::Auth { group_action, .. } => format!("Auth:{}", action_name(group_action)),
        SpacesArgs::SpaceMembership { direct_messages, .. } => {
            if direct_messages.is_empty() { "SpaceMembership".into() } else { "SpaceMembership+dm".into() }
        }
        SpacesArgs::SpaceUpdate { .. } => "SpaceUpdate".into(),
        SpacesArgs::Application { .. } => "Application".into(),
    }
}

fn variant_name(args: &SpacesArgs<()>) -> &'static str {
    match args {
        SpacesArgs::KeyBundle { .. } => "KeyBundle",
        SpacesArgs::Auth { .. } => "Auth",
        SpacesArgs::SpaceMembership { .. } => "SpaceMembership",
        SpacesArgs::SpaceUpdate { .. } => "SpaceUpdate",
        SpacesArgs::Application { .. } => "Application",
    }
}

fn action_name(a: &GroupAction<VerifyingKey, ()>) -> &'static str {
    match a {
        GroupAction::Create { .. } => "Create",
        GroupAction::Add { .. } => "Add",
        GroupAction::Remove { .. } => "Remove",
        GroupAction::Promote { .. } => "Promote",
        GroupAction::Demote { .. } => "Demote",
    }
}

struct World {
    peers: Vec<TestPeer>,
    space_id: Hash,
    ops: Vec<TestOperation>,
}

impl World {
    async fn new(n: usize) -> World {
        let mut peers = vec![];
        for i in 0..n {
            peers.push(TestPeer::new(i as u8).await);
        }
        World { peers, space_id: Hash::digest(b"0"), ops: vec![] }
    }

    async fn snapshot(&self, p: usize) -> Result<Snap, String> {
        let peer = &self.peers[p];
        let ss = TestSpacesStore::new(peer.store.clone());
        let permit = ss.begin().await.map_err(|e| e.to_string())?;
        let g: Option<GroupCrdtState<VerifyingKey, Hash, AuthMessage<()>, ()>> =
            GroupsStore::<AuthMessage<()>, ()>::get_groups_state_tx(&ss, Hash::digest(GLOBAL_GROUPS_CONTEXT_ID))
                .await
                .map_err(|e| e.to_string())?;
        let s: Option<Cbor> = SpacesStore::<Cbor>::get_space_state_tx(&ss, &self.space_id).await.map_err(|e| e.to_string())?;
        ss.commit(permit).await.map_err(|e| e.to_string())?;
        let reg = KeyRegistryStore::get_key_registry(&ss).await.map_err(|e| e.to_string())?;

        let mut snap = Snap::default();
        match &g {
            Some(g) => fields("", &to_cbor(g), &["inner"], &mut snap.groups),
            None => {
                snap.groups.insert("<absent>".into(), vec![]);
            }
        }
        match &s {
            Some(s) => fields("", s, &["groups_y", "inner"], &mut snap.space),
            None => {
                snap.space.insert("<absent>".into(), vec![]);
            }
        }
        snap.registry = match &reg {
            Some(r) => canon_bytes(&to_cbor(r)),
            None => vec![],
        };
        // public API view
        let mut members = String::new();
        match peer.manager.space(self.space_id).await {
            Ok(Some(space)) => {
                match space.members().await {
                    Ok(ms) => members.push_str(&format!("space:{:?}", ms.iter().map(|(id, a)| (id.to_hex()[..6].to_string(), a.to_string())).collect::<Vec<_>>())),
                    Err(e) => members.push_str(&format!("space:err:{e}")),
                }
                if let Ok(gid) = space.group_id().await {
                    match peer.manager.group(gid).await {
                        Ok(Some(group)) => match group.members().await {
                            Ok(ms) => members.push_str(&format!(" group:{:?}", ms.iter().map(|(id, a)| (id.to_hex()[..6].to_string(), a.to_string())).collect::<Vec<_>>())),
                            Err(e) => members.push_str(&format!(" group:err:{e}")),
                        },
                        Ok(None) => members.push_str(" group:none"),
                        Err(e) => members.push_str(&format!(" group:err:{e}")),
                    }
                }
            }
            Ok(None) => members.push_str("space:none"),
            Err(e) => members.push_str(&format!("space:err:{e}")),
        }
        snap.members = members;
        Ok(snap)
    }

    /// Execute one action on its author (persisting API of the crate's test utilities).
    async fn perform(&self, act: &Act) -> Result<Vec<TestOperation>, String> {
        match act {
            Act::Kb(p) => {
                let m = self.peers[*p].manager.key_bundle_message().await.map_err(|e| e.to_string())?;
                Ok(vec![m])
            }
            Act::KbFresh(p) => {
                let serial = self.ops.len() as u64;
                let mut seed = [0x4Bu8; 32];
                seed[0] = *p as u8;
                seed[1..9].copy_from_slice(&serial.to_le_bytes());
                let rng = Rng::from_seed(seed);
                let identity = self.peers[*p].credentials.identity_secret();
                let prekey_secret = SecretKey::from_rng(&rng).map_err(|e| e.to_string())?;
                // every rotation lives a day longer than the one before
                let prekey = PreKey::new(prekey_secret.verifying_key().map_err(|e| e.to_string())?, Lifetime::new(30 * 86400 + serial * 86400));
                let signature = prekey.sign(&identity, &rng).map_err(|e| e.to_string())?;
                let key_bundle = LongTermKeyBundle::new(identity.verifying_key().map_err(|e| e.to_string())?, prekey, signature);
                let key = self.peers[*p].credentials.signing_key();
                let mut header = Header {
                    version: 1,
                    verifying_key: key.verifying_key(),
                    signature: None,
                    payload_size: 0,
                    payload_hash: None,
                    seq_num: 0,
                    backlink: None,
                    extensions: SpacesArgs::KeyBundle { key_bundle },
                };
                header.sign(&key);
                let hash = header.hash();
                Ok(vec![TestOperation { hash, header, body: None }])
            }
            Act::Create(ms) => {
                let members: Vec<(VerifyingKey, Access<()>)> = ms.iter().map(|(p, a)| (self.peers[*p].manager.id(), a.access())).collect();
                let (_space, msgs) = self.peers[0].manager.create_space_persisted(self.space_id, &members).await.map_err(|e| e.to_string())?;
                Ok(msgs)
            }
            Act::Add(x, y, a) => {
                let space = self.peers[*x].manager.space(self.space_id).await.map_err(|e| e.to_string())?.ok_or("space unknown to the actor")?;
                let (m1, m2) = space.add_persisted(self.peers[*y].manager.id(), a.access()).await.map_err(|e| e.to_string())?;
                Ok(vec![m1, m2])
            }
            Act::Remove(x, y) => {
                let space = self.peers[*x].manager.space(self.space_id).await.map_err(|e| e.to_string())?.ok_or("space unknown to the actor")?;
                let (m1, m2) = space.remove_persisted(self.peers[*y].manager.id()).await.map_err(|e| e.to_string())?;
                Ok(vec![m1, m2])
            }
            Act::App(x) => {
                let space = self.peers[*x].manager.space(self.space_id).await.map_err(|e| e.to_string())?.ok_or("space unknown to the actor")?;
                let m = space.publish_persisted(b"hello").await.map_err(|e| e.to_string())?;
                Ok(vec![m])
            }
        }
    }
}

struct RunCfg<'a> {
    peers: usize,
    /// key bundles registered out of band before the first action (else the action list starts
    /// with one `Kb` action per peer)
    oob: bool,
    acts: &'a [Act],
    /// Some(j): right after message j reached everybody, every peer re-processes messages 0..=j
    dup_at: Option<usize>,
    /// probe with the adversarial menu after every action with index >= .1
    totality: Option<(&'a Menu, usize)>,
}

async fn run_once(cfg: RunCfg<'_>) -> RunOut {
    let mut out = RunOut::default();
    let mut w = World::new(cfg.peers).await;
    let n = cfg.peers;
    // adversary material lives outside the peers
    let mut adv = match cfg.totality {
        Some((menu, _)) => Some(Adversary::new(menu).await),
        None => None,
    };

    if cfg.oob {
        for p in 0..n {
            for q in 0..n {
                if p != q {
                    let me = match w.peers[q].manager.me().await {
                        Ok(m) => m,
                        Err(e) => {
                            out.machinery = Some(format!("me(): {e}"));
                            return out;
                        }
                    };
                    if let Err(e) = w.peers[p].manager.register_member(&me).await {
                        out.machinery = Some(format!("register_member: {e}"));
                        return out;
                    }
                }
            }
        }
    }

    for (act_idx, act) in cfg.acts.iter().enumerate() {
        let author = match act {
            Act::Kb(p) | Act::KbFresh(p) | Act::App(p) => *p,
            Act::Create(_) => 0,
            Act::Add(x, _, _) | Act::Remove(x, _) => *x,
        };
        let produced = match guarded(w.perform(act)).await {
            Ok(Ok(ms)) => ms,
            Ok(Err(e)) => {
                out.refused = Some(format!("{} refused: {}", act.show(), strip_ids(&e)));
                break;
            }
            Err(p) => {
                out.refused = Some(format!("{} panicked locally: {} ({}:{})", act.show(), p.msg, p.file, p.line));
                break;
            }
        };
        out.acts.push(act.clone());

        for op in produced {
            let idx = w.ops.len();
            out.msgs.push(MsgInfo { hash: op.hash, author, kind: msg_kind(&op), act: act_idx });
            w.ops.push(op.clone());
            let mut row = vec![None; n];
            for p in 0..n {
                // a rotated bundle was not produced through the author's own manager (as if rotated
                // on another device of the same identity): the author learns it like everybody else
                if p == author && !matches!(act, Act::KbFresh(_)) {
                    continue;
                }
                if let Err(e) = w.peers[p].persist_operation(&op).await {
                    out.machinery = Some(format!("persist_operation: {e}"));
                    return out;
                }
                let r = guarded(w.peers[p].manager.process_persisted(&op)).await;
                row[p] = Some(summarise(r));
            }
            out.first.push(row);

            if cfg.dup_at == Some(idx) {
                for i in 0..=idx {
                    for p in 0..n {
                        let before = match w.snapshot(p).await {
                            Ok(s) => s,
                            Err(e) => {
                                out.machinery = Some(format!("snapshot: {e}"));
                                return out;
                            }
                        };
                        let dup_op = w.ops[i].clone();
                        let r = guarded(w.peers[p].manager.process_persisted(&dup_op)).await;
                        let res = summarise(r);
                        let after = match w.snapshot(p).await {
                            Ok(s) => s,
                            Err(e) => {
                                out.machinery = Some(format!("snapshot: {e}"));
                                return out;
                            }
                        };
                        out.dups.push(DupObs {
                            peer: p,
                            i,
                            j: idx,
                            own: out.msgs[i].author == p,
                            res,
                            groups_changed: diff_fields(&before.groups, &after.groups),
                            space_changed: diff_fields(&before.space, &after.space),
                            members_changed: before.members != after.members,
                            registry_changed: before.registry != after.registry,
                        });
                    }
                }
            }
        }

        // totality probe at this prefix state
        if let (Some(adv), Some((_, from))) = (adv.as_mut(), cfg.totality) {
            if act_idx >= from {
                if let Err(e) = adv.probe(&w, &out.msgs, act_idx + 1 == cfg.acts.len(), &mut out.adv).await {
                    out.machinery = Some(e);
                    return out;
                }
            }
        }
    }

    out.ops = w.ops.clone();
    for p in 0..n {
        match w.snapshot(p).await {
            Ok(s) => out.finals.push(s),
            Err(e) => {
                out.machinery = Some(format!("snapshot: {e}"));
                return out;
            }
        }
    }
    out
}

// ------------------------------------------------------------------------------------------------
// totality: the adversarial menu
// ------------------------------------------------------------------------------------------------

pub struct Menu {
    /// also sign adversarial messages with the keys of real peers (a misbehaving member)
    member_authors: usize,
    /// larger value menus
    wide: bool,
}

struct Adversary<'a> {
    menu: &'a Menu,
    eve_key: SigningKey,
    eve_secret: SecretKey,
    rng: Rng,
    unknown_group: VerifyingKey,
    unknown_hash: Hash,
}

impl<'a> Adversary<'a> {
    async fn new(menu: &'a Menu) -> Adversary<'a> {
        let rng = Rng::from_seed([0xEE; 32]);
        let eve_key = SigningKey::from_bytes(&[0xE1; 32]);
        let eve_secret = SecretKey::from_rng(&rng).expect("rng");
        Adversary {
            menu,
            eve_key,
            eve_secret,
            rng,
            unknown_group: SigningKey::from_bytes(&[0x77; 32]).verifying_key(),
            unknown_hash: Hash::digest(b"nobody has ever seen this operation"),
        }
    }

    /// A correctly signed operation carrying `args`, exactly what `TestForge::forge` produces
    /// (version 1, no body) except that it is not appended to the signer's real log: it is the first
    /// entry (seq 0, no backlink) of a log of its own; the manager looks at neither field.
    async fn forge(&self, key: &SigningKey, args: SpacesArgs<()>) -> Result<TestOperation, String> {
        let mut header = Header {
            version: 1,
            verifying_key: key.verifying_key(),
            signature: None,
            payload_size: 0,
            payload_hash: None,
            seq_num: 0,
            backlink: None,
            extensions: args,
        };
        header.sign(key);
        let hash = header.hash();
        Ok(TestOperation { hash, header, body: None })
    }

    fn bundle(&self, identity: &SecretKey, prekey_signer: &SecretKey, lifetime: Lifetime) -> Option<LongTermKeyBundle> {
        let prekey_secret = SecretKey::from_rng(&self.rng).ok()?;
        let prekey = PreKey::new(prekey_secret.verifying_key().ok()?, lifetime);
        let signature = prekey.sign(prekey_signer, &self.rng).ok()?;
        Some(LongTermKeyBundle::new(identity.verifying_key().ok()?, prekey, signature))
    }

    /// Hand the whole menu to every receiver at the current state.
    async fn probe(&mut self, w: &World, msgs: &[MsgInfo], last: bool, out: &mut Vec<AdvObs>) -> Result<(), String> {
        let n = w.peers.len();
        let prefix_len = msgs.len();
        let space_id = w.space_id;
        let unknown_space = Hash::digest(b"unknown-space");

        // ---- context harvested from the real history ------------------------------------------
        let mut group_id: Option<VerifyingKey> = None;
        let mut auth_ids: Vec<Hash> = vec![];
        let mut space_ids: Vec<Hash> = vec![];
        let mut app: Option<(p2panda_encryption::data_scheme::GroupSecretId, p2panda_encryption::crypto::xchacha20::XAeadNonce, Vec<u8>)> = None;
        let mut real_dms = None;
        let mut kb_id: Option<Hash> = None;
        for (i, op) in w.ops.iter().enumerate() {
            match Borrow::<SpacesArgs<()>>::borrow(op) {
                SpacesArgs::Auth { group_id: g, group_action, .. } => {
                    if group_id.is_none() && group_action.is_create() {
                        group_id = Some(*g);
                    }
                    auth_ids.push(msgs[i].hash);
                }
                SpacesArgs::SpaceMembership { direct_messages, .. } => {
                    space_ids.push(msgs[i].hash);
                    if !direct_messages.is_empty() {
                        real_dms = Some(direct_messages.clone());
                    }
                }
                SpacesArgs::Application { group_secret_id, nonce, ciphertext, .. } => {
                    space_ids.push(msgs[i].hash);
                    app = Some((*group_secret_id, *nonce, ciphertext.clone()));
                }
                SpacesArgs::KeyBundle { .. } => kb_id = Some(msgs[i].hash),
                SpacesArgs::SpaceUpdate { .. } => {}
            }
        }
        let gid = group_id.unwrap_or(self.unknown_group);
        let auth_head: Vec<Hash> = auth_ids.last().cloned().into_iter().collect();
        let space_head: Vec<Hash> = space_ids.last().cloned().into_iter().collect();

        // ---- authors -----------------------------------------------------------------------------
        let mut authors: Vec<(String, SigningKey, Option<usize>)> = vec![("Eve".into(), self.eve_key.clone(), None)];
        if self.menu.member_authors > 0 {
            for p in 0..n.min(self.menu.member_authors) {
                authors.push((NAMES[p].to_string(), w.peers[p].credentials.signing_key(), Some(p)));
            }
        }

        let eve_id = self.eve_key.verifying_key();
        let b_id = w.peers[1.min(n - 1)].manager.id();

        // dependency menus
        let mut auth_deps: Vec<(&str, Vec<Hash>)> = vec![("deps=[]", vec![]), ("deps=heads", auth_head.clone())];
        let mut space_deps: Vec<(&str, Vec<Hash>)> = vec![("deps=[]", vec![]), ("deps=heads", space_head.clone())];
        if self.menu.wide {
            auth_deps.push(("deps=[unknown]", vec![self.unknown_hash]));
            if auth_ids.len() > 1 {
                auth_deps.push(("deps=[first]", vec![auth_ids[0]]));
            }
            space_deps.push(("deps=[unknown]", vec![self.unknown_hash]));
        }

        for (aname, key, apeer) in &authors {
            let mut cases: Vec<(String, SpacesArgs<()>)> = vec![];

            // -- KeyBundle ---------------------------------------------------------------------------
            let now = clock::now_secs();
            let own_secret = match apeer {
                Some(p) => w.peers[*p].credentials.identity_secret(),
                None => self.eve_secret.clone(),
            };
            let other_secret = SecretKey::from_rng(&self.rng).map_err(|e| e.to_string())?;
            if let Some(b) = self.bundle(&own_secret, &own_secret, Lifetime::new(3600)) {
                cases.push(("KeyBundle valid, own identity key".into(), SpacesArgs::KeyBundle { key_bundle: b }));
            }
            if let Some(b) = self.bundle(&other_secret, &other_secret, Lifetime::new(3600)) {
                cases.push(("KeyBundle valid, but issued under a different identity key than the key bundle this author sent just before (previous menu entry)".into(), SpacesArgs::KeyBundle { key_bundle: b }));
            }
            if let Some(b) = self.bundle(&own_secret, &other_secret, Lifetime::new(3600)) {
                cases.push(("KeyBundle with pre-key signed by a foreign key".into(), SpacesArgs::KeyBundle { key_bundle: b }));
            }
            if let Some(b) = self.bundle(&own_secret, &own_secret, Lifetime::from_range(now - 7200, now - 3600)) {
                cases.push(("KeyBundle expired".into(), SpacesArgs::KeyBundle { key_bundle: b }));
            }
            if let Some(b) = self.bundle(&own_secret, &own_secret, Lifetime::from_range(now + 3600, now + 7200)) {
                cases.push(("KeyBundle not yet valid".into(), SpacesArgs::KeyBundle { key_bundle: b }));
            }

            // -- Auth --------------------------------------------------------------------------------
            let author_id = key.verifying_key();
            let groups: Vec<(&str, VerifyingKey)> = vec![("group=space-group", gid), ("group=unknown", self.unknown_group), ("group=author-id", author_id)];
            let mut actions: Vec<(&str, GroupAction<VerifyingKey, ()>)> = vec![
                ("Create[]", GroupAction::Create { initial_members: vec![] }),
                ("Create[author:manage]", GroupAction::Create { initial_members: vec![(GroupMember::Individual(author_id), Access::manage())] }),
                ("Add(Eve,write)", GroupAction::Add { member: GroupMember::Individual(eve_id), access: Access::write() }),
                ("Remove(B)", GroupAction::Remove { member: GroupMember::Individual(b_id) }),
                ("Promote(B,manage)", GroupAction::Promote { member: GroupMember::Individual(b_id), access: Access::manage() }),
                ("Demote(B,pull)", GroupAction::Demote { member: GroupMember::Individual(b_id), access: Access::pull() }),
            ];
            if self.menu.wide {
                actions.push(("Add(group itself,write)", GroupAction::Add { member: GroupMember::Group(gid), access: Access::write() }));
                actions.push(("Add(group unknown,manage)", GroupAction::Add { member: GroupMember::Group(self.unknown_group), access: Access::manage() }));
                actions.push(("Remove(unknown)", GroupAction::Remove { member: GroupMember::Individual(self.unknown_group) }));
                actions.push(("Promote(Eve,manage)", GroupAction::Promote { member: GroupMember::Individual(eve_id), access: Access::manage() }));
            }
            for (gname, g) in &groups {
                for (actname, action) in &actions {
                    for (dname, deps) in &auth_deps {
                        cases.push((
                            format!("Auth {actname} {gname} {dname}"),
                            SpacesArgs::Auth { group_id: *g, group_action: action.clone(), auth_dependencies: deps.clone() },
                        ));
                    }
                }
            }

            // -- SpaceUpdate -------------------------------------------------------------------------
            for (sname, s) in [("space=known", space_id), ("space=unknown", unknown_space)] {
                for (dname, deps) in &space_deps {
                    cases.push((
                        format!("SpaceUpdate {sname} {dname}"),
                        SpacesArgs::SpaceUpdate { space_id: s, group_id: gid, space_dependencies: deps.clone() },
                    ));
                }
            }

            // -- Application -------------------------------------------------------------------------
            let (real_secret_id, real_nonce, real_ct) = app.clone().unwrap_or(([0u8; 32], [0u8; 24], vec![]));
            let mut payloads: Vec<(&str, p2panda_encryption::data_scheme::GroupSecretId, p2panda_encryption::crypto::xchacha20::XAeadNonce, Vec<u8>)> = vec![
                ("secret=unknown ct=empty", [9u8; 32], [0u8; 24], vec![]),
                ("secret=unknown ct=1byte", [9u8; 32], [0u8; 24], vec![1]),
            ];
            if app.is_some() {
                payloads.push(("secret=real ct=real nonce=zero", real_secret_id, [0u8; 24], real_ct.clone()));
                payloads.push(("secret=real ct=truncated", real_secret_id, real_nonce, real_ct[..real_ct.len().min(3)].to_vec()));
                payloads.push(("secret=real ct=empty", real_secret_id, real_nonce, vec![]));
                payloads.push(("secret=real ct=real (replayed under a new id)", real_secret_id, real_nonce, real_ct.clone()));
            }
            for (sname, s) in [("space=known", space_id), ("space=unknown", unknown_space)] {
                for (dname, deps) in &space_deps {
                    for (pname, sid, nonce, ct) in &payloads {
                        cases.push((
                            format!("Application {sname} {dname} {pname}"),
                            SpacesArgs::Application { space_id: s, space_dependencies: deps.clone(), group_secret_id: *sid, nonce: *nonce, ciphertext: ct.clone() },
                        ));
                    }
                }
            }

            // -- SpaceMembership ---------------------------------------------------------------------
            // targets of the auth pointer: real auth messages, a non-auth message, an unknown id, and
            // auth messages forged by this author (persisted to the receivers' operation stores, as
            // any received operation would be)
            let mut pointers: Vec<(String, Hash, Option<TestOperation>)> = vec![("auth=unknown-id".into(), self.unknown_hash, None)];
            if let Some(first) = auth_ids.first() {
                pointers.push(("auth=real-create".into(), *first, None));
            }
            if auth_ids.len() > 1 {
                pointers.push(("auth=real-latest".into(), *auth_ids.last().unwrap(), None));
            }
            if let Some(h) = space_ids.last() {
                pointers.push(("auth=points-at-space-message".into(), *h, None));
            }
            if let Some(h) = kb_id {
                pointers.push(("auth=points-at-key-bundle".into(), h, None));
            }
            let forged_actions: Vec<(&str, GroupAction<VerifyingKey, ()>, VerifyingKey)> = vec![
                ("forged Create[author:manage] of a new group", GroupAction::Create { initial_members: vec![(GroupMember::Individual(author_id), Access::manage())] }, self.unknown_group),
                ("forged Add(Eve,write) on the space group", GroupAction::Add { member: GroupMember::Individual(eve_id), access: Access::write() }, gid),
                ("forged Remove(B) on the space group", GroupAction::Remove { member: GroupMember::Individual(b_id) }, gid),
                ("forged Promote(B,manage) on the space group", GroupAction::Promote { member: GroupMember::Individual(b_id), access: Access::manage() }, gid),
                ("forged Demote(B,pull) on the space group", GroupAction::Demote { member: GroupMember::Individual(b_id), access: Access::pull() }, gid),
            ];
            for (fname, action, g) in forged_actions {
                let op = self.forge(key, SpacesArgs::Auth { group_id: g, group_action: action, auth_dependencies: auth_head.clone() }).await?;
                pointers.push((format!("auth={fname}"), op.hash, Some(op)));
            }
            let mut dm_menu: Vec<(&str, Vec<_>)> = vec![("dm=[]", vec![])];
            if let Some(dms) = &real_dms {
                dm_menu.push(("dm=replayed", dms.clone()));
            }
            // the group id of a membership message is chosen by its author: also in the narrow
            // menu a pointer into the known space may name another group
            let group_menu: Vec<(&str, VerifyingKey)> = vec![("group=space-group", gid), ("group=unknown", self.unknown_group)];
            let mut carried: Vec<TestOperation> = vec![];
            for (pname, target, op) in &pointers {
                if let Some(op) = op {
                    carried.push(op.clone());
                }
                for (sname, s) in [("space=known", space_id), ("space=unknown", unknown_space)] {
                    for (gname, g) in &group_menu {
                        for (dname, deps) in &space_deps {
                            for (dmname, dms) in &dm_menu {
                                // re-address replayed direct messages to each receiver later
                                cases.push((
                                    format!("SpaceMembership {sname} {gname} {pname} {dname} {dmname}"),
                                    SpacesArgs::SpaceMembership { space_id: s, group_id: *g, space_dependencies: deps.clone(), auth_message_id: *target, direct_messages: dms.clone() },
                                ));
                            }
                        }
                    }
                }
            }

            // ---- deliver -------------------------------------------------------------------------
            for r in 0..n {
                if Some(r) == *apeer {
                    continue;
                }
                let rid = w.peers[r].manager.id();
                for op in &carried {
                    w.peers[r].persist_operation(op).await.map_err(|e| format!("persist adversarial op: {e}"))?;
                }
                for (label, args) in &cases {
                    let mut args = args.clone();
                    if let SpacesArgs::SpaceMembership { direct_messages, .. } = &mut args {
                        for dm in direct_messages.iter_mut() {
                            dm.recipient = rid;
                        }
                    }
                    let variant = variant_name(&args);
                    let op = self.forge(key, args).await?;
                    let res = match guarded(w.peers[r].manager.process(&op)).await {
                        Ok(Ok((_, _, events))) => summarise::<_, String>(Ok(Ok(events))),
                        Ok(Err(e)) => Proc::Error(e.to_string()),
                        Err(p) => Proc::Panic(p),
                    };
                    out.push(AdvObs { prefix_len, receiver: r, label: format!("{label} [signed by {aname}]"), variant, res });
                }
                // a well-typed message whose id is listed among its own dependencies (only
                // constructible for message types with free ids, not for hash-addressed operations)
                let selfdep = Hash::digest(format!("self-dependency {prefix_len} {aname}"));
                let fabricated: Vec<(&str, SpacesArgs<()>)> = vec![
                    ("Auth Add(Eve,write) group=space-group deps=[self]", SpacesArgs::Auth { group_id: gid, group_action: GroupAction::Add { member: GroupMember::Individual(eve_id), access: Access::write() }, auth_dependencies: vec![selfdep] }),
                    ("Application space=known deps=[self]", SpacesArgs::Application { space_id, space_dependencies: vec![selfdep], group_secret_id: real_secret_id, nonce: real_nonce, ciphertext: real_ct.clone() }),
                    ("SpaceUpdate space=known deps=[self]", SpacesArgs::SpaceUpdate { space_id, group_id: gid, space_dependencies: vec![selfdep] }),
                ];
                for (label, args) in fabricated {
                    let variant = variant_name(&args);
                    let msg = SpacesMessage { id: selfdep, author: key.verifying_key(), args };
                    let res = match guarded(w.peers[r].manager.process(&msg)).await {
                        Ok(Ok((_, _, events))) => summarise::<_, String>(Ok(Ok(events))),
                        Ok(Err(e)) => Proc::Error(e.to_string()),
                        Err(p) => Proc::Panic(p),
                    };
                    out.push(AdvObs { prefix_len, receiver: r, label: format!("{label} [fabricated id, author {aname}]"), variant, res });
                }
            }
        }

        // Two messages by an outsider: anybody may create a group of their own, in which they hold
        // manage rights; the second message then is an authorised Promote.  This persists Eve's group
        // at the receivers, so it is only done at the very end of a run.
        if last {
            let own_group = SigningKey::from_bytes(&[0x78; 32]).verifying_key();
            for r in 0..n {
                let create = self
                    .forge(&self.eve_key, SpacesArgs::Auth {
                        group_id: own_group,
                        group_action: GroupAction::Create { initial_members: vec![(GroupMember::Individual(eve_id), Access::manage()), (GroupMember::Individual(b_id), Access::write())] },
                        auth_dependencies: auth_head.clone(),
                    })
                    .await?;
                w.peers[r].persist_operation(&create).await.map_err(|e| format!("persist adversarial op: {e}"))?;
                let first = summarise(guarded(w.peers[r].manager.process_persisted(&create)).await);
                out.push(AdvObs { prefix_len, receiver: r, label: "two messages by an outsider, 1st: Auth Create[Eve:manage,B:write] of Eve's own group deps=heads [signed by Eve]".into(), variant: "Auth", res: first });
                for (name, action) in [
                    ("Promote(B,manage)", GroupAction::Promote { member: GroupMember::Individual(b_id), access: Access::manage() }),
                    ("Demote(B,pull)", GroupAction::Demote { member: GroupMember::Individual(b_id), access: Access::pull() }),
                ] {
                    let op = self.forge(&self.eve_key, SpacesArgs::Auth { group_id: own_group, group_action: action, auth_dependencies: vec![create.hash] }).await?;
                    let res = match guarded(w.peers[r].manager.process(&op)).await {
                        Ok(Ok((_, _, events))) => summarise::<_, String>(Ok(Ok(events))),
                        Ok(Err(e)) => Proc::Error(e.to_string()),
                        Err(p) => Proc::Panic(p),
                    };
                    out.push(AdvObs {
                        prefix_len,
                        receiver: r,
                        label: format!("two messages by an outsider: Eve first creates a group of her own (Auth Create[Eve:manage,B:write], accepted), then sends Auth {name} for that group deps=[her create] [both signed by Eve]"),
                        variant: "Auth",
                        res,
                    });
                }
            }
        }
        Ok(())
    }
}

// ------------------------------------------------------------------------------------------------
// one DFS execution
// ------------------------------------------------------------------------------------------------

#[derive(Clone, Debug, PartialEq, Eq, PartialOrd, Ord)]
struct Finding {
    /// 0 = honest history only, 1 = adversarial message, 2 = duplicate delivery
    origin: u8,
    key: String,
    /// ordering for "minimal": shorter history first, then text
    weight: (usize, String),
    what: String,
    replay: String,
}

#[derive(Default)]
struct ExecOut {
    scenario: String,
    peers: usize,
    boot_kb: bool,
    acts: Vec<Act>,
    n_msgs: usize,
    findings: Vec<Finding>,
    dup_evals: u64,
    adv_evals: u64,
    outcomes: BTreeSet<String>,
    kinds_duplicated: BTreeSet<String>,
    nontrivial: bool,
    refused: Option<String>,
    machinery: Option<String>,
    registry_growth: u64,
    dup_errors: BTreeSet<String>,
    honest_panics: BTreeSet<String>,
    final_states: Vec<u64>,
}

struct Config {
    peers: usize,
    depth: usize,
    accs: Vec<Acc>,
    /// after the create only rotated key bundles are published (a member with many key bundles)
    kb_only: bool,
}

struct Params {
    configs: Vec<Config>,
    kb_actors: Vec<usize>,
    menu: Menu,
}

fn history_upto(acts: &[Act], msgs: &[MsgInfo], upto_msg: usize) -> String {
    // the actions that produced messages 0..=upto_msg
    let last_act = msgs.get(upto_msg).map(|m| m.act).unwrap_or(acts.len().saturating_sub(1));
    show_acts(&acts[..=last_act.min(acts.len().saturating_sub(1))])
}

struct Scenario {
    peers: usize,
    oob: bool,
    /// complete action list (in message-bootstrap mode it starts with one Kb per peer)
    acts: Vec<Act>,
    /// actions with index >= owned_from are owned by this scenario (all later choices are 0)
    owned_from: usize,
}

/// Pure generation from the chooser and the membership model.
fn generate(ch: &Chooser, params: &Params) -> Scenario {
    let cfg = &params.configs[ch.choose_free(params.configs.len(), "config")];
    let peers = cfg.peers;
    let oob = ch.choose_free(2, "bootstrap") == 0;
    let mut acts = vec![];
    // position in the choice log after the choice that fixed action t
    let mut fixed_at = vec![];
    if !oob {
        for p in 0..peers {
            acts.push(Act::Kb(p));
            fixed_at.push(ch.log().len());
        }
    }
    let mut model = Model::default();
    let vars = create_variants(peers, &cfg.accs);
    let create = Act::Create(vars[ch.choose_free(vars.len(), "create")].clone());
    model.apply(&create);
    acts.push(create);
    fixed_at.push(ch.log().len());
    for _ in 0..cfg.depth {
        let opts = model.options(peers, &cfg.accs, &params.kb_actors, cfg.kb_only);
        if opts.is_empty() {
            break;
        }
        let a = opts[ch.choose_free(opts.len(), "act")].clone();
        model.apply(&a);
        acts.push(a);
        fixed_at.push(ch.log().len());
    }
    let v = ch.vector();
    let owned_from = (0..acts.len()).find(|&t| v[fixed_at[t].min(v.len())..].iter().all(|&c| c == 0)).unwrap_or(acts.len());
    Scenario { peers, oob, acts, owned_from }
}

async fn execute(ch: &Chooser, params: &Params) -> ExecOut {
    let mut ex = ExecOut::default();
    let sc = generate(ch, params);
    let (peers, oob) = (sc.peers, sc.oob);
    ex.peers = peers;
    ex.boot_kb = !oob;
    ex.acts = sc.acts.clone();
    let boot = if oob { "key bundles registered out of band" } else { "key bundles published as messages" };
    ex.scenario = format!("{peers} peers, {boot}: {}", show_acts(&sc.acts));
    let replay = json!({"part": "scenario", "vector": ch.vector(), "scenario": ex.scenario}).to_string();

    // panics on honest first deliveries are totality violations too
    let note_first = |run: &RunOut, ex: &mut ExecOut| {
        for (i, row) in run.first.iter().enumerate() {
            for (p, r) in row.iter().enumerate() {
                if let Some(r) = r {
                    ex.outcomes.insert(format!("first/{}/{}", run.msgs[i].kind, r.class()));
                }
                if let Some(Proc::Panic(pi)) = r {
                    ex.honest_panics.insert(format!("{} processing #{i} ({}) of [{}] ({boot}): {}", NAMES[p], run.msgs[i].kind, history_upto(&run.acts, &run.msgs, i), pi.site()));
                    ex.findings.push(Finding {
                        origin: 0,
                        key: panic_class(pi),
                        // an honest history outranks any adversarial input as the reproduction to show
                        weight: (0, format!("{:03}", run.acts.len())),
                        what: format!("no adversary needed: honest delivery panicked: {} processing message #{i} ({}) of history [{}] ({boot}): '{}' at {}:{}", NAMES[p], run.msgs[i].kind, history_upto(&run.acts, &run.msgs, i), pi.msg, pi.file, pi.line),
                        replay: replay.clone(),
                    });
                }
            }
        }
    };

    // ---- baseline ----------------------------------------------------------------------------
    let b0 = run_once(RunCfg { peers, oob, acts: &sc.acts, dup_at: None, totality: None }).await;
    ex.refused = b0.refused.clone();
    ex.n_msgs = b0.msgs.len();
    if let Some(m) = &b0.machinery {
        ex.machinery = Some(m.clone());
        return ex;
    }
    note_first(&b0, &mut ex);
    for s in &b0.finals {
        // abstract state: member lists plus the shape (field sizes) of the persisted states; the
        // bytes themselves contain message ids, which are not reproducible between runs
        let shape = |m: &BTreeMap<String, Vec<u8>>| m.iter().map(|(k, v)| (k.clone(), v.len())).collect::<Vec<_>>();
        ex.final_states.push(explorer::h64(&(shape(&s.groups), shape(&s.space), &s.members)));
    }
    let n = b0.msgs.len();
    // if the real API refused an action the scenario is cut there; the executed part is a prefix
    // that another scenario owns unless the refusal happened in the owned part
    let executed = &sc.acts[..b0.acts.len()];

    // ---- totality ------------------------------------------------------------------------------
    if sc.owned_from < executed.len() {
        let t = run_once(RunCfg { peers, oob, acts: executed, dup_at: None, totality: Some((&params.menu, sc.owned_from)) }).await;
        if let Some(m) = t.machinery {
            ex.machinery = Some(m);
            return ex;
        }
        for a in &t.adv {
            ex.adv_evals += 1;
            ex.outcomes.insert(format!("adv/{}/{}", a.variant, a.res.class()));
            if let Proc::Panic(p) = &a.res {
                let hist = if a.prefix_len == 0 { "(nothing yet)".to_string() } else { history_upto(&t.acts, &t.msgs, a.prefix_len - 1) };
                ex.findings.push(Finding {
                    origin: 1,
                    key: panic_class(p),
                    weight: (a.prefix_len, format!("{}{}", if a.label.contains("by Eve") || a.label.contains("author Eve") { 0 } else { 1 }, a.label)),
                    what: format!(
                        "Manager::process panicked instead of returning Ok/Err: receiver {} after history [{}] ({boot}) is handed `{}` -> panic '{}' at {}:{}",
                        NAMES[a.receiver], hist, a.label, p.msg, p.file, p.line
                    ),
                    replay: replay.clone(),
                });
            }
        }
    }

    // ---- duplicates ------------------------------------------------------------------------------
    let positions: Vec<usize> = (0..n).filter(|&j| b0.msgs[j].act >= sc.owned_from).collect();
    for &j in &positions {
        let d = run_once(RunCfg { peers, oob, acts: executed, dup_at: Some(j), totality: None }).await;
        if let Some(m) = &d.machinery {
            ex.machinery = Some(m.clone());
            return ex;
        }
        if d.msgs.len() != n || d.msgs.iter().zip(&b0.msgs).any(|(a, b)| a.kind != b.kind || a.author != b.author) {
            // the run with duplicates did not even produce the same shape of history
            ex.findings.push(Finding {
                origin: 2,
                key: "latent-divergence/history-shape".into(),
                weight: (j, String::new()),
                what: format!(
                    "after the duplicates at position #{j} the same actions produced a different history: {:?} vs baseline {:?}; scenario [{}] ({boot}); refused: {:?}",
                    d.msgs.iter().map(|m| m.kind.clone()).collect::<Vec<_>>(),
                    b0.msgs.iter().map(|m| m.kind.clone()).collect::<Vec<_>>(),
                    show_acts(executed),
                    d.refused
                ),
                replay: replay.clone(),
            });
        }
        let mut fired: BTreeSet<usize> = BTreeSet::new();
        for o in &d.dups {
            ex.dup_evals += 1;
            let kind = d.msgs[o.i].kind.clone();
            let who = if o.own { "own" } else { "remote" };
            ex.kinds_duplicated.insert(format!("{kind}/{who}"));
            ex.outcomes.insert(format!("dup/{kind}/{who}/{}", o.res.class()));
            if o.registry_changed {
                ex.registry_growth += 1;
            }
            let hist = history_upto(&d.acts, &d.msgs, o.j);
            let ctx = format!(
                "{} re-processes message #{} ({}{}) after position #{} of history [{}] ({boot})",
                NAMES[o.peer], o.i, kind, if o.own { ", its own" } else { "" }, o.j, hist
            );
            let weight = (o.j, format!("{:02}{:02}{}", o.j - o.i, o.peer, kind));
            match &o.res {
                Proc::Panic(p) => {
                    fired.insert(o.peer);
                    ex.findings.push(Finding {
                        origin: 2,
                        key: panic_class(p),
                        weight: weight.clone(),
                        what: format!("duplicate delivery panicked: {ctx}: '{}' at {}:{}", p.msg, p.file, p.line),
                        replay: replay.clone(),
                    });
                }
                Proc::Events(kinds, full) if !kinds.is_empty() => {
                    fired.insert(o.peer);
                    ex.findings.push(Finding {
                        origin: 2,
                        key: format!("idempotency/{}/events-re-emitted", kind_slug(&kind)),
                        weight: weight.clone(),
                        what: format!("second processing emitted events again: {ctx} -> Ok({})", full.chars().take(260).collect::<String>()),
                        replay: replay.clone(),
                    });
                }
                Proc::Error(e) => {
                    ex.dup_errors.insert(format!("{kind}/{who}: {}", strip_ids(e).chars().take(80).collect::<String>()));
                }
                _ => {}
            }
            if !o.groups_changed.is_empty() || !o.space_changed.is_empty() || o.members_changed {
                fired.insert(o.peer);
                let mut parts = vec![];
                if !o.groups_changed.is_empty() {
                    parts.push(format!("groups[{}]", o.groups_changed.join(",")));
                }
                if !o.space_changed.is_empty() {
                    parts.push(format!("space[{}]", o.space_changed.join(",")));
                }
                if o.members_changed {
                    parts.push("members".into());
                }
                ex.findings.push(Finding {
                    origin: 2,
                    key: format!("idempotency/{}/state-changed", kind_slug(&kind)),
                    weight: weight.clone(),
                    what: format!("second processing changed persisted state: {ctx}; it returned {}; changed fields: {}", o.res.class(), parts.join(" ")),
                    replay: replay.clone(),
                });
            }
        }
        note_first(&d, &mut ex);
        // weak differential against the baseline, for peers none of whose duplicates fired: classes
        // of all later first deliveries and the final member lists (both independent of message ids,
        // which are not reproducible between runs: forged messages embed a HashSet)
        for p in 0..peers {
            if fired.contains(&p) {
                continue;
            }
            for i in (j + 1)..n.min(d.first.len()) {
                let (x, y) = (d.first[i][p].as_ref().map(|r| r.class()), b0.first[i][p].as_ref().map(|r| r.class()));
                if x != y {
                    ex.findings.push(Finding {
                        origin: 2,
                        key: "latent-divergence/later-delivery-result".into(),
                        weight: (i, format!("{j}{p}")),
                        what: format!(
                            "no duplicate of {} had a visible effect, yet its first processing of the later message #{i} ({}) differs from the run without duplicates: {x:?} vs {y:?}; duplicates after position #{j}; scenario [{}] ({boot})",
                            NAMES[p], d.msgs[i].kind, show_acts(executed)
                        ),
                        replay: replay.clone(),
                    });
                    break;
                }
            }
            if d.finals.len() == b0.finals.len() && d.finals[p].members != b0.finals[p].members {
                ex.findings.push(Finding {
                    origin: 2,
                    key: "latent-divergence/final-members".into(),
                    weight: (n, format!("{j}{p}")),
                    what: format!(
                        "no duplicate of {} had a visible effect, yet its final member lists differ from the run without duplicates: {} vs {}; duplicates after position #{j}; scenario [{}] ({boot})",
                        NAMES[p], d.finals[p].members, b0.finals[p].members, show_acts(executed)
                    ),
                    replay: replay.clone(),
                });
            }
        }
    }
    // non-trivial: the scenario changed membership after creation or carried application data, so
    // duplicates hit states where they could matter
    ex.nontrivial = !positions.is_empty() && executed.iter().any(|a| matches!(a, Act::Add(..) | Act::Remove(..) | Act::App(..) | Act::KbFresh(..)));
    ex
}

fn base_kind(kind: &str) -> String {
    kind.split(':').next().unwrap_or("?").trim_end_matches("+dm").to_string()
}

// ------------------------------------------------------------------------------------------------
// entry
// ------------------------------------------------------------------------------------------------

pub fn run(mut rep: Report) -> i32 {
    clock::freeze(FROZEN_NOW);
    let thorough = rep.thorough();
    let params = if thorough {
        Params {
            configs: vec![
                Config { peers: 2, depth: 3, accs: vec![Acc::Write, Acc::Pull, Acc::Manage], kb_only: false },
                Config { peers: 3, depth: 2, accs: vec![Acc::Write, Acc::Pull], kb_only: false },
                Config { peers: 3, depth: 6, accs: vec![Acc::Write], kb_only: true },
            ],
            kb_actors: vec![1, 2],
            menu: Menu { member_authors: 1, wide: true },
        }
    } else {
        Params { configs: vec![Config { peers: 2, depth: 2, accs: vec![Acc::Write, Acc::Pull], kb_only: false }, Config { peers: 2, depth: 5, accs: vec![Acc::Write], kb_only: true }], kb_actors: vec![1], menu: Menu { member_authors: 1, wide: false } }
    };
    let cfg_text = params.configs.iter().map(|c| format!("{} peers/{} actions after create/access {:?}{}", c.peers, c.depth, c.accs, if c.kb_only { "/only rotated key bundles after create" } else { "" })).collect::<Vec<_>>().join(" | ");
    rep.rule = format!(
        "scenario = config in [{cfg_text}] x bootstrap(out-of-band | key-bundle messages) x every create_space variant x every model-valid action sequence over add/remove/publish/key-bundle; every prefix is probed once (by the scenario whose later choices are all 0): totality menu for every receiver after every owned action, and for every owned message position j one run in which every peer re-processes every message i<=j; non-trivial = owning scenario with a membership change or an application message after creation"
    );
    // size of the scenario space (pure generation, nothing executed)
    let space = explorer::dfs(&DfsCfg::default(), |ch| generate(ch, &params).acts.len(), |_, _| {});
    rep.set("scenario_space", json!(space.executions));
    let cfg = DfsCfg {
        max_dev: usize::MAX,
        max_execs: u64::MAX,
        wall: Duration::from_secs(if thorough { 540 } else { 36 }),
        threads: rep.args.threads.max(1),
    };

    struct Agg {
        findings: BTreeMap<(String, u8), (Finding, u64)>,
        outcomes: BTreeSet<String>,
        kinds: BTreeSet<String>,
        dup_evals: u64,
        adv_evals: u64,
        scenarios: u64,
        nontrivial: BTreeSet<u64>,
        refused: BTreeMap<String, u64>,
        machinery: Vec<String>,
        registry_growth: u64,
        dup_errors: BTreeSet<String>,
        honest_panics: BTreeSet<String>,
        samples: BTreeSet<String>,
        states: BTreeSet<u64>,
        max_msgs: usize,
    }
    let mut agg = Agg {
        findings: BTreeMap::new(),
        outcomes: BTreeSet::new(),
        kinds: BTreeSet::new(),
        dup_evals: 0,
        adv_evals: 0,
        scenarios: 0,
        nontrivial: BTreeSet::new(),
        refused: BTreeMap::new(),
        machinery: vec![],
        registry_growth: 0,
        dup_errors: BTreeSet::new(),
        honest_panics: BTreeSet::new(),
        samples: BTreeSet::new(),
        states: BTreeSet::new(),
        max_msgs: 0,
    };

    let stats = dfs_par(
        &cfg,
        |ch| {
            let rt = tokio::runtime::Builder::new_current_thread().enable_time().build().expect("runtime");
            let r = rt.block_on(async { tokio::time::timeout(Duration::from_secs(120), execute(ch, &params)).await });
            match r {
                Ok(ex) => ex,
                Err(_) => ExecOut { machinery: Some(format!("execution timed out (hang) at vector {:?}", ch.vector())), ..Default::default() },
            }
        },
        |_ch, ex: ExecOut| {
            agg.scenarios += 1;
            if let Some(m) = ex.machinery {
                agg.machinery.push(format!("{m} [{}]", ex.scenario));
                return;
            }
            if let Some(r) = ex.refused {
                *agg.refused.entry(r.chars().take(120).collect()).or_insert(0) += 1;
            }
            for f in ex.findings {
                match agg.findings.get_mut(&(f.key.clone(), f.origin)) {
                    Some((best, count)) => {
                        *count += 1;
                        if f.weight < best.weight || (f.weight == best.weight && f.what < best.what) {
                            *best = f;
                        }
                    }
                    None => {
                        agg.findings.insert((f.key.clone(), f.origin), (f, 1));
                    }
                }
            }
            agg.outcomes.extend(ex.outcomes);
            agg.kinds.extend(ex.kinds_duplicated);
            agg.dup_evals += ex.dup_evals;
            agg.adv_evals += ex.adv_evals;
            agg.registry_growth += ex.registry_growth;
            agg.dup_errors.extend(ex.dup_errors);
            agg.honest_panics.extend(ex.honest_panics);
            agg.max_msgs = agg.max_msgs.max(ex.n_msgs);
            for s in ex.final_states {
                agg.states.insert(s);
            }
            if ex.nontrivial {
                agg.nontrivial.insert(explorer::h64(&(ex.peers, ex.boot_kb, &ex.acts)));
                // keep the 5 smallest (by text) so that the choice does not depend on thread timing
                agg.samples.insert(json!({"scenario": ex.scenario, "messages": ex.n_msgs}).to_string());
                if agg.samples.len() > 5 {
                    let last = agg.samples.iter().next_back().cloned().unwrap();
                    agg.samples.remove(&last);
                }
            }
        },
    );
    clock::release();

    rep.absorb_dfs("scenarios", &stats, usize::MAX);
    rep.evals(agg.dup_evals + agg.adv_evals);
    for s in &agg.states {
        rep.state(s);
    }
    for o in &agg.outcomes {
        rep.outcome(o);
    }
    for h in &agg.nontrivial {
        rep.nontrivial(h);
    }
    for s in agg.samples.iter() {
        rep.sample(serde_json::from_str(s).unwrap_or(json!(null)));
    }
    rep.set("scenarios_executed", json!(agg.scenarios));
    rep.set("duplicate_deliveries_checked", json!(agg.dup_evals));
    rep.set("adversarial_messages_checked", json!(agg.adv_evals));
    rep.set("max_messages_per_scenario", json!(agg.max_msgs));
    rep.set("message_kinds_duplicated", json!(agg.kinds));
    rep.set("outcome_classes", json!(agg.outcomes));
    rep.set("duplicate_returned_error", json!(agg.dup_errors));
    rep.set("panics_in_honest_histories", json!(agg.honest_panics.iter().take(12).collect::<Vec<_>>()));
    rep.set("key_registry_grew_on_duplicate", json!(agg.registry_growth));
    rep.set("actions_refused_by_real_api", json!(agg.refused));
    rep.assume(&format!("wall clock frozen at {FROZEN_NOW} through the clock_gettime seam (key-bundle lifetimes and secret timestamps do not move between the compared runs)"));
    rep.assume("peer identities and all protocol randomness come from p2panda_encryption::Rng seeded per peer (TestPeer); histories are linear: every message reaches every other peer before the next action");
    rep.assume("state comparison is on canonicalised CBOR (maps and arrays sorted) because the persisted states serialise HashMap/HashSet in RandomState order; a change that only permutes a Vec is not seen");
    rep.assume("a duplicate that returns Err without events or state change is accepted (the property does not forbid an error); a changed key registry alone is reported under key_registry_grew_on_duplicate, not as a violation (the statement speaks of group and space state)");
    rep.assume("the manager's only mutable state besides its store is an RNG that Manager::process never draws from (read from the code), so an unchanged persisted state means unchanged later behaviour; message ids are not reproducible between runs (forged direct messages embed a HashSet), therefore the cross-run comparison is restricted to id-independent observables");
    for m in agg.machinery {
        rep.machinery_error(m);
    }
    // one violation per key; the text carries the minimal reproduction of every origin that reached it
    let mut merged: BTreeMap<String, (Vec<String>, serde_json::Value)> = BTreeMap::new();
    for ((key, origin), (f, count)) in agg.findings {
        let replay: serde_json::Value = serde_json::from_str(&f.replay).unwrap_or(json!(null));
        let tag = match origin {
            0 => "honest history",
            1 => "adversarial message",
            _ => "duplicate delivery",
        };
        let e = merged.entry(key).or_insert((vec![], replay));
        e.0.push(format!("({tag}, {count} occurrences) {}", f.what));
    }
    for (key, (texts, replay)) in merged {
        rep.violation(key, texts.join(" || "), replay);
    }
    rep.finish()
}
