//! Seam S3 (DESIGN.md §3): the wall clock read by std `SystemTime::now()`.
//!
//! p2panda-encryption stamps key-bundle lifetimes and group secrets with `SystemTime::now()`, and
//! `TestTransportInfo::new` stamps address-book entries.  C39 compares state *between* executions
//! (the run with a duplicate delivery against the run without), so two executions must read the
//! same time; otherwise a second boundary crossed between them would change `not_before`,
//! `not_after` and secret timestamps and raise a false alarm.
//!
//! The binary defines the C symbol `clock_gettime`; the statically linked std (and the bundled
//! SQLite) resolve to it.  Every call is forwarded to the raw syscall; `CLOCK_REALTIME` is replaced
//! by the frozen value while one is set (process-wide: sqlx worker threads see the same clock).
//! `CLOCK_MONOTONIC` (`Instant`, tokio, sqlx time-outs) is untouched.
use std::sync::atomic::{AtomicI64, AtomicU64, Ordering};
use std::time::{SystemTime, UNIX_EPOCH};

const UNSET: i64 = i64::MIN;
static FROZEN: AtomicI64 = AtomicI64::new(UNSET);
static READS: AtomicU64 = AtomicU64::new(0);

#[unsafe(no_mangle)]
pub extern "C" fn clock_gettime(clk: libc::clockid_t, ts: *mut libc::timespec) -> libc::c_int {
    let r = unsafe { libc::syscall(libc::SYS_clock_gettime, clk as libc::c_long, ts) } as libc::c_int;
    if r == 0 && clk == libc::CLOCK_REALTIME && !ts.is_null() {
        READS.fetch_add(1, Ordering::Relaxed);
        let f = FROZEN.load(Ordering::Relaxed);
        if f != UNSET {
            unsafe {
                (*ts).tv_sec = f as libc::time_t;
                (*ts).tv_nsec = 0;
            }
        }
    }
    r
}

/// From now on the wall clock of the whole process reads exactly `secs` (UNIX seconds).
pub fn freeze(secs: u64) {
    FROZEN.store(secs as i64, Ordering::SeqCst);
}

pub fn release() {
    FROZEN.store(UNSET, Ordering::SeqCst);
}

pub fn now_secs() -> u64 {
    SystemTime::now().duration_since(UNIX_EPOCH).map(|d| d.as_secs()).unwrap_or(0)
}

/// Machinery self-test: `Err` = the seam is not in effect and no verdict that relies on the frozen
/// clock can be trusted.
pub fn self_test() -> Result<(), String> {
    release();
    let before = READS.load(Ordering::SeqCst);
    let real = now_secs();
    if READS.load(Ordering::SeqCst) == before {
        return Err("SystemTime::now() did not call the harness clock_gettime (symbol not interposed)".into());
    }
    if real < 1_600_000_000 {
        return Err(format!("implausible real wall clock {real}"));
    }
    for t in [1_000_000u64, 1_900_000_000] {
        freeze(t);
        let d = SystemTime::now().duration_since(UNIX_EPOCH).map_err(|e| e.to_string())?;
        let other = std::thread::spawn(now_secs).join().map_err(|_| "clock self-test thread panicked".to_string())?;
        release();
        if d.as_secs() != t || d.subsec_nanos() != 0 || other != t {
            return Err(format!("frozen clock {t} but SystemTime::now() reads {}.{:09} (other thread {other})", d.as_secs(), d.subsec_nanos()));
        }
    }
    let i0 = std::time::Instant::now();
    freeze(5);
    let i1 = std::time::Instant::now();
    release();
    if i1 < i0 {
        return Err("Instant went backwards under a frozen wall clock".into());
    }
    Ok(())
}
