//! C08 Log store queries agree with a reference model and never panic.
//!
//! Explicit-state search (level-synchronous BFS, parallel over the frontier).  A state is the set
//! of stored rows (operation index, body present).  For every state S and every command c the
//! *real* `SqliteStore` is reset, brought to S by a canonical command path, c is applied, and
//! (a) the command's return value, (b) a fingerprint (all four logs read back) and, for every
//! newly discovered state, (c) the *full* query set are compared with `refmodel::MemStore` driven
//! through the same trait calls.  Reaching a state by two different paths and reading different
//! answers is a violation of its own (differential table).
use std::collections::{BTreeMap, BTreeSet, HashMap};

use explorer::{json, Report};
use p2panda_core::{Hash, Operation, SeqNum, VerifyingKey};
use p2panda_store::logs::LogStore;
use p2panda_store::operations::OperationStore;
use p2panda_store::{SqliteStore, Transaction};
use refmodel::MemStore;

use crate::fixtures::{catch_async, key, make_op, rt};

type Op = Operation<()>;
type L = u64;

#[derive(Clone, Copy, Debug, PartialEq, Eq, Hash, PartialOrd, Ord)]
pub enum Cmd {
    Insert(usize),
    Delete(usize),
    DeletePayload(usize),
    Prune(u8, L, SeqNum),
}

pub struct Universe {
    pub ops: Vec<(Op, L)>,
    pub authors: Vec<VerifyingKey>,
    pub logs: Vec<L>,
    pub prune_points: Vec<SeqNum>,
}

pub fn universe(seqs: &[SeqNum]) -> Universe {
    let mut ops = vec![];
    let logs: Vec<L> = vec![0, 1];
    for a in 0..2u8 {
        let k = key(a);
        for &l in &logs {
            for &s in seqs {
                // The store does not validate chains, so a fake backlink is fine; seq 10 is there to
                // catch string-vs-number comparisons.  Bodies on even positions of the universe.
                let body = format!("body-a{a}-l{l}-s{s}");
                let with_body = (s + l as u32 + a as u32) % 2 == 0;
                let op = make_op(
                    &k,
                    s,
                    if s == 0 { None } else { Some(Hash::digest(format!("bl-{a}-{l}-{s}"))) },
                    if with_body { Some(body.as_bytes()) } else { None },
                    (),
                );
                ops.push((op, l));
            }
        }
    }
    let mut prune_points: Vec<SeqNum> = seqs.iter().flat_map(|s| [*s, s + 1]).collect();
    prune_points.sort();
    prune_points.dedup();
    Universe {
        ops,
        authors: vec![key(0).verifying_key(), key(1).verifying_key(), key(7).verifying_key()],
        logs,
        prune_points,
    }
}

/// Abstract state: op index -> body still present.
pub type State = BTreeMap<usize, bool>;

fn model_step(u: &Universe, s: &State, c: Cmd) -> State {
    let mut n = s.clone();
    match c {
        Cmd::Insert(i) => {
            n.entry(i).or_insert(u.ops[i].0.body.is_some());
        }
        Cmd::Delete(i) => {
            n.remove(&i);
        }
        Cmd::DeletePayload(i) => {
            if let Some(b) = n.get_mut(&i) {
                *b = false;
            }
        }
        Cmd::Prune(a, l, until) => {
            let ak = u.authors[a as usize];
            n.retain(|i, _| {
                let (op, ol) = &u.ops[*i];
                !(op.header.verifying_key == ak && *ol == l && op.header.seq_num < until)
            });
        }
    }
    n
}

fn canonical_path(u: &Universe, s: &State) -> Vec<Cmd> {
    let mut p: Vec<Cmd> = s.keys().map(|i| Cmd::Insert(*i)).collect();
    for (i, has_body) in s {
        if !*has_body && u.ops[*i].0.body.is_some() {
            p.push(Cmd::DeletePayload(*i));
        }
    }
    p
}

fn commands(u: &Universe) -> Vec<Cmd> {
    let mut v = vec![];
    for i in 0..u.ops.len() {
        v.push(Cmd::Insert(i));
    }
    for i in 0..u.ops.len() {
        v.push(Cmd::Delete(i));
    }
    for i in 0..u.ops.len() {
        v.push(Cmd::DeletePayload(i));
    }
    for a in 0..2u8 {
        for &l in &u.logs {
            for &p in &u.prune_points {
                v.push(Cmd::Prune(a, l, p));
            }
        }
    }
    v
}

async fn apply<S>(store: &S, u: &Universe, c: Cmd) -> String
where
    S: Transaction + OperationStore<Op, Hash> + LogStore<Op, VerifyingKey, L, SeqNum, Hash>,
{
    match c {
        Cmd::Insert(i) => {
            let (op, l) = &u.ops[i];
            let Ok(permit) = store.begin().await else { return "begin-err".into() };
            let r = <S as OperationStore<Op, Hash>>::insert_operation(store, &op.hash, op, l).await;
            let _ = store.commit(permit).await;
            format!("{:?}", r.map_err(|e| e.to_string()))
        }
        Cmd::Delete(i) => {
            let Ok(permit) = store.begin().await else { return "begin-err".into() };
            let r = <S as OperationStore<Op, Hash>>::delete_operation(store, &u.ops[i].0.hash).await;
            let _ = store.commit(permit).await;
            format!("{:?}", r.map_err(|e| e.to_string()))
        }
        Cmd::DeletePayload(i) => {
            let r = <S as OperationStore<Op, Hash>>::delete_operation_payload(store, &u.ops[i].0.hash).await;
            format!("{:?}", r.map_err(|e| e.to_string()))
        }
        Cmd::Prune(a, l, until) => {
            let r = <S as LogStore<Op, VerifyingKey, L, SeqNum, Hash>>::prune_entries(
                store,
                &u.authors[a as usize],
                &l,
                &until,
            )
            .await;
            format!("{:?}", r.map_err(|e| e.to_string()))
        }
    }
}

fn fmt_op(o: &Op) -> String {
    format!(
        "{}:{}:{}",
        &o.hash.to_hex()[..10],
        o.header.seq_num,
        o.body.as_ref().map(|b| b.to_hex()).unwrap_or_else(|| "-".into())
    )
}

fn fmt_entries(r: Option<Vec<(Op, Vec<u8>)>>) -> String {
    match r {
        None => "None".into(),
        Some(v) => format!(
            "Some[{}]",
            v.iter()
                .map(|(o, h)| format!("{}#{}", fmt_op(o), explorer::h64(h)))
                .collect::<Vec<_>>()
                .join(",")
        ),
    }
}

/// Cheap fingerprint: every real log read back completely.
async fn fingerprint<S>(store: &S, u: &Universe) -> Vec<String>
where
    S: LogStore<Op, VerifyingKey, L, SeqNum, Hash>,
{
    let mut out = vec![];
    for a in 0..2 {
        for l in &u.logs {
            let r = catch_async(store.get_log_entries(&u.authors[a], l, None, None)).await;
            out.push(match r {
                Ok(Ok(v)) => fmt_entries(v),
                Ok(Err(e)) => format!("Err({e})"),
                Err(p) => format!("PANIC({p})"),
            });
        }
    }
    out
}

/// The full query set.  Every call is wrapped so a panic becomes an observation.
async fn observe<S>(store: &S, u: &Universe, bounds: &[Option<SeqNum>]) -> Vec<(String, String)>
where
    S: Transaction + OperationStore<Op, Hash> + LogStore<Op, VerifyingKey, L, SeqNum, Hash>,
{
    let mut out = vec![];
    let all_logs: Vec<L> = vec![0, 1, 5];
    macro_rules! rec {
        ($name:expr, $fut:expr, $fmt:expr) => {{
            let r = catch_async($fut).await;
            out.push((
                $name,
                match r {
                    Ok(Ok(v)) => $fmt(v),
                    Ok(Err(e)) => format!("Err({e})"),
                    Err(p) => format!("PANIC({p})"),
                },
            ));
        }};
    }
    for (ai, a) in u.authors.iter().enumerate() {
        for l in &all_logs {
            rec!(
                format!("get_latest_entry(a{ai},l{l})"),
                <S as LogStore<Op, VerifyingKey, L, SeqNum, Hash>>::get_latest_entry(store, a, l),
                |v: Option<Op>| v.map(|o| fmt_op(&o)).unwrap_or_else(|| "None".into())
            );
            // the _tx variant needs an open transaction
            match store.begin().await {
                Ok(permit) => {
                    rec!(
                        format!("get_latest_entry_tx(a{ai},l{l})"),
                        <S as LogStore<Op, VerifyingKey, L, SeqNum, Hash>>::get_latest_entry_tx(store, a, l),
                        |v: Option<Op>| v.map(|o| fmt_op(&o)).unwrap_or_else(|| "None".into())
                    );
                    let _ = store.rollback(permit).await;
                }
                Err(e) => out.push((format!("begin(a{ai},l{l})"), format!("Err({e})"))),
            }
        }
        // every subset of the logs, including the empty one
        for mask in 0..(1u32 << all_logs.len()) {
            let sel: Vec<L> = all_logs
                .iter()
                .enumerate()
                .filter(|(i, _)| mask & (1 << i) != 0)
                .map(|(_, l)| *l)
                .collect();
            rec!(
                format!("get_log_heights(a{ai},{sel:?})"),
                <S as LogStore<Op, VerifyingKey, L, SeqNum, Hash>>::get_log_heights(store, a, &sel),
                |v: Option<BTreeMap<L, SeqNum>>| format!("{v:?}")
            );
        }
    }
    // ranged queries: the four real logs plus one unknown author / unknown log
    let mut targets: Vec<(usize, L)> = vec![];
    for a in 0..2 {
        for l in &u.logs {
            targets.push((a, *l));
        }
    }
    targets.push((2, 0));
    targets.push((0, 5));
    for (ai, l) in targets {
        let a = &u.authors[ai];
        for after in bounds {
            for until in bounds {
                rec!(
                    format!("get_log_entries(a{ai},l{l},{after:?},{until:?})"),
                    <S as LogStore<Op, VerifyingKey, L, SeqNum, Hash>>::get_log_entries(store, a, &l, *after, *until),
                    fmt_entries
                );
                rec!(
                    format!("get_log_size(a{ai},l{l},{after:?},{until:?})"),
                    <S as LogStore<Op, VerifyingKey, L, SeqNum, Hash>>::get_log_size(store, a, &l, *after, *until),
                    |v: Option<(u32, u32)>| format!("{v:?}")
                );
            }
        }
    }
    out
}

pub async fn reset(sql: &SqliteStore) {
    for t in ["operations_v1", "topics_v1", "cursors_v1"] {
        sqlx::query(&format!("DELETE FROM {t}"))
            .execute(sql.pool())
            .await
            .expect("reset table");
    }
}

#[derive(Default)]
struct WorkerOut {
    transitions: u64,
    new_states: Vec<(State, Vec<Cmd>)>,
    violations: Vec<(String, String, explorer::Value)>,
    samples: Vec<explorer::Value>,
    queries: u64,
    nontrivial: u64,
}

fn short(s: &str) -> String {
    if s.len() > 160 { format!("{}…", &s[..160]) } else { s.to_string() }
}

/// Expand one state: returns transitions made and states discovered.
async fn expand(
    sql: &SqliteStore,
    u: &Universe,
    cmds: &[Cmd],
    bounds: &[Option<SeqNum>],
    s: &State,
    known: &HashMap<State, ()>,
    out: &mut WorkerOut,
) {
    let path = canonical_path(u, s);
    let mut discovered: BTreeSet<State> = BTreeSet::new();
    for &c in cmds {
        out.transitions += 1;
        reset(sql).await;
        let mem = MemStore::new();
        for &p in &path {
            apply(sql, u, p).await;
            apply(&mem, u, p).await;
        }
        let r_sql = match catch_async(apply(sql, u, c)).await {
            Ok(r) => r,
            Err(p) => format!("PANIC({p})"),
        };
        let r_mem = apply(&mem, u, c).await;
        let replay = json!({"part": "bfs", "state_path": format!("{path:?}"), "command": format!("{c:?}")});
        if r_sql != r_mem {
            out.violations.push((
                format!("command-result/{}", cmd_name(c)),
                format!("after {path:?}: {c:?} returned {} on SqliteStore but {} on the model", short(&r_sql), short(&r_mem)),
                replay.clone(),
            ));
            continue;
        }
        let next = model_step(u, s, c);
        let f_sql = fingerprint(sql, u).await;
        let f_mem = fingerprint(&mem, u).await;
        if f_sql != f_mem {
            out.violations.push((
                format!("state-after/{}", cmd_name(c)),
                format!("after {path:?} then {c:?}: logs read back as {f_sql:?} on SqliteStore, model says {f_mem:?}"),
                replay.clone(),
            ));
            continue;
        }
        if next != *s {
            out.nontrivial += 1;
        }
        if !known.contains_key(&next) && discovered.insert(next.clone()) {
            // full observation of a newly discovered state (reached by this very transition)
            let o_sql = observe(sql, u, bounds).await;
            let o_mem = observe(&mem, u, bounds).await;
            out.queries += o_sql.len() as u64;
            for ((name, a), (_, b)) in o_sql.iter().zip(o_mem.iter()) {
                if a != b {
                    let class = if a.starts_with("PANIC") {
                        "panic"
                    } else if a.starts_with("Err") {
                        "error"
                    } else {
                        "mismatch"
                    };
                    let q = name.split('(').next().unwrap_or("query");
                    let detail = if q == "get_log_heights" && name.contains("[]") { "/empty-log-list" } else { "" };
                    out.violations.push((
                        format!("query-{class}/{q}{detail}"),
                        format!("state {path:?} + {c:?}: {name} = {} on SqliteStore, model = {}", short(a), short(b)),
                        json!({"part": "bfs", "state_path": format!("{path:?}"), "command": format!("{c:?}"), "query": name}),
                    ));
                }
            }
            if out.samples.len() < 2 && next.len() >= 2 {
                out.samples.push(json!({
                    "state_path": format!("{path:?}"), "command": format!("{c:?}"),
                    "result": r_sql, "logs_after": f_sql,
                    "queries_compared": o_sql.len(),
                }));
            }
            let mut p2 = path.clone();
            p2.push(c);
            out.new_states.push((next, p2));
        }
    }
}

fn cmd_name(c: Cmd) -> &'static str {
    match c {
        Cmd::Insert(_) => "insert",
        Cmd::Delete(_) => "delete",
        Cmd::DeletePayload(_) => "delete_payload",
        Cmd::Prune(..) => "prune",
    }
}

pub fn run(mut rep: Report) -> i32 {
    let thorough = rep.thorough();
    let seqs: Vec<SeqNum> = if thorough { vec![0, 1, 2, 10] } else { vec![0, 2, 10] };
    let depth = if thorough { 4 } else { 3 };
    let u = universe(&seqs);
    let cmds = commands(&u);
    let mut bounds: Vec<Option<SeqNum>> = vec![None];
    for s in &u.prune_points {
        bounds.push(Some(*s));
    }
    bounds.push(Some(u32::MAX));
    rep.rule = format!(
        "explicit-state BFS to depth {depth} over states = sets of stored rows (op, body present) from a universe of {} operations (2 authors x 2 logs x seq {seqs:?}); {} commands (insert, delete, delete_payload per op; prune per (author, log, until)) applied in every state; command result + read-back of all logs compared with MemStore on every transition, the full query set (latest entry (+_tx), heights for every subset of {{0,1,unknown}} incl. the empty list, ranged entries/size for all (after,until) in {bounds:?}^2 on 6 (author,log) targets) on every newly discovered state; non-trivial = transition that changes the state",
        u.ops.len(),
        cmds.len()
    );
    let threads = rep.args.threads.max(1);
    let mut known: HashMap<State, ()> = HashMap::new();
    known.insert(State::new(), ());
    let mut frontier: Vec<State> = vec![State::new()];
    rep.state(&State::new());
    let mut total_queries = 0u64;
    // full observation of the initial (empty) state
    {
        let rt = rt();
        let diffs: Vec<(String, String, String)> = rt.block_on(async {
            let sql = SqliteStore::temporary().await;
            let mem = MemStore::new();
            let a = observe(&sql, &u, &bounds).await;
            let b = observe(&mem, &u, &bounds).await;
            a.into_iter().zip(b).filter(|(x, y)| x.1 != y.1).map(|(x, y)| (x.0, x.1, y.1)).collect()
        });
        for (name, a, b) in diffs {
            let q = name.split('(').next().unwrap_or("query").to_string();
            let class = if a.starts_with("PANIC") { "panic" } else if a.starts_with("Err") { "error" } else { "mismatch" };
            let detail = if q == "get_log_heights" && name.contains("[]") { "/empty-log-list" } else { "" };
            rep.violation(format!("query-{class}/{q}{detail}"), format!("empty store: {name} = {} on SqliteStore, model = {}", short(&a), short(&b)), json!({"part": "initial", "query": name}));
        }
    }
    for level in 0..depth {
        let chunks: Vec<Vec<State>> = {
            let mut cs: Vec<Vec<State>> = (0..threads).map(|_| vec![]).collect();
            for (i, s) in frontier.iter().enumerate() {
                cs[i % threads].push(s.clone());
            }
            cs
        };
        let outs: Vec<WorkerOut> = std::thread::scope(|sc| {
            let hs: Vec<_> = chunks
                .into_iter()
                .map(|chunk| {
                    let (u, cmds, bounds, known) = (&u, &cmds, &bounds, &known);
                    sc.spawn(move || {
                        let mut out = WorkerOut::default();
                        if chunk.is_empty() {
                            return out;
                        }
                        let rt = rt();
                        rt.block_on(async {
                            let sql = SqliteStore::temporary().await;
                            for s in &chunk {
                                expand(&sql, u, cmds, bounds, s, known, &mut out).await;
                            }
                        });
                        out
                    })
                })
                .collect();
            hs.into_iter().map(|h| h.join().expect("worker")).collect()
        });
        let mut next_frontier = vec![];
        for o in outs {
            rep.evals(o.transitions);
            rep.transitions += o.transitions;
            rep.nontrivial_count(0);
            total_queries += o.queries;
            for s in o.samples {
                rep.sample(s);
            }
            for (k, w, r) in o.violations {
                rep.violation(k, w, r);
            }
            for (s, _p) in o.new_states {
                if known.insert(s.clone(), ()).is_none() {
                    rep.state(&s);
                    rep.nontrivial(&s);
                    next_frontier.push(s);
                }
            }
        }
        rep.part(json!({"level": level, "frontier": frontier.len(), "discovered": next_frontier.len()}));
        frontier = next_frontier;
    }
    rep.set("queries_compared", json!(total_queries));
    rep.set("bfs_depth", json!(depth));
    rep.set("unexpanded_frontier_states", json!(frontier.len()));
    rep.assume("SQLite query answers depend only on the set of stored rows (checked differentially: every rediscovery of a state by another path compares the read-back of all logs)");
    rep.assume("states of the last BFS level are observed (full query set) but not expanded");
    rep.finish()
}
