//! C03 / C05: explicit-state exploration of the real `ingest_operation` (+ `prune_entries`, the
//! effect of the LogPrune processor) over a universe of honest and forged operations.
//!
//! A state is (set of stored operations, prune floor per log).  BFS from the empty store: in every
//! reachable state every universe element is delivered once to the real code; the store is
//! brought to the state by replaying the witness path of deliveries through the same real code
//! (never by poking rows).  The search runs to its fixpoint, so *all* reachable states and all
//! (state, delivery) pairs of the universe are covered, for delivery sequences of any length.
use std::collections::{BTreeMap, BTreeSet, HashMap};

use explorer::{json, Report, Value};
use p2panda_core::{Hash, Operation, SeqNum, SigningKey, VerifyingKey};
use p2panda_store::logs::LogStore;
use p2panda_store::operations::OperationStore;
use p2panda_store::topics::TopicStore;
use p2panda_store::{SqliteStore, Transaction};
use p2panda_stream::ingest::ingest_operation;
use refmodel::MemStore;
use serde::{Deserialize, Serialize};

use crate::c08::reset;
use crate::fixtures::{catch_async, key, make_op, rt};

#[derive(Clone, Debug, Default, PartialEq, Eq, Serialize, Deserialize)]
pub struct Ext {
    #[serde(rename = "p", default)]
    pub prune: bool,
}

type Op = Operation<Ext>;
type L = u64;
const TOPIC: [u8; 32] = [9; 32];

#[derive(Clone, Debug)]
pub struct Elem {
    pub name: String,
    pub op: Op,
    pub log: L,
    /// Honest = produced and signed by its author as part of a non-equivocating chain.
    pub honest: bool,
    /// For forged elements: hash index of the honest operation it was derived from.
    pub kind: &'static str,
}

pub struct Universe {
    pub elems: Vec<Elem>,
}

/// Honest chain with prune flags at the given positions.  A flagged operation still carries the
/// backlink to its predecessor (authors always know their own log).
fn honest_chain(k: &SigningKey, a: u8, log: L, len: u32, flags: &[u32]) -> Vec<Elem> {
    let mut out: Vec<Elem> = vec![];
    for s in 0..len {
        let body = format!("a{a}-l{log}-s{s}");
        let op = make_op(
            k,
            s,
            out.last().map(|e| e.op.hash),
            if s % 2 == 0 { Some(body.as_bytes()) } else { None },
            Ext { prune: flags.contains(&s) },
        );
        out.push(Elem {
            name: format!("{}{log}:{s}{}", (b'A' + a) as char, if flags.contains(&s) { "p" } else { "" }),
            op,
            log,
            honest: true,
            kind: "honest",
        });
    }
    out
}

fn forged_variants(e: &Elem, other: &SigningKey, alt_backlink: Hash) -> Vec<Elem> {
    let mut v = vec![];
    let mk = |name: &str, op: Op, kind: &'static str| Elem { name: format!("{}!{name}", e.name), op, log: e.log, honest: false, kind };
    // claims the author's key but is signed by somebody else
    {
        let mut h = e.op.header.clone();
        h.sign(other);
        h.verifying_key = e.op.header.verifying_key;
        let op = Operation { hash: h.hash(), header: h, body: e.op.body.clone() };
        v.push(mk("sig-by-other", op, "forged-signature"));
    }
    // stale signature after changing the backlink
    {
        let mut h = e.op.header.clone();
        h.backlink = if h.seq_num == 0 { None } else { Some(alt_backlink) };
        if h.seq_num > 0 {
            let op = Operation { hash: h.hash(), header: h, body: e.op.body.clone() };
            v.push(mk("backlink-edited", op, "stale-signature"));
        }
    }
    // stale signature after bumping the sequence number (gap)
    {
        let mut h = e.op.header.clone();
        h.seq_num += 1;
        if h.backlink.is_none() {
            h.backlink = Some(alt_backlink);
        }
        let op = Operation { hash: h.hash(), header: h, body: e.op.body.clone() };
        v.push(mk("seq-edited", op, "stale-signature"));
    }
    // flag flipped without re-signing
    {
        let mut h = e.op.header.clone();
        h.extensions.prune = !h.extensions.prune;
        let op = Operation { hash: h.hash(), header: h, body: e.op.body.clone() };
        v.push(mk("flag-edited", op, "stale-signature"));
    }
    // a corrupted copy: header, signature and body intact, but the `hash` field of the operation
    // (its id) is not the hash of its header.  The property makes no accept/reject demand for it,
    // but it must never break the log invariants (e.g. be stored next to the genuine operation).
    {
        let op = Operation { hash: Hash::digest(format!("wrong-id-{}", e.name)), header: e.op.header.clone(), body: e.op.body.clone() };
        v.push(mk("id-field-edited", op, "wrong-id"));
    }
    // body replaced
    if e.op.body.is_some() {
        let op = Operation { hash: e.op.hash, header: e.op.header.clone(), body: Some(p2panda_core::Body::new(b"tampered")) };
        v.push(mk("body-replaced", op, "body-mismatch"));
    }
    v
}

pub struct Spec {
    /// (author, log, len, flags)
    pub chains: Vec<(u8, L, u32, Vec<u32>)>,
    /// forge variants for the chains with these indices
    pub forge_for: Vec<usize>,
    /// add operations of a *misbehaving author* to chain 0: validly signed, with a sequence number
    /// below an existing prune point and a backlink to a later operation of the log
    pub rewound: bool,
}

pub fn build(spec: &Spec) -> Universe {
    let mut elems = vec![];
    let alt = Hash::digest(b"some other operation");
    for (ci, (a, log, len, flags)) in spec.chains.iter().enumerate() {
        let k = key(*a);
        let chain = honest_chain(&k, *a, *log, *len, flags);
        let other = key(a + 1);
        for e in &chain {
            elems.push(e.clone());
        }
        if spec.forge_for.contains(&ci) {
            for e in &chain {
                elems.extend(forged_variants(e, &other, alt));
            }
        }
        if spec.rewound && ci == 0 {
            // for every prune point P of the chain: an operation signed by the author itself with a
            // lower sequence number whose backlink names P (or P's successor), with and without flag
            for p in chain.iter().filter(|e| e.op.header.extensions.prune) {
                let targets: Vec<&Elem> = chain.iter().filter(|e| e.op.header.seq_num >= p.op.header.seq_num && e.op.header.seq_num <= p.op.header.seq_num + 1).collect();
                for t in targets {
                    for seq in [p.op.header.seq_num.saturating_sub(1), 1] {
                        if seq == 0 || seq >= p.op.header.seq_num {
                            continue;
                        }
                        for flag in [true, false] {
                            let op = make_op(&k, seq, Some(t.op.hash), Some(format!("rewound-{seq}-{}-{flag}", t.name).as_bytes()), Ext { prune: flag });
                            elems.push(Elem { name: format!("{}{log}:rewound-seq{seq}-links-to-{}{}", (b'A' + a) as char, t.op.header.seq_num, if flag { "p" } else { "" }), op, log: *log, honest: false, kind: "rewound" });
                        }
                    }
                }
            }
        }
    }
    Universe { elems }
}

/// Observable store content: (author hex, log) -> seq -> (hash, backlink, flag, body present).
type Content = BTreeMap<(String, L), BTreeMap<SeqNum, Vec<(String, Option<String>, bool, bool, String)>>>;

/// Read the whole store back through the public log API (all universe logs, no range).
async fn read_back<S>(store: &S, logs: &[(VerifyingKey, L)]) -> Result<Content, String>
where
    S: LogStore<Op, VerifyingKey, L, SeqNum, Hash>,
{
    let mut c: Content = BTreeMap::new();
    for (a, l) in logs {
        let r = <S as LogStore<Op, VerifyingKey, L, SeqNum, Hash>>::get_log_entries(store, a, l, None, None)
            .await
            .map_err(|e| e.to_string())?;
        let Some(entries) = r else { continue };
        let m = c.entry((a.to_hex(), *l)).or_default();
        for (op, _) in entries {
            m.entry(op.header.seq_num).or_default().push((
                op.hash.to_hex(),
                op.header.backlink.map(|b| b.to_hex()),
                op.header.extensions.prune,
                op.body.is_some(),
                op.header.hash().to_hex(),
            ));
        }
    }
    Ok(c)
}

#[derive(Clone, Debug, PartialEq, Eq, PartialOrd, Ord, Hash)]
pub struct State {
    /// indices of universe elements currently stored
    pub stored: BTreeSet<usize>,
    /// per (author, log): highest seq of an accepted prune-flagged operation
    pub floor: BTreeMap<(String, L), SeqNum>,
}

#[derive(Default)]
pub struct Out {
    pub transitions: u64,
    pub accepted: u64,
    pub rejected: u64,
    pub duplicates: u64,
    pub violations: Vec<(String, String, Value)>,
    pub samples: Vec<Value>,
    pub mem_compared: u64,
}

pub struct Cfg {
    pub property: &'static str,
    /// apply `prune_entries` after an accepted prune-flagged operation (what the pipeline does)
    pub apply_prune: bool,
    pub check_chain: bool,
    pub check_floor: bool,
}

/// One delivery on one store: ingest (+ prune).  Returns the ingest result as text.
async fn deliver<S>(store: &S, e: &Elem, apply_prune: bool) -> String
where
    S: Transaction + OperationStore<Op, Hash> + LogStore<Op, VerifyingKey, L, SeqNum, Hash> + TopicStore<[u8; 32], VerifyingKey, L>,
{
    let flag = e.op.header.extensions.prune;
    let r = catch_async(ingest_operation::<S, Op, L, Ext, [u8; 32]>(store, &e.op, &e.log, &TOPIC, flag)).await;
    let txt = match &r {
        Ok(Ok(b)) => format!("Ok({b})"),
        Ok(Err(err)) => format!("Err({err})"),
        Err(p) => format!("PANIC({p})"),
    };
    if apply_prune && flag && matches!(r, Ok(Ok(_))) {
        let _ = <S as LogStore<Op, VerifyingKey, L, SeqNum, Hash>>::prune_entries(
            store,
            &e.op.header.verifying_key,
            &e.log,
            &e.op.header.seq_num,
        )
        .await;
    }
    txt
}

fn content_to_indices(u: &Universe, c: &Content) -> Result<BTreeSet<usize>, String> {
    let mut s = BTreeSet::new();
    for ((_a, l), m) in c {
        for rows in m.values() {
            for (hash, _, _, has_body, _) in rows {
                // identify by hash + log; tampered-body elements share the hash of their original
                let idx = u
                    .elems
                    .iter()
                    .position(|e| e.op.hash.to_hex() == *hash && e.log == *l && e.op.body.is_some() == *has_body && e.kind != "body-mismatch")
                    .or_else(|| u.elems.iter().position(|e| e.op.hash.to_hex() == *hash && e.log == *l));
                match idx {
                    Some(i) => {
                        s.insert(i);
                    }
                    None => return Err(format!("store contains an operation {hash} that was never delivered")),
                }
            }
        }
    }
    Ok(s)
}

fn chain_invariant(c: &Content) -> Result<(), (String, String)> {
    for ((a, l), m) in c {
        for (seq, rows) in m {
            if rows.len() > 1 {
                return Err(("duplicate-seq".into(), format!("log ({}…,{l}) stores {} entries with seq {seq}", &a[..8], rows.len())));
            }
            let (hash, backlink, flag, _, _) = &rows[0];
            if *seq > 0 && !*flag {
                let pred = seq.checked_sub(1).and_then(|p| m.get(&p));
                match pred {
                    None => {
                        return Err((
                            "gap-without-prune-flag".into(),
                            format!("log ({}…,{l}): entry seq {seq} ({}…) has no prune flag but seq {} is not stored; stored seqs {:?}", &a[..8], &hash[..8], seq - 1, m.keys().collect::<Vec<_>>()),
                        ));
                    }
                    Some(p) => {
                        if backlink.as_deref() != Some(p[0].4.as_str()) {
                            return Err((
                                "backlink-does-not-match-predecessor".into(),
                                format!("log ({}…,{l}): entry seq {seq} backlinks to {:?} but the stored predecessor is {}", &a[..8], backlink.as_ref().map(|b| &b[..8]), &p[0].0[..8]),
                            ));
                        }
                    }
                }
            }
        }
    }
    Ok(())
}

fn heights(c: &Content) -> BTreeMap<(String, L), SeqNum> {
    c.iter().filter_map(|(k, m)| m.keys().max().map(|h| (k.clone(), *h))).collect()
}

/// Expand one state.  `path` = witness sequence of universe indices leading to `s`.
#[allow(clippy::too_many_arguments)]
async fn expand(
    cfg: &Cfg,
    u: &Universe,
    logs: &[(VerifyingKey, L)],
    sql: &SqliteStore,
    s: &State,
    path: &[usize],
    out: &mut Out,
) -> Vec<(usize, State)> {
    let mut succ = vec![];
    for (ei, e) in u.elems.iter().enumerate() {
        out.transitions += 1;
        reset(sql).await;
        let mem = MemStore::new();
        for &p in path {
            deliver(sql, &u.elems[p], cfg.apply_prune).await;
            deliver(&mem, &u.elems[p], cfg.apply_prune).await;
        }
        let replay = json!({"part": cfg.property, "apply_prune": cfg.apply_prune,
            "path": path.iter().map(|p| u.elems[*p].name.clone()).collect::<Vec<_>>(), "deliver": e.name});
        let before = match read_back(sql, logs).await {
            Ok(c) => c,
            Err(err) => {
                out.violations.push(("store-error".into(), format!("read-back failed: {err}"), replay));
                continue;
            }
        };
        match content_to_indices(u, &before) {
            Ok(idx) if idx == s.stored => {}
            other => {
                out.violations.push((
                    "replay-diverged".into(),
                    format!("replaying {:?} did not rebuild the state {:?}: {other:?}", path, s.stored),
                    replay,
                ));
                continue;
            }
        }
        let res = deliver(sql, e, cfg.apply_prune).await;
        let res_mem = deliver(&mem, e, cfg.apply_prune).await;
        let after = match read_back(sql, logs).await {
            Ok(c) => c,
            Err(err) => {
                out.violations.push(("store-error".into(), format!("read-back failed: {err}"), replay));
                continue;
            }
        };
        // MemStore must give the same transcript (binds the in-memory store used by the sync checks)
        out.mem_compared += 1;
        let after_mem = read_back(&mem, logs).await.unwrap_or_default();
        let norm = |r: &str| if r.starts_with("Err(") { "Err".to_string() } else { r.to_string() };
        if norm(&res) != norm(&res_mem) || after != after_mem {
            out.violations.push((
                "memstore-disagrees".into(),
                format!("path {:?} deliver {}: SqliteStore {res} / MemStore {res_mem}; contents differ: {}", replay["path"], e.name, after != after_mem),
                replay.clone(),
            ));
        }
        let accepted = res == "Ok(true)";
        let ok = res.starts_with("Ok(");
        if res.starts_with("PANIC") {
            out.violations.push(("ingest-panics".into(), format!("path {:?} deliver {}: {res}", replay["path"], e.name), replay.clone()));
            continue;
        }
        if accepted {
            out.accepted += 1;
        } else if ok {
            out.duplicates += 1;
        } else {
            out.rejected += 1;
        }

        // --- oracle -------------------------------------------------------------------------
        let hb = heights(&before);
        let ha = heights(&after);
        let lk = (e.op.header.verifying_key.to_hex(), e.log);
        if cfg.check_chain {
            // rejected ⇒ unchanged
            if !ok && after != before {
                out.violations.push((
                    "rejected-but-store-changed".into(),
                    format!("path {:?}: delivering {} returned {res} but the store changed", replay["path"], e.name),
                    replay.clone(),
                ));
            }
            // forged copies are never accepted
            if !e.honest && ok && e.kind != "wrong-id" && e.kind != "rewound" {
                out.violations.push((
                    format!("forged-accepted/{}", e.kind),
                    format!("path {:?}: forged operation {} ({}) was accepted: {res}", replay["path"], e.name, e.kind),
                    replay.clone(),
                ));
            }
            // an operation without prune flag that does not extend its log is rejected
            if e.honest && !e.op.header.extensions.prune && accepted {
                let latest = before.get(&lk).and_then(|m| m.iter().next_back());
                let extends = match latest {
                    None => e.op.header.seq_num == 0,
                    Some((seq, rows)) => {
                        e.op.header.seq_num == seq + 1 && e.op.header.backlink.map(|b| b.to_hex()) == Some(rows[0].4.clone())
                    }
                };
                if !extends {
                    out.violations.push((
                        "accepted-non-extending".into(),
                        format!("path {:?}: {} (seq {}) was accepted although the log's latest entry is {:?}", replay["path"], e.name, e.op.header.seq_num, latest.map(|(s, _)| s)),
                        replay.clone(),
                    ));
                }
            }
            // an accepted operation is in the store afterwards (a prune only removes smaller seqs)
            if accepted && !after.get(&lk).is_some_and(|m| m.get(&e.op.header.seq_num).is_some_and(|r| r.iter().any(|x| x.0 == e.op.hash.to_hex()))) {
                out.violations.push((
                    "accepted-but-not-stored".into(),
                    format!("path {:?}: {} was accepted ({res}) but is not in its log afterwards", replay["path"], e.name),
                    replay.clone(),
                ));
            }
            if let Err((k, w)) = chain_invariant(&after) {
                out.violations.push((format!("chain/{k}"), format!("path {:?} deliver {} ({res}): {w}", replay["path"], e.name), replay.clone()));
            }
            for (k, h) in &hb {
                // a height may only disappear/decrease through pruning of *that* log by an accepted
                // prune op, which never lowers the maximum (it deletes entries below the prune op)
                let now = ha.get(k);
                if now.is_none_or(|n| n < h) {
                    out.violations.push((
                        "height-decreased".into(),
                        format!("path {:?} deliver {}: height of log ({}…,{}) went {h} -> {now:?}", replay["path"], e.name, &k.0[..8], k.1),
                        replay.clone(),
                    ));
                }
            }
        }
        let mut floor = s.floor.clone();
        if accepted && e.op.header.extensions.prune {
            let f = floor.entry(lk.clone()).or_insert(0);
            if e.op.header.seq_num > *f {
                *f = e.op.header.seq_num;
            }
        }
        // was the invariant already broken before this delivery? then the culprit was reported
        // on the transition that broke it
        let broken_before = s.floor.iter().any(|(k, f)| before.get(k).and_then(|m| m.keys().next()).is_some_and(|seq| seq < f));
        if cfg.check_floor && !broken_before {
            for (k, f) in &floor {
                if let Some(m) = after.get(k) {
                    if let Some((seq, rows)) = m.iter().next() {
                        if seq < f {
                            let late_flag = e.op.header.extensions.prune;
                            out.violations.push((
                                format!("below-prune-point/{}", if late_flag { "late-older-prune-op" } else { "late-older-op" }),
                                format!(
                                    "path {:?}: after delivering {} ({res}) log ({}…,{}) stores seq {seq} ({}…) although a prune-flagged operation at seq {f} was ingested before; stored seqs {:?}",
                                    replay["path"], e.name, &k.0[..8], k.1, &rows[0].0[..8], m.keys().collect::<Vec<_>>()
                                ),
                                replay.clone(),
                            ));
                        }
                    }
                }
            }
        }
        let stored = match content_to_indices(u, &after) {
            Ok(i) => i,
            Err(w) => {
                out.violations.push(("unknown-operation-stored".into(), w, replay));
                continue;
            }
        };
        if out.samples.len() < 3 && path.len() >= 2 && (accepted != (ei % 2 == 0)) {
            out.samples.push(json!({"path": replay["path"], "deliver": e.name, "result": res,
                "stored_after": stored.iter().map(|i| u.elems[*i].name.clone()).collect::<Vec<_>>() }));
        }
        succ.push((ei, State { stored, floor }));
    }
    succ
}

pub struct Collected {
    pub property: &'static str,
    pub apply_prune: bool,
    pub universe: usize,
    pub states: Vec<State>,
    pub levels: usize,
    pub transitions: u64,
    pub accepted: u64,
    pub rejected: u64,
    pub duplicates: u64,
    pub mem_compared: u64,
    pub capped: Option<String>,
    pub violations: Vec<(String, String, Value)>,
    pub samples: Vec<Value>,
}

/// BFS to fixpoint; `threads` workers share each level's frontier.
pub fn explore_collect(cfg: &Cfg, u: &Universe, max_levels: usize, threads: usize) -> Collected {
    let mut logs: Vec<(VerifyingKey, L)> = vec![];
    for e in &u.elems {
        let k = (e.op.header.verifying_key, e.log);
        if !logs.contains(&k) {
            logs.push(k);
        }
    }
    let threads = threads.max(1);
    let init = State { stored: BTreeSet::new(), floor: BTreeMap::new() };
    let mut known: HashMap<State, Vec<usize>> = HashMap::new();
    known.insert(init.clone(), vec![]);
    let mut frontier = vec![init];
    let mut col = Collected {
        property: cfg.property, apply_prune: cfg.apply_prune, universe: u.elems.len(), states: vec![], levels: 0,
        transitions: 0, accepted: 0, rejected: 0, duplicates: 0, mem_compared: 0, capped: None, violations: vec![], samples: vec![],
    };
    while !frontier.is_empty() {
        if col.levels >= max_levels {
            col.capped = Some(format!("{}: BFS level cap {max_levels} reached with {} unexpanded states", cfg.property, frontier.len()));
            break;
        }
        let mut chunks: Vec<Vec<(State, Vec<usize>)>> = (0..threads).map(|_| vec![]).collect();
        for (i, s) in frontier.iter().enumerate() {
            chunks[i % threads].push((s.clone(), known[s].clone()));
        }
        let results: Vec<(Out, Vec<(State, Vec<usize>)>)> = std::thread::scope(|sc| {
            let hs: Vec<_> = chunks
                .into_iter()
                .map(|chunk| {
                    let logs = &logs;
                    sc.spawn(move || {
                        let mut out = Out::default();
                        let mut found = vec![];
                        if chunk.is_empty() {
                            return (out, found);
                        }
                        let rt = rt();
                        rt.block_on(async {
                            let sql = SqliteStore::temporary().await;
                            for (s, path) in &chunk {
                                for (ei, n) in expand(cfg, u, logs, &sql, s, path, &mut out).await {
                                    let mut p = path.clone();
                                    p.push(ei);
                                    found.push((n, p));
                                }
                            }
                        });
                        (out, found)
                    })
                })
                .collect();
            hs.into_iter().map(|h| h.join().expect("worker")).collect()
        });
        let mut next = vec![];
        for (o, found) in results {
            col.transitions += o.transitions;
            col.accepted += o.accepted;
            col.rejected += o.rejected;
            col.duplicates += o.duplicates;
            col.mem_compared += o.mem_compared;
            col.samples.extend(o.samples);
            col.violations.extend(o.violations);
            for (s, p) in found {
                if !known.contains_key(&s) {
                    known.insert(s.clone(), p);
                    next.push(s);
                }
            }
        }
        next.sort();
        frontier = next;
        col.levels += 1;
    }
    col.states = known.into_keys().collect();
    col.states.sort();
    col
}

pub fn merge(rep: &mut Report, tag: &str, c: Collected) {
    rep.evals(c.transitions);
    rep.transitions += c.transitions;
    for s in &c.states {
        rep.state(&(c.property, c.apply_prune, tag, s));
        if !s.stored.is_empty() {
            rep.nontrivial(&(c.property, c.apply_prune, tag, s));
        }
    }
    for s in c.samples {
        rep.sample(s);
    }
    for (k, w, r) in c.violations {
        rep.violation(k, w, r);
    }
    if let Some(cap) = &c.capped {
        rep.not_exhaustive(cap);
    }
    rep.part(json!({"part": c.property, "family": tag, "apply_prune": c.apply_prune, "universe": c.universe,
        "reachable_states": c.states.len(), "bfs_levels": c.levels, "deliveries": c.transitions,
        "accepted": c.accepted, "rejected": c.rejected, "duplicates": c.duplicates,
        "memstore_transcripts_compared": c.mem_compared}));
    if c.accepted == 0 || c.rejected == 0 {
        rep.machinery_error(format!("{} {tag}: vacuous exploration (accepted={}, rejected={})", c.property, c.accepted, c.rejected));
    }
}

pub fn explore(rep: &mut Report, cfg: &Cfg, u: &Universe, max_levels: usize) {
    let c = explore_collect(cfg, u, max_levels, rep.args.threads);
    merge(rep, "", c);
}

pub fn run_c03(mut rep: Report) -> i32 {
    let thorough = rep.thorough();
    // Logs are independent of each other in ingest (every decision reads one (author, log)), so the
    // thorough tier explores several two/three-chain universes instead of one large product.
    let specs: Vec<(&str, Spec)> = if thorough {
        vec![
            ("A-two-prune-points", Spec { chains: vec![(0, 0, 5, vec![2, 4]), (0, 1, 3, vec![])], forge_for: vec![0], rewound: false }),
            ("B-prune-at-start", Spec { chains: vec![(1, 0, 4, vec![1]), (1, 1, 3, vec![0, 1])], forge_for: vec![0, 1], rewound: false }),
            ("two-authors-same-log-id", Spec { chains: vec![(0, 0, 4, vec![2]), (1, 0, 3, vec![1]), (0, 1, 2, vec![])], forge_for: vec![0, 1], rewound: false }),
            ("long-plain-log", Spec { chains: vec![(0, 0, 6, vec![]), (1, 1, 2, vec![0])], forge_for: vec![0], rewound: false }),
        ]
    } else {
        vec![
            ("forged-copies", Spec { chains: vec![(0, 0, 4, vec![2]), (0, 1, 2, vec![])], forge_for: vec![0], rewound: false }),
            ("two-authors-prune-points", Spec { chains: vec![(0, 0, 3, vec![]), (1, 0, 3, vec![1]), (1, 1, 2, vec![0])], forge_for: vec![], rewound: false }),
        ]
    };
    rep.rule = format!(
        "explicit-state BFS to fixpoint from the empty store over universes {:?} (chains = (author, log, length, prune-flag positions); per honest op of the forged chains: signed by another key, backlink/seq/flag edited under a stale signature, body replaced, id field edited): in every reachable state every element is delivered to the real ingest_operation on SqliteStore, once with ingest only and once with prune_entries applied after accepted prune-flagged operations; non-trivial = distinct non-empty reachable state (each is expanded with all deliveries)",
        specs.iter().map(|(n, s)| format!("{n}: {:?} forged {:?}", s.chains, s.forge_for)).collect::<Vec<_>>()
    );
    for (name, spec) in &specs {
        let u = build(spec);
        for apply_prune in [false, true] {
            let cfg = Cfg { property: "C03", apply_prune, check_chain: true, check_floor: false };
            let c = explore_collect(&cfg, &u, 64, rep.args.threads);
            merge(&mut rep, name, c);
        }
    }
    if thorough {
        // the quick tier runs this part under C05 only (same exploration, both invariants)
        crate::conc_ingest::run_part(&mut rep, "C03");
    }
    rep.assume("ingest_operation is a function of (store content, operation, arguments): states are rebuilt by replaying a witness delivery path through the real code");
    rep.assume("concurrent deliveries: two ingest calls at a time, interleaved at store-call granularity (one call in flight at a time plus blocked begins)");
    rep.assume("authors do not equivocate (no two validly signed operations of one author with the same seq in one log)");
    rep.assume("log id and prune flag arguments are derived from the header/topic consistently, as the node pipeline does");
    rep.finish()
}

pub fn run_c05(mut rep: Report) -> i32 {
    let thorough = rep.thorough();
    rep.rule = "explicit-state BFS to fixpoint over (stored set, prune floor) for one author/one log of length N with prune flags at every placement of the enumerated family, plus operations of a misbehaving author (validly signed, sequence number below a prune point, backlink to the prune point or its successor, with and without prune flag); every delivery (any operation of the universe, any time, any number of times) goes through the real ingest_operation followed by prune_entries for accepted prune-flagged operations (the pipeline's LogPrune step); invariant in every state: no stored entry below the highest accepted prune point; non-trivial = distinct non-empty reachable state".into();
    // all placements of prune flags on positions 1..len-1 with at least one flag
    let len: u32 = if thorough { 6 } else { 5 };
    let positions: Vec<u32> = (0..len).collect();
    let mut specs: Vec<(String, Universe)> = vec![];
    for mask in 1u32..(1 << positions.len()) {
        let flags: Vec<u32> = positions.iter().enumerate().filter(|(i, _)| mask & (1 << i) != 0).map(|(_, p)| *p).collect();
        if !thorough && flags.len() > 2 {
            continue;
        }
        let tag = format!("len{len}-flags{flags:?}");
        let spec = Spec { chains: vec![(0, 0, len, flags), (0, 1, 2, vec![1])], forge_for: vec![], rewound: true };
        specs.push((tag, build(&spec)));
    }
    let families = specs.len();
    let cfg = Cfg { property: "C05", apply_prune: true, check_chain: false, check_floor: true };
    // families are independent explorations: run them side by side
    let per = (rep.args.threads / families.max(1)).max(1);
    let collected: Vec<(String, Collected)> = std::thread::scope(|sc| {
        let hs: Vec<_> = specs
            .iter()
            .map(|(tag, u)| {
                let cfg = &cfg;
                sc.spawn(move || (tag.clone(), explore_collect(cfg, u, 64, per)))
            })
            .collect();
        hs.into_iter().map(|h| h.join().expect("family")).collect()
    });
    for (tag, c) in collected {
        merge(&mut rep, &tag, c);
    }
    crate::conc_ingest::run_part(&mut rep, "C05");
    rep.set("flag_placements", json!(families));
    rep.assume("prune_entries is applied after every accepted (new or duplicate) prune-flagged operation, exactly as the node pipeline's LogPrune step does");
    rep.assume("authors do not equivocate");
    rep.finish()
}
