//! Concurrent ingest (part of C03 and C05): two `ingest_operation` calls (each followed by the
//! pipeline's prune step) run as two tasks on one real `SqliteStore` (file-backed, 4 connections).
//! Every store call is a schedule point: a `StepStore` wrapper asks the driver for permission
//! before delegating to the real store, so the driver (a chooser decision per step, deviation =
//! switching away from a task that could go on) decides the interleaving.  A `begin` (or a write
//! that goes straight to the pool) granted while the other task holds the transaction permit stays
//! in flight and completes when the holder ends.
//! After both finished, the log invariants of C03 (unique seqs, linked chain) and C05 (nothing
//! stored below the highest accepted prune point) are evaluated on the committed store.
use std::collections::{BTreeMap, VecDeque};
use std::sync::atomic::{AtomicU64, Ordering};
use std::time::Duration;

use explorer::{dfs_par, json, Chooser, DfsCfg, Report};
use p2panda_core::{Hash, LogId, Operation, SeqNum, VerifyingKey};
use p2panda_store::logs::LogStore;
use p2panda_store::operations::OperationStore;
use p2panda_store::topics::TopicStore;
use p2panda_store::{SqliteStore, SqliteStoreBuilder, Transaction};
use p2panda_stream::ingest::ingest_operation;
use tokio::sync::mpsc;

use crate::fixtures::{key, make_op};
use crate::ingest::Ext;

type Op = Operation<Ext>;
type L = u64;
const TOPIC: [u8; 32] = [8; 32];
static DBN: AtomicU64 = AtomicU64::new(0);

#[derive(Debug)]
enum Msg {
    Req(usize, &'static str),
    Done(usize, &'static str),
    Finished(usize, String),
}

#[derive(Clone)]
struct StepStore {
    inner: SqliteStore,
    task: usize,
    to_driver: mpsc::UnboundedSender<Msg>,
    grant: std::rc::Rc<tokio::sync::Mutex<mpsc::UnboundedReceiver<()>>>,
}

impl StepStore {
    async fn turn(&self, name: &'static str) {
        let _ = self.to_driver.send(Msg::Req(self.task, name));
        let _ = self.grant.lock().await.recv().await;
    }
    fn done(&self, name: &'static str) {
        let _ = self.to_driver.send(Msg::Done(self.task, name));
    }
}

macro_rules! step {
    ($self:ident, $name:expr, $call:expr) => {{
        $self.turn($name).await;
        let r = $call.await;
        $self.done($name);
        r
    }};
}

impl Transaction for StepStore {
    type Error = p2panda_store::SqliteError;
    type Permit = <SqliteStore as Transaction>::Permit;
    async fn begin(&self) -> Result<Self::Permit, Self::Error> {
        step!(self, "begin", self.inner.begin())
    }
    async fn rollback(&self, permit: Self::Permit) -> Result<(), Self::Error> {
        step!(self, "rollback", self.inner.rollback(permit))
    }
    async fn commit(&self, permit: Self::Permit) -> Result<(), Self::Error> {
        step!(self, "commit", self.inner.commit(permit))
    }
}

impl OperationStore<Op, Hash> for StepStore {
    type Error = p2panda_store::SqliteError;
    async fn insert_operation<LL: LogId>(&self, id: &Hash, operation: &Op, collection_id: &LL) -> Result<bool, Self::Error> {
        step!(self, "insert_operation", self.inner.insert_operation(id, operation, collection_id))
    }
    async fn get_operation(&self, id: &Hash) -> Result<Option<Op>, Self::Error> {
        step!(self, "get_operation", <SqliteStore as OperationStore<Op, Hash>>::get_operation(&self.inner, id))
    }
    async fn get_operation_tx(&self, id: &Hash) -> Result<Option<Op>, Self::Error> {
        step!(self, "get_operation_tx", <SqliteStore as OperationStore<Op, Hash>>::get_operation_tx(&self.inner, id))
    }
    async fn has_operation(&self, id: &Hash) -> Result<bool, Self::Error> {
        step!(self, "has_operation", <SqliteStore as OperationStore<Op, Hash>>::has_operation(&self.inner, id))
    }
    async fn has_operation_tx(&self, id: &Hash) -> Result<bool, Self::Error> {
        step!(self, "has_operation_tx", <SqliteStore as OperationStore<Op, Hash>>::has_operation_tx(&self.inner, id))
    }
    async fn delete_operation(&self, id: &Hash) -> Result<bool, Self::Error> {
        step!(self, "delete_operation", <SqliteStore as OperationStore<Op, Hash>>::delete_operation(&self.inner, id))
    }
    async fn delete_operation_payload(&self, id: &Hash) -> Result<bool, Self::Error> {
        step!(self, "delete_operation_payload", <SqliteStore as OperationStore<Op, Hash>>::delete_operation_payload(&self.inner, id))
    }
}

impl LogStore<Op, VerifyingKey, L, SeqNum, Hash> for StepStore {
    type Error = p2panda_store::SqliteError;
    async fn get_latest_entry(&self, author: &VerifyingKey, log_id: &L) -> Result<Option<Op>, Self::Error> {
        step!(self, "get_latest_entry", <SqliteStore as LogStore<Op, VerifyingKey, L, SeqNum, Hash>>::get_latest_entry(&self.inner, author, log_id))
    }
    async fn get_latest_entry_tx(&self, author: &VerifyingKey, log_id: &L) -> Result<Option<Op>, Self::Error> {
        step!(self, "get_latest_entry_tx", <SqliteStore as LogStore<Op, VerifyingKey, L, SeqNum, Hash>>::get_latest_entry_tx(&self.inner, author, log_id))
    }
    async fn get_log_heights(&self, author: &VerifyingKey, logs: &[L]) -> Result<Option<BTreeMap<L, SeqNum>>, Self::Error> {
        step!(self, "get_log_heights", <SqliteStore as LogStore<Op, VerifyingKey, L, SeqNum, Hash>>::get_log_heights(&self.inner, author, logs))
    }
    async fn get_log_size(&self, author: &VerifyingKey, log_id: &L, after: Option<SeqNum>, until: Option<SeqNum>) -> Result<Option<(u32, u32)>, Self::Error> {
        step!(self, "get_log_size", <SqliteStore as LogStore<Op, VerifyingKey, L, SeqNum, Hash>>::get_log_size(&self.inner, author, log_id, after, until))
    }
    async fn get_log_entries(&self, author: &VerifyingKey, log_id: &L, after: Option<SeqNum>, until: Option<SeqNum>) -> Result<Option<Vec<(Op, Vec<u8>)>>, Self::Error> {
        step!(self, "get_log_entries", <SqliteStore as LogStore<Op, VerifyingKey, L, SeqNum, Hash>>::get_log_entries(&self.inner, author, log_id, after, until))
    }
    async fn prune_entries(&self, author: &VerifyingKey, log_id: &L, until: &SeqNum) -> Result<u64, Self::Error> {
        step!(self, "prune_entries", <SqliteStore as LogStore<Op, VerifyingKey, L, SeqNum, Hash>>::prune_entries(&self.inner, author, log_id, until))
    }
}

impl TopicStore<[u8; 32], VerifyingKey, L> for StepStore {
    type Error = p2panda_store::SqliteError;
    async fn associate(&self, topic: &[u8; 32], author: &VerifyingKey, data_id: &L) -> Result<bool, Self::Error> {
        step!(self, "associate", <SqliteStore as TopicStore<[u8; 32], VerifyingKey, L>>::associate(&self.inner, topic, author, data_id))
    }
    async fn remove(&self, topic: &[u8; 32], author: &VerifyingKey, data_id: &L) -> Result<bool, Self::Error> {
        step!(self, "remove", <SqliteStore as TopicStore<[u8; 32], VerifyingKey, L>>::remove(&self.inner, topic, author, data_id))
    }
    async fn resolve(&self, topic: &[u8; 32]) -> Result<BTreeMap<VerifyingKey, Vec<L>>, Self::Error> {
        step!(self, "resolve", <SqliteStore as TopicStore<[u8; 32], VerifyingKey, L>>::resolve(&self.inner, topic))
    }
}

/// What the pipeline does with one event: ingest, then prune if the operation is flagged and
/// ingest did not fail.
async fn deliver(store: StepStore, op: Op) -> String {
    let flag = op.header.extensions.prune;
    let r = ingest_operation::<StepStore, Op, L, Ext, [u8; 32]>(&store, &op, &0u64, &TOPIC, flag).await;
    let txt = match &r {
        Ok(b) => format!("Ok({b})"),
        Err(e) => format!("Err({e})"),
    };
    if flag && r.is_ok() {
        let _ = <StepStore as LogStore<Op, VerifyingKey, L, SeqNum, Hash>>::prune_entries(&store, &op.header.verifying_key, &0u64, &op.header.seq_num).await;
    }
    txt
}

#[derive(Debug, Default, Clone)]
struct Obs {
    pair: (usize, usize),
    initial: usize,
    trace: Vec<String>,
    results: Vec<String>,
    stored: Vec<(u32, String, Option<String>, bool, String)>, // seq, id, backlink, flag, header hash
    problem: Option<(String, String)>,
}

const STEP_TIMEOUT: Duration = Duration::from_secs(30);

async fn execute(ch: &Chooser, chain: &[Op], initials: &[Vec<usize>], path: &str) -> Obs {
    let mut obs = Obs::default();
    let init = ch.choose_free(initials.len(), "initial-store");
    let a = ch.choose_free(chain.len(), "first-operation");
    let b = ch.choose_free(chain.len(), "second-operation");
    obs.pair = (a, b);
    obs.initial = init;
    let url = format!("sqlite://{path}");
    let store = match SqliteStoreBuilder::new().database_url(&url).create_database(false).run_default_migrations(false).min_connections(1).max_connections(4).build().await {
        Ok(s) => s,
        Err(e) => {
            obs.problem = Some(("machinery".into(), format!("cannot open database: {e}")));
            return obs;
        }
    };
    // initial content through the real path, sequentially
    for &i in &initials[init] {
        let op = &chain[i];
        let flag = op.header.extensions.prune;
        if ingest_operation::<SqliteStore, Op, L, Ext, [u8; 32]>(&store, op, &0u64, &TOPIC, flag).await.is_ok() && flag {
            let _ = <SqliteStore as LogStore<Op, VerifyingKey, L, SeqNum, Hash>>::prune_entries(&store, &op.header.verifying_key, &0u64, &op.header.seq_num).await;
        }
    }
    let (to_driver, mut from_tasks) = mpsc::unbounded_channel::<Msg>();
    let mut grants = vec![];
    for (t, i) in [a, b].into_iter().enumerate() {
        let (g_tx, g_rx) = mpsc::unbounded_channel();
        grants.push(g_tx);
        let ss = StepStore { inner: store.clone(), task: t, to_driver: to_driver.clone(), grant: std::rc::Rc::new(tokio::sync::Mutex::new(g_rx)) };
        let op = chain[i].clone();
        let td = to_driver.clone();
        tokio::task::spawn_local(async move {
            let r = deliver(ss, op).await;
            let _ = td.send(Msg::Finished(t, r));
        });
    }
    let mut waiting: BTreeMap<usize, &'static str> = BTreeMap::new();
    let mut finished = [false, false];
    let mut results = vec![String::new(), String::new()];
    let mut inflight: VecDeque<usize> = VecDeque::new();
    let mut holder: Option<usize> = None;
    let mut last: Option<usize> = None;

    macro_rules! recv {
        () => {{
            match tokio::time::timeout(STEP_TIMEOUT, from_tasks.recv()).await {
                Ok(Some(m)) => m,
                Ok(None) => {
                    obs.problem = Some(("machinery".into(), "tasks gone".into()));
                    return obs;
                }
                Err(_) => {
                    obs.problem = Some(("hang".into(), format!("no progress for {STEP_TIMEOUT:?}; trace {:?}", obs.trace)));
                    return obs;
                }
            }
        }};
    }
    // Let a task run until it asks for its next step or finishes.
    macro_rules! settle {
        ($t:expr) => {{
            loop {
                match recv!() {
                    Msg::Req(t, name) => {
                        waiting.insert(t, name);
                        if t == $t {
                            break;
                        }
                    }
                    Msg::Finished(t, r) => {
                        finished[t] = true;
                        results[t] = r;
                        if holder == Some(t) {
                            holder = None;
                        }
                        if t == $t {
                            break;
                        }
                    }
                    Msg::Done(t, name) => {
                        inflight.retain(|x| *x != t);
                        if name == "begin" {
                            holder = Some(t);
                        }
                        if name == "commit" || name == "rollback" {
                            holder = None;
                        }
                    }
                }
            }
        }};
    }
    settle!(0);
    if !waiting.contains_key(&1) && !finished[1] {
        settle!(1);
    }
    loop {
        let mut enabled: Vec<usize> = waiting.keys().copied().filter(|t| !inflight.contains(t)).collect();
        if enabled.is_empty() {
            if finished.iter().all(|f| *f) {
                break;
            }
            // only in-flight begins left: the holder finished without commit (error path); its
            // dropped permit is released asynchronously, the blocked begin completes on its own
            if let Some(&t) = inflight.front() {
                settle!(t);
                continue;
            }
            obs.problem = Some(("machinery".into(), format!("nothing enabled, not finished; trace {:?}", obs.trace)));
            return obs;
        }
        if let Some(l) = last {
            if let Some(p) = enabled.iter().position(|x| *x == l) {
                enabled.remove(p);
                enabled.insert(0, l);
            }
        }
        let t = enabled[ch.choose(enabled.len(), "task")];
        last = Some(t);
        let name = waiting.remove(&t).unwrap();
        // `begin` parks on the transaction permit; a write that goes straight to the pool
        // (prune_entries, delete_operation_payload) parks on SQLite's write lock until the open
        // transaction of the other task ends (busy handler).  Both stay in flight meanwhile.
        let blocked = matches!(name, "begin" | "prune_entries" | "delete_operation_payload") && holder.is_some() && holder != Some(t);
        obs.trace.push(format!("t{t}:{name}{}", if blocked { "(in-flight)" } else { "" }));
        let _ = grants[t].send(());
        if blocked {
            inflight.push_back(t);
            continue;
        }
        settle!(t);
        // the permit became free: the oldest blocked begin completes now; wait for it so that the
        // set of enabled tasks never depends on timing
        while holder.is_none() {
            let Some(&u) = inflight.front() else { break };
            settle!(u);
        }
    }
    obs.results = results;
    // read the committed store through a second store on the same file
    store.pool().close().await;
    let reader = match SqliteStoreBuilder::new().database_url(&url).create_database(false).run_default_migrations(false).min_connections(1).max_connections(1).build().await {
        Ok(s) => s,
        Err(e) => {
            obs.problem = Some(("machinery".into(), format!("reader: {e}")));
            return obs;
        }
    };
    let author = chain[0].header.verifying_key;
    match <SqliteStore as LogStore<Op, VerifyingKey, L, SeqNum, Hash>>::get_log_entries(&reader, &author, &0u64, None, None).await {
        Ok(entries) => {
            for (op, _) in entries.unwrap_or_default() {
                obs.stored.push((op.header.seq_num, op.hash.to_hex()[..8].to_string(), op.header.backlink.map(|b| b.to_hex()), op.header.extensions.prune, op.header.hash().to_hex()));
            }
        }
        Err(e) => obs.problem = Some(("machinery".into(), format!("read back: {e}"))),
    }
    reader.pool().close().await;
    obs
}

pub fn run_part(rep: &mut Report, property: &'static str) {
    let thorough = rep.thorough();
    let k = key(0);
    // one log: 0,1,2p,3,4p (+5 in thorough)
    let len = if thorough { 6 } else { 5 };
    let mut chain: Vec<Op> = vec![];
    for s in 0..len {
        let op = make_op(&k, s, chain.last().map(|o| o.hash), Some(format!("c-{s}").as_bytes()), Ext { prune: s == 2 || s == 4 });
        chain.push(op);
    }
    let initials: Vec<Vec<usize>> = if thorough { vec![vec![], vec![0], vec![0, 1], vec![0, 1, 2], vec![0, 1, 2, 3]] } else { vec![vec![], vec![0, 1], vec![0, 1, 2, 3]] };
    let max_dev = if thorough { 3 } else { 2 };
    let dir = if std::path::Path::new("/dev/shm").is_dir() { "/dev/shm".to_string() } else { std::env::temp_dir().display().to_string() };
    let pid = std::process::id();
    let template = format!("{dir}/vh-ci-{pid}-template.sqlite");
    {
        let rt = tokio::runtime::Builder::new_current_thread().enable_all().build().expect("rt");
        let r = rt.block_on(async {
            let s = SqliteStoreBuilder::new().database_url(&format!("sqlite://{template}")).min_connections(1).max_connections(1).build().await?;
            sqlx::query("PRAGMA wal_checkpoint(TRUNCATE)").execute(s.pool()).await.ok();
            s.pool().close().await;
            Ok::<(), p2panda_store::SqliteError>(())
        });
        if let Err(e) = r {
            rep.machinery_error(format!("cannot create template database: {e}"));
            return;
        }
    }
    let cfg = DfsCfg { max_dev, threads: rep.args.threads, wall: Duration::from_secs(if thorough { 1200 } else { 120 }), ..Default::default() };
    let mut outs: Vec<(Vec<u32>, usize, Obs)> = vec![];
    let stats = dfs_par(
        &cfg,
        |ch| {
            let n = DBN.fetch_add(1, Ordering::SeqCst);
            let path = format!("{dir}/vh-ci-{pid}-{n}.sqlite");
            if let Err(e) = std::fs::copy(&template, &path) {
                return Obs { problem: Some(("machinery".into(), format!("copy template: {e}"))), ..Default::default() };
            }
            let rt = tokio::runtime::Builder::new_current_thread().enable_all().build().expect("rt");
            let local = tokio::task::LocalSet::new();
            let obs = local.block_on(&rt, execute(ch, &chain, &initials, &path));
            drop(local);
            drop(rt);
            for suffix in ["", "-wal", "-shm", "-journal"] {
                let _ = std::fs::remove_file(format!("{path}{suffix}"));
            }
            obs
        },
        |ch, obs| outs.push((ch.vector(), ch.deviations(), obs)),
    );
    for suffix in ["", "-wal", "-shm", "-journal"] {
        let _ = std::fs::remove_file(format!("{template}{suffix}"));
    }
    rep.absorb_dfs("concurrent-ingest", &stats, max_dev);
    for (vector, devs, obs) in outs {
        let replay = json!({"part": "concurrent-ingest", "vector": vector, "initial": format!("{:?}", initials.get(obs.initial)), "operations": [obs.pair.0, obs.pair.1], "trace": obs.trace});
        rep.state(&("ci", obs.initial, obs.pair, &obs.trace));
        if let Some((k, w)) = &obs.problem {
            if k == "machinery" {
                rep.machinery_error(w.clone());
            } else {
                rep.violation(format!("concurrent-ingest/{k}"), w.clone(), replay);
            }
            continue;
        }
        if devs > 0 && obs.pair.0 != obs.pair.1 {
            rep.nontrivial(&("ci", obs.initial, obs.pair, &obs.trace));
        }
        rep.outcome(&("ci", &obs.results, obs.stored.iter().map(|s| s.0).collect::<Vec<_>>()));
        let seqs: Vec<u32> = obs.stored.iter().map(|s| s.0).collect();
        let desc = format!("store {:?}, concurrent deliveries of seq {} and seq {} (results {:?}), schedule {:?}: log reads {seqs:?}", initials[obs.initial], obs.pair.0, obs.pair.1, obs.results, obs.trace);
        // unique seqs
        let mut sorted = seqs.clone();
        sorted.dedup();
        if sorted.len() != seqs.len() {
            rep.violation("concurrent-ingest/duplicate-seq", desc.clone(), replay.clone());
        }
        // linked chain
        for (i, e) in obs.stored.iter().enumerate() {
            if e.0 > 0 && !e.3 {
                let pred = if i > 0 { Some(&obs.stored[i - 1]) } else { None };
                match pred {
                    Some(p) if p.0 + 1 == e.0 && e.2.as_deref() == Some(p.4.as_str()) => {}
                    _ => {
                        rep.violation("concurrent-ingest/gap-without-prune-flag", desc.clone(), replay.clone());
                    }
                }
            }
        }
        // prune floor: the highest prune-flagged operation that is stored or was accepted
        let mut floor = 0;
        for (t, r) in obs.results.iter().enumerate() {
            let i = if t == 0 { obs.pair.0 } else { obs.pair.1 };
            if r == "Ok(true)" && chain[i].header.extensions.prune {
                floor = floor.max(chain[i].header.seq_num);
            }
        }
        for &i in &initials[obs.initial] {
            if chain[i].header.extensions.prune {
                floor = floor.max(chain[i].header.seq_num);
            }
        }
        if let Some(lowest) = seqs.first() {
            if *lowest < floor {
                rep.violation(format!("concurrent-ingest/below-prune-point{}", if property == "C05" { "" } else { "" }), desc.clone(), replay.clone());
            }
        }
        if rep.want_sample() && devs > 1 && obs.pair.0 != obs.pair.1 {
            rep.sample(json!({"initial": format!("{:?}", initials[obs.initial]), "deliveries": [obs.pair.0, obs.pair.1], "results": obs.results, "schedule": obs.trace, "log_after": seqs}));
        }
    }
}
