//! C06 State-vector diff returns exactly what the remote is missing.
//! E-ENUM: every pair of height maps over a small author/log/height domain, on the real
//! `p2panda_core::logs::compare` and `Cursor::compare`.
use std::collections::BTreeMap;

use explorer::{json, Report};
use p2panda_core::cursor::Cursor;
use p2panda_core::logs::{compare, LogHeights, LogRanges};
use serde::{Deserialize, Serialize};

#[derive(Clone, Debug, PartialEq, Eq, PartialOrd, Ord, Hash, Serialize, Deserialize)]
pub struct A(pub u8);
impl p2panda_core::identity::Author for A {}

/// Slot value: 0 = log absent, k = height k-1.  `author_mode`: per author an extra bit "author
/// present with an empty log map".
fn decode(mut code: u64, authors: u8, logs: u8, heights: u64) -> LogHeights<A, u8> {
    let mut m: LogHeights<A, u8> = BTreeMap::new();
    for a in 0..authors {
        let present_empty = code % 2 == 1;
        code /= 2;
        let mut lm = BTreeMap::new();
        for l in 0..logs {
            let v = code % (heights + 1);
            code /= heights + 1;
            if v > 0 {
                lm.insert(l, (v - 1) as u32);
            }
        }
        if !lm.is_empty() || present_empty {
            m.insert(A(a), lm);
        }
    }
    m
}

fn flat<T: Clone>(m: &BTreeMap<A, BTreeMap<u8, T>>) -> BTreeMap<(u8, u8), T> {
    let mut out = BTreeMap::new();
    for (a, lm) in m {
        for (l, v) in lm {
            out.insert((a.0, *l), v.clone());
        }
    }
    out
}

/// Reference diff, pointwise.
fn reference(
    local: &BTreeMap<(u8, u8), u32>,
    remote: &BTreeMap<(u8, u8), u32>,
) -> BTreeMap<(u8, u8), (Option<u32>, Option<u32>)> {
    let mut out = BTreeMap::new();
    for (k, lh) in local {
        match remote.get(k) {
            None => {
                out.insert(*k, (None, Some(*lh)));
            }
            Some(rh) if rh < lh => {
                out.insert(*k, (Some(*rh), Some(*lh)));
            }
            _ => {}
        }
    }
    out
}

fn check_pair(
    local: &LogHeights<A, u8>,
    remote: &LogHeights<A, u8>,
) -> Result<(bool, LogRanges<A, u8>), (String, String)> {
    let diff = compare(local, remote);
    let fl = flat(local);
    let fr = flat(remote);
    let got = flat(&diff);
    let want = reference(&fl, &fr);
    if got != want {
        return Err((
            "diff-mismatch".into(),
            format!("compare(local={fl:?}, remote={fr:?}) = {got:?}, reference = {want:?}"),
        ));
    }
    // No empty-handed author entry for an author the remote is level with is *allowed* by the
    // text (it contains no (author, log) pair); only pairs are compared.
    // Merge law: applying the upper ends to the remote gives the pointwise maximum.
    let mut merged = fr.clone();
    for (k, (_, until)) in &got {
        let Some(u) = until else {
            return Err(("open-upper-end".into(), format!("range for {k:?} has no upper end")));
        };
        merged.insert(*k, *u);
    }
    let mut max = fr.clone();
    for (k, v) in &fl {
        let e = max.entry(*k).or_insert(*v);
        if *e < *v {
            *e = *v;
        }
    }
    if merged != max {
        return Err((
            "merge-law".into(),
            format!("local={fl:?} remote={fr:?}: merged {merged:?} != pointwise max {max:?}"),
        ));
    }
    // Cursor::compare(other) = what the cursor (as remote) is missing from `other`.
    let cur = Cursor::new("c", remote.clone());
    if flat(&cur.compare(local)) != want {
        return Err((
            "cursor-compare".into(),
            format!("Cursor(remote={fr:?}).compare(local={fl:?}) differs from reference {want:?}"),
        ));
    }
    Ok((!want.is_empty(), diff))
}

pub fn run(mut rep: Report) -> i32 {
    // quick: 2 authors × 2 logs × heights {absent,0,1,2} (+ empty-author bit) = 1024 maps → 1 M pairs
    // thorough: 3 authors × 2 logs × heights {absent,0,1,2}, no empty-author bit for the third
    let (authors, logs, heights) = if rep.thorough() { (3u8, 2u8, 3u64) } else { (2u8, 2u8, 3u64) };
    let per_author = 2 * (heights + 1).pow(logs as u32);
    let total = per_author.pow(authors as u32);
    rep.rule = format!(
        "every ordered pair (local, remote) of height maps over {authors} authors x {logs} logs x heights {{absent,0..{}}} plus an 'author present with empty log map' bit; non-trivial = pair whose reference diff is non-empty, distinct by (local,remote) code",
        heights - 1
    );
    let maps: Vec<LogHeights<A, u8>> = (0..total).map(|c| decode(c, authors, logs, heights)).collect();
    let threads = rep.args.threads.max(1);
    let chunk = (total as usize).div_ceil(threads);
    let results: Vec<(u64, u64, Vec<(String, String, u64, u64)>, Vec<explorer::Value>)> =
        std::thread::scope(|s| {
            let hs: Vec<_> = (0..threads)
                .map(|t| {
                    let maps = &maps;
                    s.spawn(move || {
                        let lo = t * chunk;
                        let hi = ((t + 1) * chunk).min(maps.len());
                        let (mut n, mut nt) = (0u64, 0u64);
                        let mut viol = vec![];
                        let mut samples = vec![];
                        for i in lo..hi {
                            for j in 0..maps.len() {
                                n += 1;
                                match check_pair(&maps[i], &maps[j]) {
                                    Ok((nontrivial, diff)) => {
                                        if nontrivial {
                                            nt += 1;
                                            if samples.len() < 2 && t == 0 && i % 97 == 5 {
                                                samples.push(json!({
                                                    "local": format!("{:?}", flat(&maps[i])),
                                                    "remote": format!("{:?}", flat(&maps[j])),
                                                    "diff": format!("{:?}", flat(&diff)),
                                                }));
                                            }
                                        }
                                    }
                                    Err((k, w)) => {
                                        if viol.len() < 50 {
                                            viol.push((k, w, i as u64, j as u64));
                                        }
                                    }
                                }
                            }
                        }
                        (n, nt, viol, samples)
                    })
                })
                .collect();
            hs.into_iter().map(|h| h.join().unwrap()).collect()
        });
    let mut nontrivial = 0u64;
    for (n, nt, viol, samples) in results {
        rep.evals(n);
        rep.transitions += n;
        nontrivial += nt;
        for s in samples {
            rep.sample(s);
        }
        for (k, w, i, j) in viol {
            rep.violation(k.clone(), w, json!({"part": "pairs", "local_code": i, "remote_code": j, "class": k}));
        }
    }
    // Every pair is a distinct (local, remote) code, so the non-trivial ones are distinct too.
    rep.nontrivial_count(nontrivial);
    rep.set("nontrivial_pairs", json!(nontrivial));
    for c in 0..total {
        rep.state(&c);
    }
    rep.set("maps", json!(total));
    rep.assume("heights above 2 behave like 2 (compare only uses <, == on u32)");
    rep.finish()
}
