//! C01 Only authentic, well-formed operations are ingested.
//!
//! E-ENUM on the real `ingest_operation` + `SqliteStore`:
//!  part A  every header over a small field domain, validly or invalidly signed, with every body
//!          variant, on an empty store and on a store holding the predecessor: acceptance ⇒ an
//!          independent re-statement of the acceptance conditions holds; rejection ⇒ store dump
//!          unchanged;
//!  part B  for every base operation (valid, would be accepted) every single-field mutation (stale
//!          signature / re-signed by a foreign key) and every single-bit flip of the encoded header
//!          bytes (decoded the way the sync protocol decodes them) and of the body: never accepted,
//!          store unchanged; the unmutated operation is accepted (positive control).
use explorer::{json, Report, Value};
use p2panda_core::cbor::decode_cbor;
use p2panda_core::{Body, Hash, Header, Operation, SigningKey};
use p2panda_store::SqliteStore;
use p2panda_stream::ingest::ingest_operation;
use serde::{Deserialize, Serialize};

use crate::c08::reset;
use crate::fixtures::{catch_async, key, make_op, rt};

#[derive(Clone, Debug, Default, PartialEq, Eq, Serialize, Deserialize)]
pub struct Ext {
    #[serde(rename = "k")]
    pub kind: u8,
    #[serde(rename = "n")]
    pub note: String,
}

type L = u64;
const TOPIC: [u8; 32] = [3; 32];

async fn dump(sql: &SqliteStore) -> Vec<String> {
    let mut out = vec![];
    let rows: Vec<(String, Vec<u8>, i64, Vec<u8>, Option<Vec<u8>>)> =
        sqlx::query_as("SELECT hash, log_id, seq_num, header, body FROM operations_v1 ORDER BY hash")
            .fetch_all(sql.pool())
            .await
            .expect("dump operations");
    for r in rows {
        out.push(format!("op {} {:?} {} {} {:?}", r.0, r.1, r.2, explorer::h64(&r.3), r.4.map(|b| explorer::h64(&b))));
    }
    let rows: Vec<(Vec<u8>, String, Vec<u8>)> = sqlx::query_as("SELECT topic, author, data_id FROM topics_v1 ORDER BY topic, author, data_id")
        .fetch_all(sql.pool())
        .await
        .expect("dump topics");
    for r in rows {
        out.push(format!("topic {:?} {} {:?}", explorer::h64(&r.0), r.1, r.2));
    }
    out
}

async fn ingest<E: p2panda_core::Extensions>(sql: &SqliteStore, op: &Operation<E>, log: L) -> String {
    match catch_async(ingest_operation::<SqliteStore, Operation<E>, L, E, [u8; 32]>(sql, op, &log, &TOPIC, false)).await {
        Ok(Ok(b)) => format!("Ok({b})"),
        Ok(Err(e)) => format!("Err({e})"),
        Err(p) => format!("PANIC({p})"),
    }
}

// ---------------------------------------------------------------------------------------------
// Part A: arbitrary field values
// ---------------------------------------------------------------------------------------------

#[derive(Clone, Copy, Debug, PartialEq, Eq, Hash)]
enum Sig {
    Valid,
    Missing,
    ByOtherKey,
    OfOtherHeader,
}

struct CaseA {
    version: u16,
    size_sel: u8,  // 0 = zero, 1 = correct, 2 = correct + 1
    hash_sel: u8,  // 0 = none, 1 = correct, 2 = other
    seq: u32,
    backlink_sel: u8, // 0 = none, 1 = predecessor, 2 = other
    body_sel: u8,  // 0 = none, 1 = the body, 2 = another body of the same length, 3 = empty body
    sig: Sig,
    with_pred: bool,
}

fn part_a(rep: &mut Report, sql: &SqliteStore, rt: &tokio::runtime::Runtime) {
    let k = key(0);
    let other = key(1);
    let body = Body::new(b"the body");
    let body2 = Body::new(b"THE BODY");
    let pred = make_op(&k, 0, None, Some(b"genesis"), ());
    let sigs = [Sig::Valid, Sig::Missing, Sig::ByOtherKey, Sig::OfOtherHeader];
    let mut accepted_n = 0u64;
    for version in [0u16, 1, 2] {
        for size_sel in 0..3u8 {
            for hash_sel in 0..3u8 {
                for seq in [0u32, 1, 2] {
                    for backlink_sel in 0..3u8 {
                        for body_sel in 0..4u8 {
                            for sig in sigs {
                                for with_pred in [false, true] {
                                    let c = CaseA { version, size_sel, hash_sel, seq, backlink_sel, body_sel, sig, with_pred };
                                    accepted_n += run_case_a(rep, sql, rt, &k, &other, &body, &body2, &pred, &c) as u64;
                                }
                            }
                        }
                    }
                }
            }
        }
    }
    // Forgery without any signing key: a small-order ("weak") public key together with the
    // signature (R = identity, S = 0) satisfies the non-strict Ed25519 verification equation for
    // every message.  Nobody signed these headers, so they must never be accepted.
    let small_order: [(&str, [u8; 32]); 4] = [
        ("identity", { let mut b = [0u8; 32]; b[0] = 1; b }),
        ("order-2", { let mut b = [0xffu8; 32]; b[0] = 0xec; b[31] = 0x7f; b }),
        ("order-4", [0u8; 32]),
        ("order-8", [0x26, 0xe8, 0x95, 0x8f, 0xc2, 0xb2, 0x27, 0xb0, 0x45, 0xc3, 0xf4, 0x89, 0xf2, 0xef, 0x98, 0xf0, 0xd5, 0xdf, 0xac, 0x05, 0xd3, 0xc6, 0x33, 0x39, 0xb1, 0x38, 0x02, 0x88, 0x6d, 0x53, 0xfc, 0x05]),
    ];
    for (kn, kb) in small_order {
        let Ok(vk) = p2panda_core::VerifyingKey::from_bytes(&kb) else {
            rep.outcome(&("weak-key-not-decodable", kn));
            continue;
        };
        for (rn, rb) in small_order {
            for seq in 0..8u32 {
                // several messages per key: for keys of order > 1 the equation holds for 1/order of them
                let mut sig = [0u8; 64];
                sig[..32].copy_from_slice(&rb);
                let header = Header::<()> {
                    version: 1,
                    verifying_key: vk,
                    signature: Some(p2panda_core::Signature::from_bytes(&sig)),
                    payload_size: 0,
                    payload_hash: None,
                    seq_num: 0,
                    backlink: None,
                    extensions: (),
                };
                // vary the message through the payload fields
                let body = Body::new(format!("weak-{seq}").as_bytes());
                let header = Header::<()> { payload_size: body.size(), payload_hash: Some(body.hash()), ..header };
                let op = Operation { hash: header.hash(), header, body: Some(body) };
                let (res, before, after) = rt.block_on(async {
                    reset(sql).await;
                    let before = dump(sql).await;
                    let res = ingest(sql, &op, 1).await;
                    (res, before, dump(sql).await)
                });
                rep.eval();
                rep.transition();
                let desc = format!("weak-key-forgery key={kn} R={rn} message#{seq}");
                rep.state(&desc);
                rep.nontrivial(&desc);
                if res.starts_with("Ok(") {
                    rep.violation("accepted-invalid/signature/weak-key-forgery", format!("{desc}: a header nobody signed (small-order public key, signature R||0) was accepted: {res}"), json!({"part": "A-weak", "case": desc}));
                } else if before != after {
                    rep.violation("rejected-but-store-changed", format!("{desc}: {res} but the store changed"), json!({"part": "A-weak", "case": desc}));
                }
            }
        }
    }
    rep.set("part_a_accepted", json!(accepted_n));
    if accepted_n == 0 {
        rep.machinery_error("C01 part A: no header was accepted (vacuous)".into());
    }
}

#[allow(clippy::too_many_arguments)]
fn run_case_a(
    rep: &mut Report,
    sql: &SqliteStore,
    rt: &tokio::runtime::Runtime,
    k: &SigningKey,
    other: &SigningKey,
    body: &Body,
    body2: &Body,
    pred: &Operation<()>,
    c: &CaseA,
) -> bool {
    let payload_size = match c.size_sel {
        0 => 0,
        1 => body.size(),
        _ => body.size() + 1,
    };
    let payload_hash = match c.hash_sel {
        0 => None,
        1 => Some(body.hash()),
        _ => Some(Hash::digest(b"unrelated")),
    };
    let backlink = match c.backlink_sel {
        0 => None,
        1 => Some(pred.hash),
        _ => Some(Hash::digest(b"not the predecessor")),
    };
    let mut header = Header::<()> {
        version: c.version,
        verifying_key: k.verifying_key(),
        signature: None,
        payload_size,
        payload_hash,
        seq_num: c.seq,
        backlink,
        extensions: (),
    };
    match c.sig {
        Sig::Valid => header.sign(k),
        Sig::Missing => {}
        Sig::ByOtherKey => {
            header.sign(other);
        }
        Sig::OfOtherHeader => {
            let mut h2 = header.clone();
            h2.payload_size = header.payload_size.wrapping_add(7);
            h2.sign(k);
            header.signature = h2.signature;
        }
    }
    let attached = match c.body_sel {
        0 => None,
        1 => Some(body.clone()),
        2 => Some(body2.clone()),
        _ => Some(Body::new(b"")),
    };
    let op = Operation { hash: header.hash(), header: header.clone(), body: attached.clone() };
    // independent statement of the acceptance conditions (from the property text)
    let sig_ok = c.sig == Sig::Valid;
    let version_ok = c.version == 1;
    let payload_consistent = (payload_hash.is_some()) == (payload_size > 0);
    let link_consistent = (backlink.is_some()) == (c.seq > 0);
    let body_ok = match &attached {
        None => true,
        Some(b) => b.size() == payload_size && (b.size() == 0 || payload_hash == Some(b.hash())),
    };
    let log_ok = if c.with_pred { c.seq == 1 && backlink == Some(pred.hash) } else { c.seq == 0 };
    let conditions = sig_ok && version_ok && payload_consistent && link_consistent && body_ok && log_ok;

    let (res, before, after) = rt.block_on(async {
        reset(sql).await;
        if c.with_pred {
            ingest(sql, pred, 1).await;
        }
        let before = dump(sql).await;
        let res = ingest(sql, &op, 1).await;
        let after = dump(sql).await;
        (res, before, after)
    });
    rep.eval();
    rep.transition();
    let accepted = res.starts_with("Ok(");
    let desc = format!(
        "version={} size_sel={} hash_sel={} seq={} backlink_sel={} body_sel={} sig={:?} predecessor_stored={}",
        c.version, c.size_sel, c.hash_sel, c.seq, c.backlink_sel, c.body_sel, c.sig, c.with_pred
    );
    let replay = json!({"part": "A", "case": desc});
    rep.state(&desc);
    // non-trivial: exactly one condition is violated (the sharpest rejections) or all hold
    let broken = [sig_ok, version_ok, payload_consistent, link_consistent, body_ok, log_ok].iter().filter(|b| !**b).count();
    if broken <= 1 {
        rep.nontrivial(&desc);
    }
    if res.starts_with("PANIC") {
        rep.violation("ingest-panics", format!("{desc}: {res}"), replay);
        return false;
    }
    if accepted && !conditions {
        let which = if !sig_ok {
            "signature"
        } else if !version_ok {
            "version"
        } else if !payload_consistent {
            "payload-info"
        } else if !link_consistent {
            "backlink-seq"
        } else if !body_ok {
            "body"
        } else {
            "log-integrity"
        };
        rep.violation(format!("accepted-invalid/{which}"), format!("{desc}: ingest returned {res} although the {which} condition does not hold"), replay);
    } else if !accepted && after != before {
        rep.violation("rejected-but-store-changed", format!("{desc}: {res} but the store dump changed"), replay);
    } else if accepted && rep.want_sample() && c.with_pred {
        rep.sample(json!({"part": "A", "case": desc, "result": res}));
    }
    rep.outcome(&(accepted, conditions));
    accepted
}

// ---------------------------------------------------------------------------------------------
// Part B: single mutations of valid operations
// ---------------------------------------------------------------------------------------------

struct Mutant<E> {
    name: String,
    class: &'static str,
    /// None = undecodable bytes (rejected at the decoding layer)
    op: Option<Operation<E>>,
}

fn field_mutants<E: p2panda_core::Extensions + PartialEq>(
    base: &Operation<E>,
    author: &SigningKey,
    foreign: &SigningKey,
    alt_ext: &[E],
    donor_sig: p2panda_core::Signature,
) -> Vec<Mutant<E>> {
    let mut v: Vec<Mutant<E>> = vec![];
    let push = |v: &mut Vec<Mutant<E>>, name: String, class: &'static str, h: Header<E>, body: Option<Body>, resign: bool| {
        // (1) stale signature left in place
        v.push(Mutant { name: format!("{name}/stale-signature"), class, op: Some(Operation { hash: h.hash(), header: h.clone(), body: body.clone() }) });
        if resign {
            // (2) re-signed by a foreign key while still claiming the author
            let mut h2 = h.clone();
            let claimed = h2.verifying_key;
            h2.sign(foreign);
            h2.verifying_key = claimed;
            v.push(Mutant { name: format!("{name}/re-signed-by-foreign-key"), class, op: Some(Operation { hash: h2.hash(), header: h2, body }) });
        }
    };
    let h = &base.header;
    for ver in [0u16, 2, 65535] {
        let mut m = h.clone();
        m.version = ver;
        push(&mut v, format!("version={ver}"), "version", m, base.body.clone(), true);
    }
    {
        let mut m = h.clone();
        m.verifying_key = foreign.verifying_key();
        push(&mut v, "verifying_key=foreign".into(), "verifying_key", m, base.body.clone(), false);
    }
    {
        let mut m = h.clone();
        m.signature = None;
        v.push(Mutant { name: "signature=none".into(), class: "signature", op: Some(Operation { hash: m.hash(), header: m, body: base.body.clone() }) });
        let mut m = h.clone();
        m.signature = Some(donor_sig);
        v.push(Mutant { name: "signature=of-another-operation".into(), class: "signature", op: Some(Operation { hash: m.hash(), header: m, body: base.body.clone() }) });
        let mut m = h.clone();
        m.sign(foreign);
        m.verifying_key = h.verifying_key;
        v.push(Mutant { name: "signature=by-foreign-key".into(), class: "signature", op: Some(Operation { hash: m.hash(), header: m, body: base.body.clone() }) });
    }
    for (n, sz) in [("+1", h.payload_size.wrapping_add(1)), ("-1", h.payload_size.wrapping_sub(1)), ("0", 0)] {
        if sz == h.payload_size {
            continue;
        }
        let mut m = h.clone();
        m.payload_size = sz;
        push(&mut v, format!("payload_size{n}"), "payload_size", m, base.body.clone(), true);
    }
    for (n, ph) in [("none", None), ("other", Some(Hash::digest(b"other payload")))] {
        if ph == h.payload_hash {
            continue;
        }
        let mut m = h.clone();
        m.payload_hash = ph;
        push(&mut v, format!("payload_hash={n}"), "payload_hash", m, base.body.clone(), true);
    }
    for (n, s) in [("+1", h.seq_num + 1), ("-1", h.seq_num.wrapping_sub(1))] {
        if h.seq_num == 0 && n == "-1" {
            continue;
        }
        let mut m = h.clone();
        m.seq_num = s;
        push(&mut v, format!("seq_num{n}"), "seq_num", m, base.body.clone(), true);
    }
    for (n, b) in [("none", None), ("other", Some(Hash::digest(b"other backlink")))] {
        if b == h.backlink {
            continue;
        }
        let mut m = h.clone();
        m.backlink = b;
        push(&mut v, format!("backlink={n}"), "backlink", m, base.body.clone(), true);
    }
    for (i, e) in alt_ext.iter().enumerate() {
        if *e == h.extensions {
            continue;
        }
        let mut m = h.clone();
        m.extensions = e.clone();
        push(&mut v, format!("extensions=alt{i}"), "extensions", m, base.body.clone(), true);
    }
    // body edits (header untouched)
    match &base.body {
        Some(b) => {
            let bytes = b.to_bytes();
            for pos in 0..bytes.len() {
                for bit in [0u8, 7] {
                    let mut nb = bytes.clone();
                    nb[pos] ^= 1 << bit;
                    v.push(Mutant { name: format!("body[{pos}]^bit{bit}"), class: "body", op: Some(Operation { hash: base.hash, header: h.clone(), body: Some(Body::new(&nb)) }) });
                }
            }
            let mut nb = bytes.clone();
            nb.push(0);
            v.push(Mutant { name: "body+1byte".into(), class: "body", op: Some(Operation { hash: base.hash, header: h.clone(), body: Some(Body::new(&nb)) }) });
            let mut nb = bytes.clone();
            nb.pop();
            v.push(Mutant { name: "body-1byte".into(), class: "body", op: Some(Operation { hash: base.hash, header: h.clone(), body: Some(Body::new(&nb)) }) });
        }
        None => {
            v.push(Mutant { name: "body=unexpected".into(), class: "body", op: Some(Operation { hash: base.hash, header: h.clone(), body: Some(Body::new(b"surprise")) }) });
        }
    }
    // (a body that is simply *withheld* is not tampering: headers travel without bodies by design)
    let _ = author;
    v
}

fn byte_mutants<E: p2panda_core::Extensions + PartialEq>(base: &Operation<E>, bits: &[u8], counters: &mut (u64, u64)) -> Vec<Mutant<E>> {
    let bytes = base.header.to_bytes();
    let mut v = vec![];
    for pos in 0..bytes.len() {
        for &bit in bits {
            let mut nb = bytes.clone();
            nb[pos] ^= 1 << bit;
            // decoded exactly as the sync protocol does: decode the header, id = hash of its re-encoding
            match explorer::catch(|| decode_cbor::<Header<E>, _>(&nb[..])) {
                Ok(Ok(h)) => {
                    if h == base.header {
                        // the flipped bytes decode to an equal header value: not a tampered operation
                        counters.1 += 1;
                        continue;
                    }
                    v.push(Mutant { name: format!("header[{pos}]^bit{bit}"), class: "header-byte", op: Some(Operation { hash: h.hash(), header: h, body: base.body.clone() }) });
                }
                Ok(Err(_)) => {
                    counters.0 += 1;
                    v.push(Mutant { name: format!("header[{pos}]^bit{bit}"), class: "header-byte-undecodable", op: None });
                }
                Err(p) => v.push(Mutant { name: format!("header[{pos}]^bit{bit}/decoder-panic:{p}"), class: "decoder-panic", op: None }),
            }
        }
    }
    v
}

fn run_base<E: p2panda_core::Extensions + PartialEq>(
    rep: &mut Report,
    sql: &SqliteStore,
    rt: &tokio::runtime::Runtime,
    tag: &str,
    pred: Option<&Operation<E>>,
    base: &Operation<E>,
    mutants: Vec<Mutant<E>>,
) {
    // positive control
    let ctl = rt.block_on(async {
        reset(sql).await;
        if let Some(p) = pred {
            ingest(sql, p, 1).await;
        }
        ingest(sql, base, 1).await
    });
    rep.eval();
    if ctl != "Ok(true)" {
        rep.machinery_error(format!("C01 positive control failed for base {tag}: {ctl}"));
        return;
    }
    for m in mutants {
        rep.eval();
        rep.transition();
        rep.state(&(tag, &m.name));
        let replay = json!({"part": "B", "base": tag, "mutation": m.name});
        if m.class == "decoder-panic" {
            rep.violation("decoder-panics", format!("base {tag}: {}", m.name), replay);
            continue;
        }
        let Some(op) = m.op else {
            rep.outcome(&"undecodable");
            continue;
        };
        rep.nontrivial(&(tag, &m.name));
        let (res, before, after) = rt.block_on(async {
            reset(sql).await;
            if let Some(p) = pred {
                ingest(sql, p, 1).await;
            }
            let before = dump(sql).await;
            let res = ingest(sql, &op, 1).await;
            let after = dump(sql).await;
            (res, before, after)
        });
        rep.outcome(&res);
        // same mutant offered again once the genuine operation is stored (duplicate path)
        let (res_dup, before_dup, after_dup) = rt.block_on(async {
            reset(sql).await;
            if let Some(p) = pred {
                ingest(sql, p, 1).await;
            }
            ingest(sql, base, 1).await;
            let before = dump(sql).await;
            let res = ingest(sql, &op, 1).await;
            (res, before, dump(sql).await)
        });
        rep.eval();
        rep.transition();
        if res_dup.starts_with("Ok(") {
            rep.violation(
                format!("tampered-accepted-as-duplicate/{}", m.class),
                format!("base {tag}: with the genuine operation already stored, mutation {} is answered {res_dup} (accepted as a valid duplicate) instead of being rejected", m.name),
                json!({"part": "B-duplicate", "base": tag, "mutation": m.name}),
            );
        } else if before_dup != after_dup {
            rep.violation("rejected-but-store-changed", format!("base {tag}: mutation {} (genuine op stored) rejected but the store changed", m.name), json!({"part": "B-duplicate", "base": tag, "mutation": m.name}));
        }
        if res.starts_with("Ok(") {
            rep.violation(
                format!("tampered-accepted/{}", m.class),
                format!("base {tag}: mutation {} was accepted by ingest ({res})", m.name),
                replay,
            );
        } else if res.starts_with("PANIC") {
            rep.violation("ingest-panics", format!("base {tag}: mutation {}: {res}", m.name), replay);
        } else if before != after {
            rep.violation("rejected-but-store-changed", format!("base {tag}: mutation {} was rejected ({res}) but the store dump changed", m.name), replay);
        } else if rep.want_sample() && m.class != "header-byte" {
            rep.sample(json!({"part": "B", "base": tag, "mutation": m.name, "result": res}));
        }
    }
}

pub fn run(mut rep: Report) -> i32 {
    let thorough = rep.thorough();
    rep.rule = "part A: every header over version{0,1,2} x payload_size{0,n,n+1} x payload_hash{none,ok,other} x seq{0,1,2} x backlink{none,pred,other} x body{none,ok,other,empty} x signature{valid,missing,foreign key,of another header} x store{empty,predecessor stored}: accepted => all stated conditions hold, rejected => store dump unchanged; part B: per valid base operation (3 authors x {no body, body} x seq {0,1} x extension types {(), struct}) every single-field mutation (stale signature and re-signed by a foreign key), every single-bit flip (bits 0 and 7; all 8 bits in the thorough tier) of the CBOR header decoded like the sync protocol does, every bit-0/bit-7 flip and +-1 byte of the body: never accepted, store unchanged; non-trivial = decodable mutant actually offered to ingest (part B) / header with at most one broken condition (part A)".into();
    let rt = rt();
    let sql = rt.block_on(SqliteStore::temporary());
    part_a(&mut rep, &sql, &rt);

    let bits: Vec<u8> = if thorough { (0..8).collect() } else { vec![0, 7] };
    let mut counters = (0u64, 0u64);
    let authors = if thorough { 3 } else { 2 };
    for a in 0..authors as u8 {
        let k = key(a);
        let foreign = key(a + 5);
        for with_body in [false, true] {
            for seq in [0u32, 1] {
                // extension type ()
                {
                    let pred = make_op(&k, 0, None, Some(b"p"), ());
                    let base = if seq == 0 {
                        make_op(&k, 0, None, if with_body { Some(b"payload bytes") } else { None }, ())
                    } else {
                        make_op(&k, 1, Some(pred.hash), if with_body { Some(b"payload bytes") } else { None }, ())
                    };
                    let donor = make_op(&k, 9, Some(Hash::digest(b"d")), None, ()).header.signature.unwrap();
                    let mut ms = field_mutants(&base, &k, &foreign, &[], donor);
                    ms.extend(byte_mutants(&base, &bits, &mut counters));
                    run_base(&mut rep, &sql, &rt, &format!("a{a}-unit-ext-body{with_body}-seq{seq}"), if seq == 1 { Some(&pred) } else { None }, &base, ms);
                }
                // custom extension struct
                {
                    let ext = Ext { kind: 1, note: "hello".into() };
                    let pred = make_op(&k, 0, None, Some(b"p"), ext.clone());
                    let base = if seq == 0 {
                        make_op(&k, 0, None, if with_body { Some(b"payload bytes") } else { None }, ext.clone())
                    } else {
                        make_op(&k, 1, Some(pred.hash), if with_body { Some(b"payload bytes") } else { None }, ext.clone())
                    };
                    let donor = make_op(&k, 9, Some(Hash::digest(b"d")), None, ext.clone()).header.signature.unwrap();
                    let alts = vec![Ext { kind: 2, note: "hello".into() }, Ext { kind: 1, note: "hellp".into() }, Ext::default()];
                    let mut ms = field_mutants(&base, &k, &foreign, &alts, donor);
                    ms.extend(byte_mutants(&base, &bits, &mut counters));
                    run_base(&mut rep, &sql, &rt, &format!("a{a}-struct-ext-body{with_body}-seq{seq}"), if seq == 1 { Some(&pred) } else { None }, &base, ms);
                }
            }
        }
    }
    rep.set("header_byte_flips_undecodable", json!(counters.0));
    rep.set("header_byte_flips_decoding_to_equal_header", json!(counters.1));
    rep.assume("tampering = change without the author's signing key; a flipped encoding that decodes to an equal header value is the same operation, not a tampered one");
    rep.assume("a withheld body is not tampering (headers travel without bodies by design); changing only Operation.hash (not a header field, signature or body) is outside the property text");
    rep.assume("node-level delivery (Processed vs ProcessingFailed) is covered by C04's pipeline harness, this check drives ingest_operation directly");
    let _: Option<Value> = None;
    rep.finish()
}
