//! C10 Store transactions are atomic and serialized under any abort point.
//!
//! E-RT: real `SqliteStore` on a file-backed database (4 pooled connections), k writer tasks on a
//! current-thread tokio runtime.  A *step scheduler* grants one store call at a time; which writer
//! steps next is a chooser decision (deviation = switching away from a writer that could go on),
//! the script of every writer (number of writes, how the transaction ends, whether a first
//! `begin` is cancelled at its first Pending) is enumerated exhaustively.  A `begin` granted while
//! another writer holds the permit stays in flight and completes when the holder ends.  The
//! oracle is schedule-independent: after all writers finished and a fresh transaction went
//! through, the database — read through a *second* store opened on the same file, i.e. committed
//! data only — equals applying exactly the committed scripts in commit order.
use std::collections::{BTreeMap, BTreeSet, VecDeque};
use std::sync::atomic::{AtomicU64, Ordering};
use std::time::Duration;

use explorer::{dfs_par, json, Chooser, DfsCfg, Report};
use p2panda_core::cursor::Cursor;
use p2panda_core::logs::LogHeights;
use p2panda_core::VerifyingKey;
use p2panda_store::cursors::CursorStore;
use p2panda_store::topics::TopicStore;
use p2panda_store::{SqliteStore, SqliteStoreBuilder, Transaction};
use tokio::sync::mpsc;

use crate::fixtures::{catch_async, key};

const TOPIC: [u8; 32] = [1; 32];
static DBN: AtomicU64 = AtomicU64::new(0);

#[derive(Clone, Copy, Debug, PartialEq, Eq, Hash)]
enum End {
    Commit,
    Rollback,
    DropPermit,
    /// a failing statement inside the transaction, then early return (`?`) dropping the permit
    ErrThenDrop,
    /// a write of this transaction is still in flight (issued by a helper that shares the
    /// transaction) when the permit is dropped; the write is then driven to completion
    DropDuringWrite,
    /// poll `commit` once and drop the future if it is Pending
    CancelCommit,
    /// `commit` is dropped at its first Pending while a write of the same transaction is in flight
    /// (the commit waits for the transaction slot the write holds); nothing was committed
    CancelCommitDuringWrite,
}
const ENDS: [End; 7] = [End::Commit, End::Rollback, End::DropPermit, End::ErrThenDrop, End::DropDuringWrite, End::CancelCommit, End::CancelCommitDuringWrite];

#[derive(Clone, Copy, Debug, PartialEq, Eq, Hash)]
struct Script {
    cancel_first_begin: bool,
    writes: usize,
    end: End,
}

#[derive(Clone, Copy, Debug, PartialEq, Eq)]
enum Step {
    CancelledBegin,
    Begin,
    Write(usize),
    Finish(End),
}

fn steps(s: &Script) -> Vec<Step> {
    let mut v = vec![];
    if s.cancel_first_begin {
        v.push(Step::CancelledBegin);
    }
    v.push(Step::Begin);
    for j in 0..s.writes {
        v.push(Step::Write(j));
    }
    v.push(Step::Finish(s.end));
    v
}

fn cursor_for(w: usize) -> Cursor<VerifyingKey, u64> {
    let mut st: LogHeights<VerifyingKey, u64> = BTreeMap::new();
    st.entry(key(0).verifying_key()).or_default().insert(0, w as u32 + 1);
    Cursor::new("c10", st)
}

/// Result a writer reports for a step.
#[derive(Debug, Clone, PartialEq, Eq)]
enum StepResult {
    Ok,
    /// commit future dropped at first Pending (in doubt) / completed at first poll
    CommitCancelled { completed: bool },
    BeginCancelled { completed: bool },
    Failed(String),
    Panicked(String),
}

async fn writer(
    id: usize,
    script: Script,
    store: SqliteStore,
    mut grant: mpsc::UnboundedReceiver<()>,
    done: mpsc::UnboundedSender<(usize, StepResult)>,
) {
    let mut permit = None;
    for st in steps(&script) {
        if grant.recv().await.is_none() {
            return;
        }
        let r = catch_async(async {
            match st {
                Step::CancelledBegin => {
                    let mut fut = Box::pin(store.begin());
                    match futures_util::poll!(fut.as_mut()) {
                        std::task::Poll::Ready(Ok(p)) => {
                            // completed at first poll: roll it back properly so the script can go on
                            drop(fut);
                            let _ = store.rollback(p).await;
                            StepResult::BeginCancelled { completed: true }
                        }
                        std::task::Poll::Ready(Err(e)) => StepResult::Failed(e.to_string()),
                        std::task::Poll::Pending => {
                            drop(fut);
                            StepResult::BeginCancelled { completed: false }
                        }
                    }
                }
                Step::Begin => match store.begin().await {
                    Ok(p) => {
                        permit = Some(p);
                        StepResult::Ok
                    }
                    Err(e) => StepResult::Failed(e.to_string()),
                },
                Step::Write(j) => {
                    let a = key(id as u8 + 10).verifying_key();
                    let r1 = <SqliteStore as TopicStore<[u8; 32], VerifyingKey, u64>>::associate(&store, &TOPIC, &a, &(j as u64)).await;
                    let r2 = <SqliteStore as CursorStore<VerifyingKey, u64>>::set_cursor(&store, &cursor_for(id)).await;
                    match (r1, r2) {
                        (Ok(_), Ok(_)) => StepResult::Ok,
                        (Err(e), _) | (_, Err(e)) => StepResult::Failed(e.to_string()),
                    }
                }
                Step::Finish(end) => {
                    let p = permit.take();
                    let Some(p) = p else { return StepResult::Failed("no permit".into()) };
                    match end {
                        End::Commit => match store.commit(p).await {
                            Ok(()) => StepResult::Ok,
                            Err(e) => StepResult::Failed(e.to_string()),
                        },
                        End::Rollback => match store.rollback(p).await {
                            Ok(()) => StepResult::Ok,
                            Err(e) => StepResult::Failed(e.to_string()),
                        },
                        End::DropPermit => {
                            drop(p);
                            StepResult::Ok
                        }
                        End::ErrThenDrop => {
                            // what `tx!` does when the body fails: `?` returns, the permit is dropped
                            let r: Result<(), p2panda_store::SqliteError> = store
                                .tx(async |tx| {
                                    sqlx::query("INSERT INTO no_such_table (x) VALUES (1)")
                                        .execute(&mut **tx)
                                        .await
                                        .map_err(p2panda_store::SqliteError::Sqlite)?;
                                    Ok(())
                                })
                                .await;
                            drop(p);
                            if r.is_err() { StepResult::Ok } else { StepResult::Failed("failing statement succeeded".into()) }
                        }
                        End::DropDuringWrite => {
                            let a = key(id as u8 + 10).verifying_key();
                            let mut fut = Box::pin(<SqliteStore as TopicStore<[u8; 32], VerifyingKey, u64>>::associate(&store, &TOPIC, &a, &99u64));
                            match futures_util::poll!(fut.as_mut()) {
                                std::task::Poll::Ready(_) => drop(p),
                                std::task::Poll::Pending => {
                                    // the query holds the transaction; the permit goes away now
                                    drop(p);
                                    let _ = fut.await;
                                }
                            }
                            StepResult::Ok
                        }
                        End::CancelCommitDuringWrite => {
                            // a statement of the same transaction that changes nothing (so the
                            // expected rows do not depend on whether it ran): a read through tx()
                            let probe = p2panda_core::Hash::digest(b"c10 in-flight statement");
                            let mut write = Box::pin(<SqliteStore as p2panda_store::operations::OperationStore<p2panda_core::Operation<()>, p2panda_core::Hash>>::has_operation_tx(&store, &probe));
                            let write_pending = matches!(futures_util::poll!(write.as_mut()), std::task::Poll::Pending);
                            let mut fut = Box::pin(store.commit(p));
                            let r = match futures_util::poll!(fut.as_mut()) {
                                std::task::Poll::Ready(_) => StepResult::CommitCancelled { completed: true },
                                std::task::Poll::Pending => {
                                    drop(fut);
                                    StepResult::CommitCancelled { completed: false }
                                }
                            };
                            if write_pending {
                                let _ = write.await;
                            }
                            r
                        }
                        End::CancelCommit => {
                            let mut fut = Box::pin(store.commit(p));
                            match futures_util::poll!(fut.as_mut()) {
                                std::task::Poll::Ready(_) => StepResult::CommitCancelled { completed: true },
                                std::task::Poll::Pending => {
                                    drop(fut);
                                    StepResult::CommitCancelled { completed: false }
                                }
                            }
                        }
                    }
                }
            }
        })
        .await;
        let r = match r {
            Ok(r) => r,
            Err(p) => StepResult::Panicked(p),
        };
        if done.send((id, r)).is_err() {
            return;
        }
    }
}

#[derive(Debug, Default, Clone)]
struct Obs {
    scripts: Vec<Script>,
    trace: Vec<String>,
    /// writers whose commit certainly took effect, in completion order
    committed: Vec<usize>,
    /// writers whose commit was cancelled mid-flight (either outcome allowed), with their position
    in_doubt: Vec<(usize, usize)>,
    /// every commit attempt in completion order: (writer, certainly committed)
    order: Vec<(usize, bool)>,
    problem: Option<(String, String)>,
    final_topics: BTreeSet<(usize, u64)>,
    final_cursor: Option<u32>,
    settle_ok: bool,
    max_conn: u32,
}

const STEP_TIMEOUT: Duration = Duration::from_secs(20);

async fn execute(ch: &Chooser, k: usize, max_writes: usize, path: &str, max_conn: u32) -> Obs {
    // With several pooled connections the fate of a cancelled commit cannot be awaited (its COMMIT
    // sits in the queue of a connection nobody owns any more), so that end kind is only explored
    // with a single connection, where the settle transaction queues behind it.
    let ends: &[End] = if max_conn == 1 { &ENDS } else { &ENDS[..5] };
    let mut obs = Obs::default();
    // scripts: enumerated exhaustively (free choices)
    for _ in 0..k {
        let cancel_first_begin = ch.choose_free(2, "cancel-first-begin") == 1;
        let writes = ch.choose_free(max_writes + 1, "writes");
        let end = ends[ch.choose_free(ends.len(), "end")];
        obs.scripts.push(Script { cancel_first_begin, writes, end });
    }
    let url = format!("sqlite://{path}");
    let store = match SqliteStoreBuilder::new().database_url(&url).create_database(false).run_default_migrations(false).min_connections(1).max_connections(max_conn).build().await {
        Ok(s) => s,
        Err(e) => {
            obs.problem = Some(("machinery".into(), format!("cannot open database: {e}")));
            return obs;
        }
    };
    let (done_tx, mut done_rx) = mpsc::unbounded_channel();
    let mut grants = vec![];
    let mut remaining: Vec<VecDeque<Step>> = vec![];
    for (id, s) in obs.scripts.iter().enumerate() {
        let (g_tx, g_rx) = mpsc::unbounded_channel();
        grants.push(g_tx);
        remaining.push(steps(s).into());
        tokio::task::spawn_local(writer(id, *s, store.clone(), g_rx, done_tx.clone()));
    }
    let mut holder: Option<usize> = None;
    let mut inflight: VecDeque<usize> = VecDeque::new();
    let mut last: Option<usize> = None;

    macro_rules! await_done {
        ($w:expr, $what:expr) => {{
            match tokio::time::timeout(STEP_TIMEOUT, done_rx.recv()).await {
                Ok(Some((id, r))) if id == $w => r,
                Ok(Some((id, r))) if inflight.contains(&id) && holder.is_some() => {
                    obs.problem = Some((
                        "two-transactions-open".into(),
                        format!("writer {id}'s begin() returned {r:?} while writer {:?} still holds its transaction (waiting for writer {} step {:?}); trace {:?}", holder, $w, $what, obs.trace),
                    ));
                    return obs;
                }
                Ok(Some((id, r))) => {
                    obs.problem = Some(("machinery".into(), format!("expected completion of writer {} but writer {id} reported {r:?}", $w)));
                    return obs;
                }
                Ok(None) => {
                    obs.problem = Some(("machinery".into(), "writers gone".into()));
                    return obs;
                }
                Err(_) => {
                    let class = match $what {
                        Step::Begin | Step::CancelledBegin => "begin-never-returns",
                        Step::Write(_) => "write-never-returns",
                        Step::Finish(_) => "end-never-returns",
                    };
                    obs.problem = Some((format!("hang/{class}"), format!("writer {} step {:?} did not return within {STEP_TIMEOUT:?}; trace {:?}", $w, $what, obs.trace)));
                    return obs;
                }
            }
        }};
    }

    loop {
        let mut enabled: Vec<usize> = (0..k).filter(|w| !remaining[*w].is_empty() && !inflight.contains(w)).collect();
        if enabled.is_empty() {
            if !inflight.is_empty() {
                obs.problem = Some(("machinery".into(), "in-flight begin but nobody left to release".into()));
            }
            break;
        }
        if let Some(l) = last {
            if let Some(p) = enabled.iter().position(|x| *x == l) {
                enabled.remove(p);
                enabled.insert(0, l);
            }
        }
        let w = enabled[ch.choose(enabled.len(), "writer")];
        last = Some(w);
        let st = remaining[w].pop_front().unwrap();
        let blocked = holder.is_some() && holder != Some(w);
        obs.trace.push(format!("w{w}:{st:?}{}", if blocked && st == Step::Begin { "(in-flight)" } else { "" }));
        let _ = grants[w].send(());
        if st == Step::Begin && blocked {
            inflight.push_back(w);
            continue;
        }
        let r = await_done!(w, st);
        match (&st, &r) {
            (_, StepResult::Panicked(p)) => {
                obs.problem = Some(("panic".into(), format!("writer {w} step {st:?} panicked: {p}; trace {:?}", obs.trace)));
                return obs;
            }
            (_, StepResult::Failed(e)) => {
                obs.problem = Some((format!("step-failed/{}", match st { Step::Begin | Step::CancelledBegin => "begin", Step::Write(_) => "write", Step::Finish(_) => "end" }), format!("writer {w} step {st:?} failed: {e}; trace {:?}", obs.trace)));
                return obs;
            }
            (Step::Begin, _) => holder = Some(w),
            (Step::CancelledBegin, StepResult::BeginCancelled { completed }) => {
                obs.trace.push(format!("  begin-cancel completed-at-first-poll={completed}"));
            }
            (Step::Finish(end), r) => {
                match (end, r) {
                    (End::Commit, _) | (End::CancelCommit | End::CancelCommitDuringWrite, StepResult::CommitCancelled { completed: true }) => {
                        obs.committed.push(w);
                        obs.order.push((w, true));
                    }
                    (End::CancelCommit | End::CancelCommitDuringWrite, _) => {
                        obs.in_doubt.push((w, obs.committed.len()));
                        obs.order.push((w, false));
                    }
                    _ => {}
                }
                holder = None;
                if let Some(w2) = inflight.pop_front() {
                    let r2 = await_done!(w2, Step::Begin);
                    if r2 != StepResult::Ok {
                        obs.problem = Some(("step-failed/begin".into(), format!("in-flight begin of writer {w2} returned {r2:?}; trace {:?}", obs.trace)));
                        return obs;
                    }
                    obs.trace.push(format!("  w{w2}:Begin completes"));
                    holder = Some(w2);
                }
            }
            _ => {}
        }
    }
    // settle: a fresh transaction must go through
    let settle = tokio::time::timeout(STEP_TIMEOUT, async {
        let p = store.begin().await.map_err(|e| e.to_string())?;
        store.commit(p).await.map_err(|e| e.to_string())
    })
    .await;
    match settle {
        Ok(Ok(())) => obs.settle_ok = true,
        Ok(Err(e)) => {
            obs.problem = Some(("later-transaction-fails".into(), format!("a fresh begin/commit after all writers finished failed: {e}; trace {:?}", obs.trace)));
            return obs;
        }
        Err(_) => {
            obs.problem = Some(("hang/later-begin-never-returns".into(), format!("a fresh begin/commit after all writers finished did not return; trace {:?}", obs.trace)));
            return obs;
        }
    }
    // Let every connection of the writers' pool finish what it still has queued (a cancelled
    // commit keeps running in its sqlx worker) before looking at the file.
    store.pool().close().await;
    // read committed data through a second store on the same file
    let reader = match SqliteStoreBuilder::new().database_url(&url).create_database(false).run_default_migrations(false).min_connections(1).max_connections(1).build().await {
        Ok(s) => s,
        Err(e) => {
            obs.problem = Some(("machinery".into(), format!("cannot open reader: {e}")));
            return obs;
        }
    };
    match <SqliteStore as TopicStore<[u8; 32], VerifyingKey, u64>>::resolve(&reader, &TOPIC).await {
        Ok(m) => {
            for (a, ls) in m {
                let w = (0..k).find(|w| key(*w as u8 + 10).verifying_key() == a).unwrap_or(99);
                for l in ls {
                    obs.final_topics.insert((w, l));
                }
            }
        }
        Err(e) => obs.problem = Some(("machinery".into(), format!("reader resolve: {e}"))),
    }
    match <SqliteStore as CursorStore<VerifyingKey, u64>>::get_cursor(&reader, "c10").await {
        Ok(c) => obs.final_cursor = c.and_then(|c| c.log_height(&key(0).verifying_key(), &0).copied()),
        Err(e) => obs.problem = Some(("machinery".into(), format!("reader cursor: {e}"))),
    }
    // debugging aid: re-read after a pause; a difference means the first read raced a late commit
    if std::env::var("C10_VECTOR").is_ok() {
        tokio::time::sleep(Duration::from_millis(100)).await;
        let t2 = <SqliteStore as TopicStore<[u8; 32], VerifyingKey, u64>>::resolve(&reader, &TOPIC).await.map(|m| m.values().map(|v| v.len()).sum::<usize>());
        let c2 = <SqliteStore as CursorStore<VerifyingKey, u64>>::get_cursor(&reader, "c10").await.map(|c| c.is_some());
        obs.trace.push(format!("reread topics={t2:?} cursor={c2:?} (first: {} / {})", obs.final_topics.len(), obs.final_cursor.is_some()));
    }
    reader.pool().close().await;
    obs
}

/// All final states the committed / in-doubt sets allow.
fn allowed(obs: &Obs) -> Vec<(BTreeSet<(usize, u64)>, Option<u32>)> {
    let mut out = vec![];
    let n = obs.in_doubt.len();
    for mask in 0..(1u32 << n) {
        let mut topics = BTreeSet::new();
        let mut cursor = None;
        // `order` lists every commit attempt (certain or in doubt) in completion order
        for (w, certain) in &obs.order {
            let counts = *certain || {
                let bi = obs.in_doubt.iter().position(|(x, _)| x == w).unwrap();
                mask & (1 << bi) != 0
            };
            if !counts {
                continue;
            }
            for j in 0..obs.scripts[*w].writes {
                topics.insert((*w, j as u64));
            }
            if obs.scripts[*w].writes > 0 {
                cursor = Some(*w as u32 + 1);
            }
        }
        if !out.contains(&(topics.clone(), cursor)) {
            out.push((topics, cursor));
        }
    }
    out
}

pub fn run(mut rep: Report) -> i32 {
    let thorough = rep.thorough();
    // (writers, max writes per transaction, deviation bound)
    let configs: Vec<(usize, usize, usize)> = if thorough { vec![(2, 2, usize::MAX), (3, 1, 2)] } else { vec![(2, 1, 1)] };
    rep.rule = format!(
        "k writers on one file-backed SqliteStore, configurations (k, max writes, max switches away from a runnable writer) = {configs:?}; every script (first begin cancelled at its first Pending or not) x (0..=max writes: topic association + cursor overwrite) x (end in {{commit, rollback, drop permit, failing statement then drop, permit dropped while a write of the same transaction is in flight, commit future dropped at first Pending, commit future dropped at first Pending while a statement of the same transaction is in flight (both on the single-connection pool only)}}) for every writer, pools of 1 and 4 connections; every grant order of the writers' store calls within the deviation bound; oracle after settle: committed data read through a second store = exactly the committed scripts in commit order (a cancelled commit may count or not, atomically), every begin returns, no panic; non-trivial = execution with at least one aborted and one committed transaction and at least one deviation"
    );
    let dir = if std::path::Path::new("/dev/shm").is_dir() { "/dev/shm".to_string() } else { std::env::temp_dir().display().to_string() };
    let pid = std::process::id();
    // a migrated, empty database file is prepared once and copied for every execution
    let template = format!("{dir}/vh-c10-{pid}-template.sqlite");
    {
        let rt = tokio::runtime::Builder::new_current_thread().enable_all().build().expect("rt");
        let r = rt.block_on(async {
            let s = SqliteStoreBuilder::new().database_url(&format!("sqlite://{template}")).min_connections(1).max_connections(1).build().await?;
            sqlx::query("PRAGMA wal_checkpoint(TRUNCATE)").execute(s.pool()).await.ok();
            s.pool().close().await;
            Ok::<(), p2panda_store::SqliteError>(())
        });
        if let Err(e) = r {
            rep.machinery_error(format!("cannot create template database: {e}"));
            return rep.finish();
        }
    }
    if let Ok(v) = std::env::var("C10_VECTOR") {
        let (k, max_writes, _) = configs[0];
        // debugging aid: run one choice vector many times and print the outcome histogram
        let vector: Vec<u32> = v.split(',').filter_map(|x| x.trim().parse().ok()).collect();
        let mut hist: BTreeMap<String, u32> = BTreeMap::new();
        for i in 0..200 {
            let ch = Chooser::new(vector.clone());
            let path = format!("{dir}/vh-c10-{pid}-dbg{i}.sqlite");
            std::fs::copy(&template, &path).unwrap();
            let rt = tokio::runtime::Builder::new_current_thread().enable_all().build().expect("rt");
            let local = tokio::task::LocalSet::new();
            let obs = local.block_on(&rt, execute(&ch, k, max_writes, &path, 1));
            for suffix in ["", "-wal", "-shm", "-journal"] {
                let _ = std::fs::remove_file(format!("{path}{suffix}"));
            }
            *hist.entry(format!("{:?} {:?} problem={:?}", obs.final_topics, obs.final_cursor, obs.problem)).or_default() += 1;
            if i == 0 || obs.final_topics.is_empty() { println!("{:?}\n{:?}", obs.scripts, obs.trace); }
        }
        println!("{hist:#?}");
        return 0;
    }
    let mut results: Vec<(Vec<u32>, usize, Obs)> = vec![];
    for (k, max_writes, max_dev) in configs.iter().cloned() {
    let cfg = DfsCfg { max_dev, threads: rep.args.threads, wall: Duration::from_secs(if thorough { 1200 } else { 240 }), ..Default::default() };
    for max_conn in [1u32, 4] {
        let mut part: Vec<(Vec<u32>, usize, Obs)> = vec![];
        let stats = dfs_par(
            &cfg,
            |ch| {
                let n = DBN.fetch_add(1, Ordering::SeqCst);
                let path = format!("{dir}/vh-c10-{pid}-{n}.sqlite");
                if let Err(e) = std::fs::copy(&template, &path) {
                    let mut o = Obs::default();
                    o.problem = Some(("machinery".into(), format!("cannot copy template database: {e}")));
                    return o;
                }
                // a panic of the store outside a writer step (settling transaction, final reads,
                // a dropped in-flight call) is an outcome of this execution, not of the harness
                let mut obs = match explorer::catch(|| {
                    let rt = tokio::runtime::Builder::new_current_thread().enable_all().build().expect("rt");
                    let local = tokio::task::LocalSet::new();
                    // caught *inside* the runtime: the store's permit spawns a task from its Drop,
                    // which must not happen while the runtime itself is being unwound
                    let obs = local.block_on(&rt, catch_async(execute(ch, k, max_writes, &path, max_conn)));
                    {
                        // unfinished writer tasks own permits whose Drop spawns: keep a context
                        let _ctx = rt.enter();
                        drop(local);
                    }
                    drop(rt);
                    obs
                }) {
                    Ok(Ok(o)) => o,
                    Ok(Err(msg)) | Err(msg) => {
                        let mut o = Obs::default();
                        o.problem = Some(("store-panicked".into(), format!("the store panicked while the harness settled or read the database after the explored steps: {msg}")));
                        o
                    }
                };
                obs.max_conn = max_conn;
                for suffix in ["", "-wal", "-shm", "-journal"] {
                    let _ = std::fs::remove_file(format!("{path}{suffix}"));
                }
                obs
            },
            |ch, obs| part.push((ch.vector(), ch.deviations(), obs)),
        );
        let mut stats = stats;
        // An execution that ends in a hang or a panic of the store ends early; when the hang only
        // strikes on some runs of the same prefix (it depends on how far a cancelled call got),
        // shorter runs cannot follow the prefix recorded from a longer one.  Those divergences are
        // consequences of the reported violation, not uncaptured nondeterminism of the harness.
        let early_end = part.iter().any(|(_, _, o)| o.problem.as_ref().is_some_and(|(k, _)| k.starts_with("hang/") || k.contains("panic")));
        if early_end && !stats.divergences.is_empty() {
            rep.set("divergences_explained_by_reported_hang_or_panic", json!(stats.divergences.len()));
            stats.divergences.clear();
        }
        rep.absorb_dfs(&format!("writers/k{k}-w{max_writes}/{max_conn}-connections"), &stats, max_dev);
        results.extend(part);
    }
    }
    for suffix in ["", "-wal", "-shm", "-journal"] {
        let _ = std::fs::remove_file(format!("{template}{suffix}"));
    }
    for (vector, devs, obs) in results {
        let replay = json!({"part": "writers", "connections": obs.max_conn, "vector": vector, "scripts": format!("{:?}", obs.scripts), "trace": obs.trace});
        rep.state(&(obs.max_conn, &obs.scripts, &obs.trace));
        let aborted = obs.scripts.iter().any(|s| !matches!(s.end, End::Commit));
        if aborted && !obs.committed.is_empty() && devs > 0 {
            rep.nontrivial(&(obs.max_conn, &obs.scripts, &obs.trace));
        }
        if let Some((k, w)) = &obs.problem {
            if k == "machinery" {
                rep.machinery_error(w.clone());
            } else {
                rep.violation(k.clone(), format!("scripts {:?}: {w}", obs.scripts), replay);
            }
            continue;
        }
        let got = (obs.final_topics.clone(), obs.final_cursor);
        rep.outcome(&got);
        let ok = allowed(&obs);
        if !ok.contains(&got) {
            // classify
            let committed_rows: BTreeSet<(usize, u64)> = ok.iter().flat_map(|(t, _)| t.iter().cloned()).collect();
            let class = if got.0.iter().any(|r| !committed_rows.contains(r)) {
                "aborted-transaction-left-rows"
            } else if ok.iter().all(|(t, _)| t != &got.0) {
                "committed-rows-missing-or-partial"
            } else {
                "last-writer-wins-order"
            };
            rep.violation(
                format!("final-state/{class}"),
                format!("scripts {:?}, trace {:?}: committed={:?} in_doubt={:?}; database holds topics {:?} cursor {:?}, allowed {:?}", obs.scripts, obs.trace, obs.committed, obs.in_doubt, got.0, got.1, ok),
                replay,
            );
        } else if rep.want_sample() && devs > 0 && aborted && !obs.committed.is_empty() {
            rep.sample(json!({"scripts": format!("{:?}", obs.scripts), "trace": obs.trace, "final_topics": format!("{:?}", got.0), "final_cursor": got.1}));
        }
    }
    rep.assume("one store call is in flight at a time (plus blocked begins), so sqlx worker-thread timing cannot change the order of effects; whether a cancelled commit took effect is accepted either way (atomically)");
    rep.assume("a SQLite COMMIT is atomic and durable with respect to process-level readers; power-loss behaviour is outside the property");
    rep.finish()
}
