//! C18 Hybrid timestamps strictly increase on every increment (p2panda-core part).
//! E-ENUM with the owned MockClock: every (timestamp, logical, clock reading) and every sequence
//! of increments under every clock-reading sequence.
use std::time::Duration;

use explorer::{json, Report};
use mock_instant::thread_local::MockClock;
use p2panda_core::timestamp::{HybridTimestamp, LamportTimestamp, Timestamp};

fn set_clock(micros: u64) {
    MockClock::set_system_time(Duration::from_micros(micros));
}

pub fn run(mut rep: Report) -> i32 {
    rep.rule = "part single: every (t, l, clock) in T x L x CLK, one increment; part seq: every clock-reading sequence of length <= N over CLKS starting from now(); non-trivial = clock reading <= input timestamp (the branch where wall time does not carry the order)".into();
    // Part 1: single increments.
    let ts: Vec<u64> = (0..=4).collect();
    let ls: Vec<u64> = vec![0, 1, 2, 1 << 32, u64::MAX - 1];
    let clks: Vec<u64> = (0..=5).collect();
    for &t in &ts {
        for &l in &ls {
            for &c in &clks {
                rep.eval();
                rep.transition();
                set_clock(c);
                let x = HybridTimestamp::from_parts(Timestamp::new(t), LamportTimestamp::new(l));
                let r = explorer::catch(|| x.increment());
                rep.state(&(t, l, c));
                if c <= t {
                    rep.nontrivial(&(t, l, c));
                }
                match r {
                    Ok(y) => {
                        rep.outcome(&(y > x));
                        if rep.want_sample() && c <= t {
                            rep.sample(json!({"input": x.to_string(), "clock": c, "output": y.to_string()}));
                        }
                        if !(y > x) {
                            let class = if c < t { "clock-behind-input" } else if c == t { "clock-equal-input" } else { "clock-ahead" };
                            rep.violation(
                                format!("increment-not-greater/{class}"),
                                format!("HybridTimestamp({t},{l}).increment() with wall clock {c} returned {y}, which is not greater than the input"),
                                json!({"part": "single", "t": t, "l": l, "clock": c}),
                            );
                        }
                    }
                    Err(p) => rep.violation(
                        "increment-panics",
                        format!("HybridTimestamp({t},{l}).increment() with wall clock {c} panicked: {p}"),
                        json!({"part": "single", "t": t, "l": l, "clock": c}),
                    ),
                }
            }
        }
    }
    // Part 2: sequences of increments under every clock sequence.
    let n = if rep.thorough() { 6 } else { 4 };
    let alphabet: Vec<u64> = if rep.thorough() { vec![0, 1, 2, 3] } else { vec![0, 1, 2] };
    let k = alphabet.len() as u64;
    for len in 1..=n {
        for code in 0..k.pow(len as u32 + 1) {
            let mut c = code;
            let mut readings = vec![];
            for _ in 0..=len {
                readings.push(alphabet[(c % k) as usize]);
                c /= k;
            }
            rep.eval();
            set_clock(readings[0]);
            let mut cur = HybridTimestamp::now();
            let mut trace = vec![cur.to_string()];
            let mut nontrivial = false;
            for (i, r) in readings[1..].iter().enumerate() {
                set_clock(*r);
                rep.transition();
                let next = cur.increment();
                trace.push(next.to_string());
                if *r <= u64::from(cur.to_parts().0) {
                    nontrivial = true;
                }
                if !(next > cur) {
                    let back = *r < u64::from(cur.to_parts().0);
                    rep.violation(
                        format!("increment-not-greater/{}", if back { "clock-behind-input" } else { "clock-equal-input" }),
                        format!("clock readings {readings:?}: increment #{i} went {cur} -> {next}"),
                        json!({"part": "seq", "readings": readings}),
                    );
                    break;
                }
                cur = next;
            }
            if nontrivial {
                rep.nontrivial(&readings);
            }
            rep.state(&readings);
            if rep.want_sample() && nontrivial && len == n {
                rep.sample(json!({"clock_readings": readings, "timestamps": trace}));
            }
        }
    }
    rep.assume("logical = u64::MAX excluded: no strictly greater logical value exists within one tick");
    rep.assume("clock domain {0..5} microseconds stands for earlier/equal/later readings; increment only compares for equality/order");
    rep.finish()
}
