//! Checks on p2panda-core / p2panda-store / p2panda-stream (no networking crates).
use explorer::{Args, Report};

mod c01;
mod c06;
mod c08;
mod c09;
mod c10;
mod conc_ingest;
mod fixtures;
mod ingest;
mod c18;
mod c24;

fn main() {
    let args = Args::parse();
    explorer::quiet_panics();
    let code = explorer::guard_main(&args.property, || match args.property.as_str() {
        "C01" => c01::run(Report::new(&args, "model_checking")),
        "C03" => ingest::run_c03(Report::new(&args, "model_checking")),
        "C05" => ingest::run_c05(Report::new(&args, "model_checking")),
        "C06" => c06::run(Report::new(&args, "model_checking")),
        "C08" => c08::run(Report::new(&args, "model_checking")),
        "C09" => c09::run(Report::new(&args, "model_checking")),
        "C10" => c10::run(Report::new(&args, "model_checking")),
        "C18" => c18::run(Report::new(&args, "model_checking")),
        "C24" => c24::run(Report::new(&args, "model_checking")),
        other => {
            eprintln!("vh-core: unknown property {other}");
            2
        }
    });
    std::process::exit(code);
}
