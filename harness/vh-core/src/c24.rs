//! C24 De-duplication buffer remembers exactly the last `capacity` items.
//! E-ENUM on the *included* real `p2panda-sync/src/dedup.rs` against a ring-buffer model.
use explorer::{json, Report};

#[allow(dead_code)]
#[path = "/repo/p2panda-sync/src/dedup.rs"]
mod dedup;
use dedup::DeduplicationBuffer;

/// Boring reference: the last `cap` distinct items inserted (an insert of a remembered item is a
/// no-op, as the property's "reports an item as a duplicate exactly when ..." reads).
struct RingDedup {
    cap: usize,
    items: Vec<u8>,
}
impl RingDedup {
    fn insert(&mut self, x: u8) -> bool {
        if self.items.contains(&x) {
            return false;
        }
        if self.items.len() == self.cap {
            self.items.remove(0);
        }
        self.items.push(x);
        true
    }
}

fn run_seq<T: Eq + std::hash::Hash + Clone>(
    rep: &mut Report,
    cap: usize,
    seq: &[u8],
    alpha: u8,
    conv: &dyn Fn(u8) -> T,
    tyname: &str,
) {
    let mut real = DeduplicationBuffer::<T>::new(cap);
    let mut model = RingDedup { cap, items: vec![] };
    let mut evicted_once = false;
    let mut dup_once = false;
    for (i, &x) in seq.iter().enumerate() {
        rep.transition();
        let r = real.insert(conv(x));
        let before = model.items.len();
        let m = model.insert(x);
        if m && before == cap {
            evicted_once = true;
        }
        if !m {
            dup_once = true;
        }
        if r != m {
            rep.violation(
                format!("insert-disagrees/{}", if r { "real-inserted-model-duplicate" } else { "real-duplicate-model-inserted" }),
                format!("capacity {cap}, item type {tyname}, sequence {seq:?}: insert #{i} of {x} returned {r}, model (last {cap} distinct items) says {m}"),
                json!({"part": "seq", "capacity": cap, "seq": seq, "type": tyname}),
            );
            return;
        }
        let mut held = 0;
        for y in 0..alpha {
            let c = real.contains(&conv(y));
            if c {
                held += 1;
            }
            if c != model.items.contains(&y) {
                rep.violation(
                    format!("contains-disagrees/{}", if c { "stale-item-remembered" } else { "recent-item-forgotten" }),
                    format!("capacity {cap}, type {tyname}, sequence {seq:?}: after step {i} contains({y}) = {c}, model holds {:?}", model.items),
                    json!({"part": "seq", "capacity": cap, "seq": seq, "type": tyname}),
                );
                return;
            }
        }
        if held > cap {
            rep.violation(
                "holds-more-than-capacity",
                format!("capacity {cap}, type {tyname}, sequence {seq:?}: {held} items reported present after step {i}"),
                json!({"part": "seq", "capacity": cap, "seq": seq, "type": tyname}),
            );
            return;
        }
    }
    rep.state(&(cap, &model.items, tyname));
    if evicted_once && dup_once {
        rep.nontrivial(&(cap, seq, tyname));
    }
}

pub fn run(mut rep: Report) -> i32 {
    let (max_cap, alpha, max_len) = if rep.thorough() { (5usize, 6u8, 9usize) } else { (4usize, 5u8, 7usize) };
    rep.rule = format!("every insertion sequence of length <= {max_len} over an alphabet of {alpha} items for every capacity 1..={max_cap}, item types u8 and [u8;32]; insert() result and contains() of every alphabet item compared with the ring model after every step; non-trivial = sequence with at least one eviction and one duplicate");
    for cap in 1..=max_cap {
        for len in 0..=max_len {
            // u8 items for all lengths; 32-byte items (what the code base stores) up to len-2
            let total = (alpha as u64).pow(len as u32);
            for code in 0..total {
                let mut c = code;
                let mut seq = Vec::with_capacity(len);
                for _ in 0..len {
                    seq.push((c % alpha as u64) as u8);
                    c /= alpha as u64;
                }
                // canonical-first-occurrence pruning is NOT applied: all sequences are run.
                rep.eval();
                run_seq::<u8>(&mut rep, cap, &seq, alpha, &|x| x, "u8");
                if len + 2 <= max_len {
                    rep.eval();
                    run_seq::<[u8; 32]>(&mut rep, cap, &seq, alpha, &|x| [x; 32], "[u8;32]");
                }
                if rep.want_sample() && len == max_len && code % 7919 == 11 {
                    rep.sample(json!({"capacity": cap, "sequence": seq}));
                }
            }
        }
    }
    rep.assume("capacity 0 is outside the property");
    rep.assume("HashSet iteration order does not influence insert/contains");
    rep.finish()
}
