//! Deterministic keys and operation builders shared by the vh-core checks.
use p2panda_core::{Body, Extensions, Hash, Header, Operation, SeqNum, SigningKey};

pub fn key(i: u8) -> SigningKey {
    SigningKey::from_bytes(&[i.wrapping_add(1); 32])
}

/// Build and sign one operation.
pub fn make_op<E: Extensions>(
    key: &SigningKey,
    seq_num: SeqNum,
    backlink: Option<Hash>,
    body: Option<&[u8]>,
    extensions: E,
) -> Operation<E> {
    let body = body.map(Body::new);
    let mut header = Header::<E> {
        version: 1,
        verifying_key: key.verifying_key(),
        signature: None,
        payload_size: body.as_ref().map(|b| b.size()).unwrap_or(0),
        payload_hash: body.as_ref().filter(|b| b.size() > 0).map(|b| b.hash()),
        seq_num,
        backlink,
        extensions,
    };
    header.sign(key);
    Operation {
        hash: header.hash(),
        header,
        body: body.filter(|b| b.size() > 0),
    }
}

/// An honest chain 0..len for one (author, log tag); bodies alternate present/absent.
pub fn chain<E: Extensions>(key: &SigningKey, tag: u8, len: u32, ext: impl Fn(u32) -> E) -> Vec<Operation<E>> {
    let mut out: Vec<Operation<E>> = vec![];
    for s in 0..len {
        let body = format!("a{:?}-t{tag}-s{s}", &key.verifying_key().as_bytes()[..2]);
        let with_body = s % 2 == 0;
        let op = make_op(
            key,
            s,
            out.last().map(|o| o.hash),
            if with_body { Some(body.as_bytes()) } else { None },
            ext(s),
        );
        out.push(op);
    }
    out
}

pub fn hex8(h: &Hash) -> String {
    h.to_hex()[..8].to_string()
}

/// Current-thread tokio runtime for SQLite-backed checks.
pub fn rt() -> tokio::runtime::Runtime {
    tokio::runtime::Builder::new_current_thread()
        .enable_all()
        .build()
        .expect("runtime")
}

/// Await a future, converting a panic inside it into Err(message).
pub async fn catch_async<F: std::future::Future>(f: F) -> Result<F::Output, String> {
    use futures_util::FutureExt;
    match std::panic::AssertUnwindSafe(f).catch_unwind().await {
        Ok(v) => Ok(v),
        Err(e) => Err(if let Some(s) = e.downcast_ref::<&str>() {
            s.to_string()
        } else if let Some(s) = e.downcast_ref::<String>() {
            s.clone()
        } else {
            "panic".to_string()
        }),
    }
}
