//! C09 Operation, topic and cursor stores behave like their abstract collections.
//!
//! Three complete explicit-state explorations on the real `SqliteStore`.  The abstract state spaces
//! are finite and small (maps/sets over a tiny universe), so *every* abstract state is built on the
//! real store by a canonical command path and *every* command is applied in it; the command's
//! return value and a read-back through every read API are compared with a plain map/set model.
use std::collections::{BTreeMap, BTreeSet};

use explorer::{json, Report, Value};
use p2panda_core::cursor::Cursor;
use p2panda_core::logs::LogHeights;
use p2panda_core::{Hash, Operation, VerifyingKey};
use p2panda_store::cursors::CursorStore;
use p2panda_store::operations::OperationStore;
use p2panda_store::topics::TopicStore;
use p2panda_store::{SqliteStore, Transaction};

use crate::c08::reset;
use crate::fixtures::{catch_async, key, make_op, rt};

type Op = Operation<()>;

struct Out {
    transitions: u64,
    states: Vec<String>,
    nontrivial: u64,
    violations: Vec<(String, String, Value)>,
    samples: Vec<Value>,
}

fn par_states<S: Send + Sync + Clone + std::fmt::Debug, C: Sync>(
    threads: usize,
    states: Vec<S>,
    ctx: &C,
    work: impl for<'a> Fn(&'a C, &'a SqliteStore, &'a S, &'a mut Out) -> std::pin::Pin<Box<dyn std::future::Future<Output = ()> + 'a>> + Sync,
) -> Vec<Out> {
    let chunks: Vec<Vec<S>> = {
        let mut cs: Vec<Vec<S>> = (0..threads).map(|_| vec![]).collect();
        for (i, s) in states.into_iter().enumerate() {
            cs[i % threads].push(s);
        }
        cs
    };
    std::thread::scope(|sc| {
        let hs: Vec<_> = chunks
            .into_iter()
            .map(|chunk| {
                let work = &work;
                sc.spawn(move || {
                    let mut out = Out { transitions: 0, states: vec![], nontrivial: 0, violations: vec![], samples: vec![] };
                    if chunk.is_empty() {
                        return out;
                    }
                    let rt = rt();
                    rt.block_on(async {
                        let sql = SqliteStore::temporary().await;
                        for s in &chunk {
                            out.states.push(format!("{s:?}"));
                            work(ctx, &sql, s, &mut out).await;
                        }
                    });
                    out
                })
            })
            .collect();
        hs.into_iter().map(|h| h.join().expect("worker")).collect()
    })
}

// ---------------------------------------------------------------------------------------------
// Part 1: OperationStore
// ---------------------------------------------------------------------------------------------

#[derive(Clone, Copy, Debug, PartialEq, Eq)]
enum OpCmd {
    Insert(usize, u64),
    InsertRollback(usize),
    InsertDropPermit(usize),
    Delete(usize),
    DeleteRollback(usize),
    DeletePayload(usize),
}

/// op index -> body present
type OpState = BTreeMap<usize, bool>;

fn op_universe(thorough: bool) -> Vec<Op> {
    let k0 = key(0);
    let k1 = key(1);
    let mut v = vec![
        make_op(&k0, 0, None, Some(b"first body"), ()),
        make_op(&k0, 1, Some(Hash::digest(b"x")), None, ()),
        make_op(&k1, 0, None, Some(b"other author"), ()),
        make_op(&k1, 7, Some(Hash::digest(b"y")), Some(&[0u8, 255, 1, 2]), ()),
    ];
    if thorough {
        v.push(make_op(&k0, 10, Some(Hash::digest(b"z")), Some(&[7u8; 300]), ()));
        v.push(make_op(&k1, 1, Some(Hash::digest(b"w")), None, ()));
    }
    v
}

async fn op_apply(sql: &SqliteStore, u: &[Op], c: OpCmd) -> String {
    let r = catch_async(async {
        match c {
            OpCmd::Insert(i, l) => {
                let p = sql.begin().await.map_err(|e| e.to_string())?;
                let r = sql.insert_operation(&u[i].hash, &u[i], &l).await.map_err(|e| e.to_string());
                sql.commit(p).await.map_err(|e| e.to_string())?;
                r.map(|b| format!("{b}"))
            }
            OpCmd::InsertRollback(i) => {
                let p = sql.begin().await.map_err(|e| e.to_string())?;
                let r = sql.insert_operation(&u[i].hash, &u[i], &0u64).await.map_err(|e| e.to_string());
                // dirty read inside the transaction sees the write
                let seen = <SqliteStore as OperationStore<Op, Hash>>::has_operation_tx(sql, &u[i].hash).await.map_err(|e| e.to_string())?;
                sql.rollback(p).await.map_err(|e| e.to_string())?;
                r.map(|b| format!("{b}/seen-in-tx={seen}"))
            }
            OpCmd::InsertDropPermit(i) => {
                let p = sql.begin().await.map_err(|e| e.to_string())?;
                let r = sql.insert_operation(&u[i].hash, &u[i], &0u64).await.map_err(|e| e.to_string());
                drop(p);
                r.map(|b| format!("{b}"))
            }
            OpCmd::Delete(i) => {
                let p = sql.begin().await.map_err(|e| e.to_string())?;
                let r = <SqliteStore as OperationStore<Op, Hash>>::delete_operation(sql, &u[i].hash).await.map_err(|e| e.to_string());
                sql.commit(p).await.map_err(|e| e.to_string())?;
                r.map(|b| format!("{b}"))
            }
            OpCmd::DeleteRollback(i) => {
                let p = sql.begin().await.map_err(|e| e.to_string())?;
                let r = <SqliteStore as OperationStore<Op, Hash>>::delete_operation(sql, &u[i].hash).await.map_err(|e| e.to_string());
                let seen = <SqliteStore as OperationStore<Op, Hash>>::has_operation_tx(sql, &u[i].hash).await.map_err(|e| e.to_string())?;
                sql.rollback(p).await.map_err(|e| e.to_string())?;
                r.map(|b| format!("{b}/seen-in-tx={seen}"))
            }
            OpCmd::DeletePayload(i) => <SqliteStore as OperationStore<Op, Hash>>::delete_operation_payload(sql, &u[i].hash)
                .await
                .map(|b| format!("{b}"))
                .map_err(|e| e.to_string()),
        }
    })
    .await;
    match r {
        Ok(Ok(s)) => s,
        Ok(Err(e)) => format!("Err({e})"),
        Err(p) => format!("PANIC({p})"),
    }
}

fn op_model(u: &[Op], s: &OpState, c: OpCmd) -> (OpState, String) {
    let mut n = s.clone();
    let r = match c {
        OpCmd::Insert(i, _) => {
            let new = !n.contains_key(&i);
            n.entry(i).or_insert(u[i].body.is_some());
            format!("{new}")
        }
        OpCmd::InsertRollback(i) => format!("{}/seen-in-tx=true", !n.contains_key(&i)),
        OpCmd::InsertDropPermit(i) => format!("{}", !n.contains_key(&i)),
        OpCmd::Delete(i) => format!("{}", n.remove(&i).is_some()),
        OpCmd::DeleteRollback(i) => format!("{}/seen-in-tx=false", n.contains_key(&i)),
        OpCmd::DeletePayload(i) => {
            let hit = n.contains_key(&i);
            if let Some(b) = n.get_mut(&i) {
                *b = false;
            }
            format!("{hit}")
        }
    };
    (n, r)
}

fn op_fmt(o: &Option<Op>) -> String {
    match o {
        None => "None".into(),
        Some(o) => format!(
            "id={} header={} body={}",
            o.hash.to_hex(),
            o.header.to_hex(),
            o.body.as_ref().map(|b| b.to_hex()).unwrap_or_else(|| "-".into())
        ),
    }
}

/// What the model says each read API must return in state `s`.
fn op_expected(u: &[Op], s: &OpState) -> Vec<String> {
    let mut v = vec![];
    for (i, op) in u.iter().enumerate() {
        let e = s.get(&i).map(|has_body| {
            let mut o = op.clone();
            if !*has_body {
                o.body = None;
            }
            o
        });
        let f = op_fmt(&e);
        v.push(format!("get({i})={f}"));
        v.push(format!("has({i})={}", e.is_some()));
        v.push(format!("get_tx({i})={f}"));
        v.push(format!("has_tx({i})={}", e.is_some()));
    }
    v
}

async fn op_observe(sql: &SqliteStore, u: &[Op]) -> Vec<String> {
    let mut v = vec![];
    for (i, op) in u.iter().enumerate() {
        let g = catch_async(<SqliteStore as OperationStore<Op, Hash>>::get_operation(sql, &op.hash)).await;
        v.push(format!("get({i})={}", match g { Ok(Ok(o)) => op_fmt(&o), Ok(Err(e)) => format!("Err({e})"), Err(p) => format!("PANIC({p})") }));
        let h = catch_async(<SqliteStore as OperationStore<Op, Hash>>::has_operation(sql, &op.hash)).await;
        v.push(format!("has({i})={}", match h { Ok(Ok(o)) => format!("{o}"), Ok(Err(e)) => format!("Err({e})"), Err(p) => format!("PANIC({p})") }));
        match sql.begin().await {
            Ok(p) => {
                let g = catch_async(<SqliteStore as OperationStore<Op, Hash>>::get_operation_tx(sql, &op.hash)).await;
                v.push(format!("get_tx({i})={}", match g { Ok(Ok(o)) => op_fmt(&o), Ok(Err(e)) => format!("Err({e})"), Err(p) => format!("PANIC({p})") }));
                let h = catch_async(<SqliteStore as OperationStore<Op, Hash>>::has_operation_tx(sql, &op.hash)).await;
                v.push(format!("has_tx({i})={}", match h { Ok(Ok(o)) => format!("{o}"), Ok(Err(e)) => format!("Err({e})"), Err(p) => format!("PANIC({p})") }));
                let _ = sql.rollback(p).await;
            }
            Err(e) => v.push(format!("begin Err({e})")),
        }
    }
    v
}

fn first_diff(a: &[String], b: &[String]) -> String {
    for (x, y) in a.iter().zip(b) {
        if x != y {
            let cut = |s: &str| if s.len() > 150 { format!("{}…", &s[..150]) } else { s.to_string() };
            return format!("store: {} | model: {}", cut(x), cut(y));
        }
    }
    format!("lengths {} vs {}", a.len(), b.len())
}

fn part_operations(rep: &mut Report) {
    let u = op_universe(rep.thorough());
    let n = u.len();
    // all abstract states: each op absent / present with body / present without body
    let mut states: Vec<OpState> = vec![];
    for code in 0..3u32.pow(n as u32) {
        let mut c = code;
        let mut s = OpState::new();
        let mut ok = true;
        for i in 0..n {
            match c % 3 {
                0 => {}
                1 => {
                    s.insert(i, u[i].body.is_some());
                }
                _ => {
                    if u[i].body.is_none() {
                        ok = false; // "present without body" == "present" for body-less ops
                    }
                    s.insert(i, false);
                }
            }
            c /= 3;
        }
        if ok {
            states.push(s);
        }
    }
    let mut cmds = vec![];
    for i in 0..n {
        cmds.push(OpCmd::Insert(i, 0));
        cmds.push(OpCmd::Insert(i, 1));
        cmds.push(OpCmd::InsertRollback(i));
        cmds.push(OpCmd::InsertDropPermit(i));
        cmds.push(OpCmd::Delete(i));
        cmds.push(OpCmd::DeleteRollback(i));
        cmds.push(OpCmd::DeletePayload(i));
    }
    let nstates = states.len();
    let ctx = (u, cmds);
    let outs = par_states(rep.args.threads, states, &ctx, |ctx, sql, s, out| {
        let (u, cmds) = (&ctx.0, &ctx.1);
        Box::pin(async move {
            let mut path: Vec<OpCmd> = s.keys().map(|i| OpCmd::Insert(*i, 0)).collect();
            for (i, b) in s {
                if !*b && u[*i].body.is_some() {
                    path.push(OpCmd::DeletePayload(*i));
                }
            }
            for &c in cmds {
                out.transitions += 1;
                reset(sql).await;
                for &p in &path {
                    op_apply(sql, u, p).await;
                }
                let built = op_observe(sql, u).await;
                let want = op_expected(u, s);
                let replay = json!({"part": "operations", "state_path": format!("{path:?}"), "command": format!("{c:?}")});
                if built != want {
                    out.violations.push(("operations/read-back-after-build".into(), format!("after {path:?}: {}", first_diff(&built, &want)), replay));
                    break;
                }
                let got = op_apply(sql, u, c).await;
                let (next, want_r) = op_model(u, s, c);
                if got != want_r {
                    out.violations.push((
                        format!("operations/result/{}", format!("{c:?}").split('(').next().unwrap()),
                        format!("state {path:?}: {c:?} returned {got}, map model says {want_r}"),
                        replay,
                    ));
                    continue;
                }
                let after = op_observe(sql, u).await;
                let want_after = op_expected(u, &next);
                if after != want_after {
                    out.violations.push((
                        format!("operations/state-after/{}", format!("{c:?}").split('(').next().unwrap()),
                        format!("state {path:?} then {c:?}: {}", first_diff(&after, &want_after)),
                        replay,
                    ));
                    continue;
                }
                if next != *s {
                    out.nontrivial += 1;
                }
                if out.samples.is_empty() && s.len() == 2 {
                    out.samples.push(json!({"store": "operations", "state_path": format!("{path:?}"), "command": format!("{c:?}"), "result": got}));
                }
            }
        })
    });
    absorb(rep, "operations", nstates, ctx.1.len(), outs);
}

// ---------------------------------------------------------------------------------------------
// Part 2: TopicStore
// ---------------------------------------------------------------------------------------------

type Triple = (u8, u8, u64); // topic, author idx, log
type TopicState = BTreeSet<Triple>;

fn topic_id(t: u8) -> [u8; 32] {
    [t + 1; 32]
}

async fn topic_apply(sql: &SqliteStore, authors: &[VerifyingKey], add: bool, (t, a, l): Triple, rollback: bool) -> String {
    let r = catch_async(async {
        let p = sql.begin().await.map_err(|e| e.to_string())?;
        let r = if add {
            <SqliteStore as TopicStore<[u8; 32], VerifyingKey, u64>>::associate(sql, &topic_id(t), &authors[a as usize], &l).await
        } else {
            <SqliteStore as TopicStore<[u8; 32], VerifyingKey, u64>>::remove(sql, &topic_id(t), &authors[a as usize], &l).await
        }
        .map_err(|e| e.to_string());
        if rollback {
            sql.rollback(p).await.map_err(|e| e.to_string())?;
        } else {
            sql.commit(p).await.map_err(|e| e.to_string())?;
        }
        r.map(|b| format!("{b}"))
    })
    .await;
    match r {
        Ok(Ok(s)) => s,
        Ok(Err(e)) => format!("Err({e})"),
        Err(p) => format!("PANIC({p})"),
    }
}

async fn topic_observe(sql: &SqliteStore, authors: &[VerifyingKey]) -> Vec<String> {
    let mut v = vec![];
    for t in 0..3u8 {
        let r = catch_async(<SqliteStore as TopicStore<[u8; 32], VerifyingKey, u64>>::resolve(sql, &topic_id(t))).await;
        v.push(match r {
            Ok(Ok(m)) => {
                // a set of triples: order inside the Vec is not part of the contract, duplicates are
                let mut flat: Vec<(usize, u64)> = vec![];
                for (a, ls) in &m {
                    let ai = authors.iter().position(|x| x == a).unwrap_or(99);
                    for l in ls {
                        flat.push((ai, *l));
                    }
                }
                flat.sort();
                format!("resolve({t})={flat:?}")
            }
            Ok(Err(e)) => format!("resolve({t})=Err({e})"),
            Err(p) => format!("resolve({t})=PANIC({p})"),
        });
    }
    v
}

fn topic_expected(s: &TopicState) -> Vec<String> {
    (0..3u8)
        .map(|t| {
            let mut flat: Vec<(usize, u64)> = s.iter().filter(|x| x.0 == t).map(|x| (x.1 as usize, x.2)).collect();
            flat.sort();
            format!("resolve({t})={flat:?}")
        })
        .collect()
}

fn part_topics(rep: &mut Report) {
    let authors = vec![key(0).verifying_key(), key(1).verifying_key()];
    let mut triples: Vec<Triple> = vec![];
    for t in 0..2u8 {
        for a in 0..2u8 {
            for l in if rep.thorough() { vec![0u64, 10, 3] } else { vec![0u64, 10] } {
                triples.push((t, a, l));
            }
        }
    }
    let states: Vec<TopicState> = (0..(1u32 << triples.len()))
        .map(|m| triples.iter().enumerate().filter(|(i, _)| m & (1 << i) != 0).map(|(_, t)| *t).collect())
        .collect();
    let mut cmds: Vec<(bool, Triple, bool)> = vec![];
    for &t in &triples {
        cmds.push((true, t, false));
        cmds.push((false, t, false));
        cmds.push((true, t, true));
        cmds.push((false, t, true));
    }
    let nstates = states.len();
    let ctx = (authors, cmds);
    let outs = par_states(rep.args.threads, states, &ctx, |ctx, sql, s, out| {
        let (authors, cmds) = (&ctx.0, &ctx.1);
        Box::pin(async move {
            for &(add, t, rollback) in cmds {
                out.transitions += 1;
                reset(sql).await;
                for &p in s.iter() {
                    topic_apply(sql, authors, true, p, false).await;
                }
                let replay = json!({"part": "topics", "state": format!("{s:?}"), "command": format!("{}{t:?}{}", if add { "associate" } else { "remove" }, if rollback { " then rollback" } else { "" })});
                let built = topic_observe(sql, authors).await;
                if built != topic_expected(s) {
                    out.violations.push(("topics/read-back-after-build".into(), format!("state {s:?}: {}", first_diff(&built, &topic_expected(s))), replay));
                    break;
                }
                let got = topic_apply(sql, authors, add, t, rollback).await;
                let want = format!("{}", if add { !s.contains(&t) } else { s.contains(&t) });
                let name = if add { "associate" } else { "remove" };
                if got != want {
                    out.violations.push((format!("topics/result/{name}"), format!("state {s:?}: {name}{t:?} returned {got}, set model says {want}"), replay));
                    continue;
                }
                let mut next = s.clone();
                if !rollback {
                    if add {
                        next.insert(t);
                    } else {
                        next.remove(&t);
                    }
                }
                let after = topic_observe(sql, authors).await;
                if after != topic_expected(&next) {
                    out.violations.push((format!("topics/state-after/{name}{}", if rollback { "-rollback" } else { "" }), format!("state {s:?} then {name}{t:?} (rollback={rollback}): {}", first_diff(&after, &topic_expected(&next))), replay));
                    continue;
                }
                if next != *s {
                    out.nontrivial += 1;
                }
                if out.samples.is_empty() && s.len() == 3 {
                    out.samples.push(json!({"store": "topics", "state": format!("{s:?}"), "command": format!("{name}{t:?}"), "result": got}));
                }
            }
        })
    });
    absorb(rep, "topics", nstates, ctx.1.len(), outs);
}

// ---------------------------------------------------------------------------------------------
// Part 3: CursorStore
// ---------------------------------------------------------------------------------------------

type CursorState = BTreeMap<u8, u8>; // name idx -> value idx

fn cursor_value(name: u8, v: u8) -> Cursor<VerifyingKey, u64> {
    let mut st: LogHeights<VerifyingKey, u64> = BTreeMap::new();
    match v {
        0 => {}
        1 => {
            st.entry(key(0).verifying_key()).or_default().insert(0, 3);
        }
        _ => {
            st.entry(key(0).verifying_key()).or_default().insert(0, 10);
            st.entry(key(1).verifying_key()).or_default().insert(1, 0);
        }
    }
    Cursor::new(format!("cursor-{name}"), st)
}

async fn cursor_apply(sql: &SqliteStore, set: Option<u8>, name: u8, rollback: bool) -> String {
    let r = catch_async(async {
        let p = sql.begin().await.map_err(|e| e.to_string())?;
        let r = match set {
            Some(v) => <SqliteStore as CursorStore<VerifyingKey, u64>>::set_cursor(sql, &cursor_value(name, v)).await,
            None => <SqliteStore as CursorStore<VerifyingKey, u64>>::delete_cursor(sql, format!("cursor-{name}")).await,
        }
        .map_err(|e| e.to_string());
        if rollback {
            sql.rollback(p).await.map_err(|e| e.to_string())?;
        } else {
            sql.commit(p).await.map_err(|e| e.to_string())?;
        }
        r.map(|_| "ok".to_string())
    })
    .await;
    match r {
        Ok(Ok(s)) => s,
        Ok(Err(e)) => format!("Err({e})"),
        Err(p) => format!("PANIC({p})"),
    }
}

async fn cursor_observe(sql: &SqliteStore) -> Vec<String> {
    let mut v = vec![];
    for n in 0..3u8 {
        let r = catch_async(<SqliteStore as CursorStore<VerifyingKey, u64>>::get_cursor(sql, format!("cursor-{n}"))).await;
        v.push(match r {
            Ok(Ok(c)) => format!("get({n})={:?}", c.map(|c| (c.name().to_string(), format!("{:?}", c.state())))),
            Ok(Err(e)) => format!("get({n})=Err({e})"),
            Err(p) => format!("get({n})=PANIC({p})"),
        });
    }
    v
}

fn cursor_expected(s: &CursorState) -> Vec<String> {
    (0..3u8)
        .map(|n| {
            let c = s.get(&n).map(|v| cursor_value(n, *v));
            format!("get({n})={:?}", c.map(|c| (c.name().to_string(), format!("{:?}", c.state()))))
        })
        .collect()
}

fn part_cursors(rep: &mut Report) {
    let mut states: Vec<CursorState> = vec![];
    for a in 0..4u8 {
        for b in 0..4u8 {
            let mut s = CursorState::new();
            if a > 0 {
                s.insert(0, a - 1);
            }
            if b > 0 {
                s.insert(1, b - 1);
            }
            states.push(s);
        }
    }
    let mut cmds: Vec<(Option<u8>, u8, bool)> = vec![];
    for n in 0..2u8 {
        for rb in [false, true] {
            for v in 0..3u8 {
                cmds.push((Some(v), n, rb));
            }
            cmds.push((None, n, rb));
        }
    }
    let nstates = states.len();
    let outs = par_states(rep.args.threads, states, &cmds, |cmds, sql, s, out| {
        Box::pin(async move {
            for &(set, n, rollback) in cmds {
                out.transitions += 1;
                reset(sql).await;
                for (name, v) in s {
                    cursor_apply(sql, Some(*v), *name, false).await;
                }
                let replay = json!({"part": "cursors", "state": format!("{s:?}"), "command": format!("{set:?} name={n} rollback={rollback}")});
                let built = cursor_observe(sql).await;
                if built != cursor_expected(s) {
                    out.violations.push(("cursors/read-back-after-build".into(), format!("state {s:?}: {}", first_diff(&built, &cursor_expected(s))), replay));
                    break;
                }
                let got = cursor_apply(sql, set, n, rollback).await;
                if got != "ok" {
                    out.violations.push(("cursors/result".into(), format!("state {s:?}: command {set:?} on cursor-{n} returned {got}"), replay));
                    continue;
                }
                let mut next = s.clone();
                if !rollback {
                    match set {
                        Some(v) => {
                            next.insert(n, v);
                        }
                        None => {
                            next.remove(&n);
                        }
                    }
                }
                let after = cursor_observe(sql).await;
                if after != cursor_expected(&next) {
                    out.violations.push((format!("cursors/state-after/{}{}", if set.is_some() { "set" } else { "delete" }, if rollback { "-rollback" } else { "" }), format!("state {s:?} then {set:?} on cursor-{n} (rollback={rollback}): {}", first_diff(&after, &cursor_expected(&next))), replay));
                    continue;
                }
                if next != *s {
                    out.nontrivial += 1;
                }
                if out.samples.is_empty() && s.len() == 1 {
                    out.samples.push(json!({"store": "cursors", "state": format!("{s:?}"), "command": format!("{set:?} name={n}"), "read_back": after}));
                }
            }
        })
    });
    absorb(rep, "cursors", nstates, cmds.len(), outs);
}

fn absorb(rep: &mut Report, part: &str, nstates: usize, ncmds: usize, outs: Vec<Out>) {
    let mut tr = 0;
    for o in outs {
        tr += o.transitions;
        rep.evals(o.transitions);
        rep.transitions += o.transitions;
        rep.nontrivial_count(o.nontrivial);
        for s in o.states {
            rep.state(&(part, s));
        }
        for s in o.samples {
            rep.sample(s);
        }
        for (k, w, r) in o.violations {
            rep.violation(k, w, r);
        }
    }
    rep.part(json!({"part": part, "abstract_states": nstates, "commands": ncmds, "transitions": tr}));
}

pub fn run(mut rep: Report) -> i32 {
    rep.rule = "three complete state spaces on the real SqliteStore: OperationStore (4 ops: absent / present / present-without-body; commands insert under two collection ids, insert+rollback, insert+dropped permit, delete, delete+rollback, delete_payload), TopicStore (all 256 subsets of 8 (topic, author, log) triples; associate/remove, committed or rolled back), CursorStore (2 names x {absent, 3 values}; set/delete, committed or rolled back); every command in every state; return value and read-back through every read API (get/has and their _tx variants, resolve incl. an unknown topic, get_cursor incl. an unknown name) compared with plain maps/sets; non-trivial = transition that changes the abstract state".into();
    part_operations(&mut rep);
    part_topics(&mut rep);
    part_cursors(&mut rep);
    rep.assume("the three abstract state spaces are complete for the chosen universes; larger universes are assumed to behave alike (keys are compared for equality only)");
    rep.finish()
}
