//! Shared pieces of the C31 / C33 explorations: identity / operation types that satisfy the
//! p2panda-auth traits, the action alphabets, histories (operations + dependency DAG, generated
//! by choosing the dependencies of every new operation as the heads of a downward-closed subset
//! of the operations created so far), and canonical observations of a replica.
//!
//! Everything that *decides* something is the real code: operations are fed to
//! `p2panda_auth::group::GroupCrdt::process` with the real `StrongRemove` resolver and replicas are
//! observed through `GroupCrdtState::{members, root_members, groups, has_group}`.
use std::collections::{BTreeMap, HashSet};
use std::fmt::Debug;
use std::hash::Hash;
use std::sync::atomic::{AtomicUsize, Ordering};
use std::sync::Mutex;

use explorer::{catch, h64, json, Report, Value};
use p2panda_auth::group::resolver::StrongRemove;
use p2panda_auth::group::{GroupAction, GroupCrdt, GroupCrdtError, GroupCrdtState, GroupMember};
use p2panda_auth::traits::{Conditions, IdentityHandle, Operation, OperationId};
use p2panda_auth::{Access, AccessLevel};
use serde::{Deserialize, Serialize};

// ---------------------------------------------------------------------------------------------
// Identity, operation id, conditions
// ---------------------------------------------------------------------------------------------

/// Actors 0,1,2 = a,b,c; groups 10,11 = G,H.
#[derive(Clone, Copy, Debug, PartialEq, Eq, PartialOrd, Ord, Hash, Serialize, Deserialize)]
pub struct Id(pub u8);
impl IdentityHandle for Id {}

pub const A: Id = Id(0);
pub const B: Id = Id(1);
pub const C_: Id = Id(2);
pub const G: Id = Id(10);
pub const H: Id = Id(11);
/// Only used by the hand-built nesting scenarios of C31.
pub const D_: Id = Id(3);
pub const I_: Id = Id(12);
pub const J_: Id = Id(13);

pub fn idn(i: Id) -> &'static str {
    match i.0 {
        0 => "a",
        1 => "b",
        2 => "c",
        3 => "d",
        10 => "G",
        11 => "H",
        12 => "I",
        13 => "J",
        _ => "?",
    }
}

#[derive(Clone, Copy, Debug, PartialEq, Eq, PartialOrd, Ord, Hash, Serialize, Deserialize)]
pub struct OpId(pub u32);
impl OperationId for OpId {}

/// A totally ordered condition type (derived `PartialOrd` on a `u8`): a larger value grants more.
#[derive(Clone, Copy, Debug, PartialEq, Eq, PartialOrd, Ord, Hash, Serialize, Deserialize)]
pub struct Cond(pub u8);
impl Conditions for Cond {}

/// What the explorations need from a condition type.
pub trait CT: Conditions + Copy + Eq + Ord + Hash + Send + Sync + Debug + Serialize + for<'a> Deserialize<'a> + 'static {
    const NAME: &'static str;
    /// Condition number i (0 = none); a larger number grants more.
    fn mk(i: u8) -> Option<Self>;
    /// Index 0 is always "no conditions".
    fn conds() -> Vec<Option<Self>>;
    fn show(c: &Option<Self>) -> String;
}
impl CT for () {
    const NAME: &'static str = "unit";
    fn mk(_: u8) -> Option<Self> {
        None
    }
    fn conds() -> Vec<Option<Self>> {
        vec![None]
    }
    fn show(_: &Option<Self>) -> String {
        String::new()
    }
}
impl CT for Cond {
    const NAME: &'static str = "total";
    fn mk(i: u8) -> Option<Self> {
        if i == 0 { None } else { Some(Cond(i)) }
    }
    fn conds() -> Vec<Option<Self>> {
        vec![None, Some(Cond(1)), Some(Cond(2))]
    }
    fn show(c: &Option<Self>) -> String {
        match c {
            None => String::new(),
            Some(Cond(x)) => format!("|c{x}"),
        }
    }
}

pub fn level_of(l: u8) -> AccessLevel {
    match l {
        0 => AccessLevel::Pull,
        1 => AccessLevel::Read,
        2 => AccessLevel::Write,
        _ => AccessLevel::Manage,
    }
}
pub fn level_no(l: &AccessLevel) -> u8 {
    match l {
        AccessLevel::Pull => 0,
        AccessLevel::Read => 1,
        AccessLevel::Write => 2,
        AccessLevel::Manage => 3,
    }
}
pub const PULL: u8 = 0;
pub const READ: u8 = 1;
pub const WRITE: u8 = 2;
pub const MANAGE: u8 = 3;

/// (level, index into `C::conds()`); for `C = ()` every index maps to "no conditions".
pub fn acc<C: CT>(level: u8, cond_ix: usize) -> Access<C> {
    let conds = C::conds();
    Access {
        level: level_of(level),
        conditions: conds[cond_ix.min(conds.len() - 1)],
    }
}
pub fn show_acc<C: CT>(a: &Access<C>) -> String {
    format!("{}{}", a, C::show(&a.conditions))
}
pub fn show_mem(m: &GroupMember<Id>) -> String {
    match m {
        GroupMember::Individual(i) => idn(*i).to_string(),
        GroupMember::Group(g) => format!("group:{}", idn(*g)),
    }
}

// ---------------------------------------------------------------------------------------------
// Operations
// ---------------------------------------------------------------------------------------------

#[derive(Clone, Debug)]
pub struct Op<C> {
    pub id: OpId,
    pub author: Id,
    pub deps: Vec<OpId>,
    pub group: Id,
    pub action: GroupAction<Id, C>,
}

impl<C: CT> Operation<Id, OpId, C> for Op<C> {
    fn id(&self) -> OpId {
        self.id
    }
    fn author(&self) -> Id {
        self.author
    }
    fn dependencies(&self) -> Vec<OpId> {
        self.deps.clone()
    }
    fn group_id(&self) -> Id {
        self.group
    }
    fn action(&self) -> GroupAction<Id, C> {
        self.action.clone()
    }
}

pub type Res<C> = StrongRemove<Id, OpId, Op<C>, C>;
pub type St<C> = GroupCrdtState<Id, OpId, Op<C>, C>;
pub type Crdt<C> = GroupCrdt<Id, OpId, Op<C>, C, Res<C>>;
pub type PErr<C> = GroupCrdtError<Id, OpId, Op<C>, C, Res<C>>;

pub fn action_name<C>(a: &GroupAction<Id, C>) -> &'static str {
    match a {
        GroupAction::Create { .. } => "create",
        GroupAction::Add { .. } => "add",
        GroupAction::Remove { .. } => "remove",
        GroupAction::Promote { .. } => "promote",
        GroupAction::Demote { .. } => "demote",
    }
}

pub fn show_action<C: CT>(group: Id, a: &GroupAction<Id, C>) -> String {
    let g = idn(group);
    match a {
        GroupAction::Create { initial_members } => format!(
            "create {g} [{}]",
            initial_members
                .iter()
                .map(|(m, x)| format!("{}:{}", show_mem(m), show_acc(x)))
                .collect::<Vec<_>>()
                .join(", ")
        ),
        GroupAction::Add { member, access } => format!("add {} to {g} as {}", show_mem(member), show_acc(access)),
        GroupAction::Remove { member } => format!("remove {} from {g}", show_mem(member)),
        GroupAction::Promote { member, access } => format!("promote {} in {g} to {}", show_mem(member), show_acc(access)),
        GroupAction::Demote { member, access } => format!("demote {} in {g} to {}", show_mem(member), show_acc(access)),
    }
}

pub fn show_op<C: CT>(op: &Op<C>) -> String {
    format!(
        "#{} by {}: {} deps={:?}",
        op.id.0,
        idn(op.author),
        show_action(op.group, &op.action),
        op.deps.iter().map(|d| d.0).collect::<Vec<_>>()
    )
}

/// Short class of a `process` error (variant name, plus the inner variant for state-change
/// errors).  Derived from the Debug form so that error variants added to the library later (e.g.
/// by a proposed fix) do not break the harness build.
pub fn err_class<C: CT>(e: &PErr<C>) -> String {
    match e {
        GroupCrdtError::StateChangeError(_, inner) => {
            let s = format!("{inner:?}");
            format!("state-change-{}", s.split('(').next().unwrap_or("?"))
        }
        GroupCrdtError::DuplicateOperation(..) => "duplicate".into(),
        GroupCrdtError::GroupCycle(..) => "cycle".into(),
        GroupCrdtError::ManagerGroupsNotAllowed(_) => "manager-group".into(),
        other => {
            let s = format!("{other:?}");
            s.split(['(', ' ', '{']).next().unwrap_or("?").to_string()
        }
    }
}

pub enum Proc<C: CT> {
    Ok(St<C>),
    Err(String),
    Panic(String),
}

/// The real `GroupCrdt::process`, with a panic turned into a value.
pub fn process<C: CT>(y: St<C>, op: &Op<C>) -> Proc<C> {
    match catch(|| Crdt::<C>::process(y, op)) {
        Ok(Ok(y)) => Proc::Ok(y),
        Ok(Err(e)) => Proc::Err(err_class(&e)),
        Err(p) => Proc::Panic(p),
    }
}

// ---------------------------------------------------------------------------------------------
// Observations
// ---------------------------------------------------------------------------------------------

pub type AccKey<C> = (u8, Option<C>);
pub fn acc_key<C: CT>(a: &Access<C>) -> AccKey<C> {
    (level_no(&a.level), a.conditions)
}

#[derive(Clone, Debug, PartialEq, Eq, Hash)]
pub struct GObs<C: CT> {
    pub has: bool,
    pub root: Vec<(GroupMember<Id>, AccKey<C>)>,
    pub members: Vec<(Id, AccKey<C>)>,
    pub groups: Vec<(Id, AccKey<C>)>,
}
pub type Obs<C> = Vec<GObs<C>>;

/// Whether `observe` also calls `groups()` (the same traversal as `members()`, filtered for
/// sub-groups instead of individuals); switched off in the quick tier of C31 to save time.
pub static OBSERVE_GROUPS: std::sync::atomic::AtomicBool = std::sync::atomic::AtomicBool::new(true);

/// Every public membership query, for every group of the alphabet, in canonical (sorted) form.
pub fn observe<C: CT>(y: &St<C>, groups: &[Id]) -> Result<Obs<C>, String> {
    let with_groups = OBSERVE_GROUPS.load(Ordering::Relaxed);
    catch(|| {
        groups
            .iter()
            .map(|g| {
                let mut root: Vec<_> = y.root_members(*g).iter().map(|(m, a)| (*m, acc_key(a))).collect();
                root.sort();
                let mut members: Vec<_> = y.members(*g).iter().map(|(m, a)| (*m, acc_key(a))).collect();
                members.sort();
                let mut grps: Vec<_> = if with_groups { y.groups(*g).iter().map(|(m, a)| (*m, acc_key(a))).collect() } else { vec![] };
                grps.sort();
                GObs {
                    has: y.has_group(*g),
                    root,
                    members,
                    groups: grps,
                }
            })
            .collect()
    })
}

pub fn show_obs<C: CT>(o: &Obs<C>, groups: &[Id]) -> String {
    let a = |k: &AccKey<C>| format!("{}{}", ["pull", "read", "write", "manage"][k.0 as usize], C::show(&k.1));
    groups
        .iter()
        .zip(o)
        .map(|(g, o)| {
            if !o.has && o.root.is_empty() && o.members.is_empty() {
                return format!("{}: -", idn(*g));
            }
            format!(
                "{}: direct[{}] members[{}]",
                idn(*g),
                o.root.iter().map(|(m, k)| format!("{}:{}", show_mem(m), a(k))).collect::<Vec<_>>().join(","),
                o.members.iter().map(|(m, k)| format!("{}:{}", idn(*m), a(k))).collect::<Vec<_>>().join(",")
            )
        })
        .collect::<Vec<_>>()
        .join("; ")
}

// ---------------------------------------------------------------------------------------------
// Alphabet
// ---------------------------------------------------------------------------------------------

#[derive(Clone, Debug)]
pub struct Cand<C> {
    pub author: Id,
    pub group: Id,
    pub action: GroupAction<Id, C>,
}

/// A small explicit menu of operations.  Accesses are (level, condition index).
#[derive(Clone, Debug)]
pub struct AlphaCfg {
    #[allow(dead_code)]
    pub name: &'static str,
    pub actors: Vec<Id>,
    pub groups: Vec<Id>,
    /// Initial-member lists of the *first* operation (always `create G` by `a`).
    pub root_creates: Vec<Vec<(GroupMember<Id>, (u8, usize))>>,
    /// Initial-member lists for later creates; `None` as member = the author.
    pub later_creates: Vec<Vec<(Option<GroupMember<Id>>, (u8, usize))>>,
    pub add_acc: Vec<(u8, usize)>,
    pub promote_acc: Vec<(u8, usize)>,
    pub demote_acc: Vec<(u8, usize)>,
    /// Whether `group:<other>` is a possible target of add/remove/promote/demote.
    pub subgroups: bool,
    pub remove: bool,
}

pub fn ind(i: Id) -> GroupMember<Id> {
    GroupMember::Individual(i)
}
pub fn grp(i: Id) -> GroupMember<Id> {
    GroupMember::Group(i)
}

fn dedup_acc<C: CT>(v: &[(u8, usize)]) -> Vec<Access<C>> {
    let mut out: Vec<Access<C>> = vec![];
    for (l, c) in v {
        let a = acc::<C>(*l, *c);
        if !out.contains(&a) {
            out.push(a);
        }
    }
    out
}

impl AlphaCfg {
    pub fn roots<C: CT>(&self) -> Vec<Cand<C>> {
        let mut out: Vec<Cand<C>> = vec![];
        for v in &self.root_creates {
            let action = GroupAction::Create {
                initial_members: v.iter().map(|(m, (l, c))| (*m, acc::<C>(*l, *c))).collect(),
            };
            if !out.iter().any(|c| c.action == action) {
                out.push(Cand {
                    author: A,
                    group: G,
                    action,
                });
            }
        }
        out
    }

    /// Every (author, group, action) of the menu.
    pub fn cands<C: CT>(&self) -> Vec<Cand<C>> {
        let mut out: Vec<Cand<C>> = vec![];
        let mut push = |c: Cand<C>| {
            if !out.iter().any(|o| o.author == c.author && o.group == c.group && o.action == c.action) {
                out.push(c)
            }
        };
        for &author in &self.actors {
            for &group in &self.groups {
                for v in &self.later_creates {
                    // a variant that would name the author twice is skipped
                    let names: Vec<GroupMember<Id>> = v.iter().map(|(m, _)| m.unwrap_or(ind(author))).collect();
                    if (0..names.len()).any(|i| names[..i].contains(&names[i])) {
                        continue;
                    }
                    push(Cand {
                        author,
                        group,
                        action: GroupAction::Create {
                            initial_members: v
                                .iter()
                                .map(|(m, (l, c))| (m.unwrap_or(ind(author)), acc::<C>(*l, *c)))
                                .collect(),
                        },
                    });
                }
                let mut targets: Vec<GroupMember<Id>> = self.actors.iter().map(|a| ind(*a)).collect();
                if self.subgroups {
                    for &other in &self.groups {
                        if other != group {
                            targets.push(grp(other));
                        }
                    }
                }
                for &member in &targets {
                    for access in dedup_acc::<C>(&self.add_acc) {
                        push(Cand {
                            author,
                            group,
                            action: GroupAction::Add { member, access },
                        });
                    }
                    if self.remove {
                        push(Cand {
                            author,
                            group,
                            action: GroupAction::Remove { member },
                        });
                    }
                    for access in dedup_acc::<C>(&self.promote_acc) {
                        push(Cand {
                            author,
                            group,
                            action: GroupAction::Promote { member, access },
                        });
                    }
                    for access in dedup_acc::<C>(&self.demote_acc) {
                        push(Cand {
                            author,
                            group,
                            action: GroupAction::Demote { member, access },
                        });
                    }
                }
            }
        }
        out
    }
}

// ---------------------------------------------------------------------------------------------
// Histories
// ---------------------------------------------------------------------------------------------

#[derive(Clone, Debug)]
pub struct HOp<C> {
    pub op: Op<C>,
    /// Bitmask of the causal past, including the operation itself.
    pub past: u32,
    /// Content key that does not depend on the operation's own index: (candidate index, mask of
    /// the downward-closed subset whose heads are the dependencies).
    pub key: (u32, u32),
}

#[derive(Clone, Debug)]
pub struct Hist<C> {
    pub ops: Vec<HOp<C>>,
}
impl<C> Default for Hist<C> {
    fn default() -> Self {
        Hist { ops: vec![] }
    }
}

impl<C: CT> Hist<C> {
    pub fn n(&self) -> usize {
        self.ops.len()
    }
    pub fn full(&self) -> u32 {
        (1u32 << self.n()) - 1
    }
    pub fn is_dc(&self, mask: u32) -> bool {
        (0..self.n()).all(|i| mask & (1 << i) == 0 || self.ops[i].past & !mask == 0)
    }
    /// All downward-closed subsets (including the empty and the full one).
    pub fn dc_masks(&self) -> Vec<u32> {
        (0..=self.full()).filter(|m| self.is_dc(*m)).collect()
    }
    /// Maximal elements of a downward-closed subset.
    pub fn heads(&self, mask: u32) -> Vec<usize> {
        (0..self.n())
            .filter(|i| mask & (1 << i) != 0)
            .filter(|i| (0..self.n()).all(|j| j == *i || mask & (1 << j) == 0 || self.ops[j].past & (1 << i) == 0))
            .collect()
    }
    /// Operation `i` can be delivered to a replica that holds exactly `mask`.
    pub fn enabled(&self, mask: u32, i: usize) -> bool {
        mask & (1 << i) == 0 && (self.ops[i].past & !(1 << i)) & !mask == 0
    }
    pub fn make_op(&self, cand: &Cand<C>, cand_ix: usize, deps_mask: u32) -> HOp<C> {
        let id = self.n();
        let deps: Vec<OpId> = self.heads(deps_mask).into_iter().map(|i| OpId(i as u32)).collect();
        HOp {
            op: Op {
                id: OpId(id as u32),
                author: cand.author,
                deps,
                group: cand.group,
                action: cand.action.clone(),
            },
            past: deps_mask | (1 << id),
            key: (cand_ix as u32, deps_mask),
        }
    }
    pub fn with(&self, op: HOp<C>) -> Hist<C> {
        let mut h = self.clone();
        h.ops.push(op);
        h
    }
    /// Lexicographic-normal-form filter: a generation order in which the new operation is
    /// concurrent with the previous one and has a smaller content key is the same DAG (up to
    /// renaming of operation ids) as the order with the two swapped, which is generated as well.
    pub fn canonical_next(&self, op: &HOp<C>) -> bool {
        match self.ops.last() {
            Some(last) if self.n() >= 2 => {
                let last_ix = self.n() - 1;
                let concurrent = op.past & (1 << last_ix) == 0;
                !concurrent || op.key >= last.key
            }
            _ => true,
        }
    }
    /// Number of linear extensions (causal delivery orders).
    pub fn extensions(&self) -> u64 {
        fn rec<C: CT>(h: &Hist<C>, mask: u32) -> u64 {
            if mask == h.full() {
                return 1;
            }
            (0..h.n()).filter(|i| h.enabled(mask, *i)).map(|i| rec(h, mask | (1 << i))).sum()
        }
        rec(self, 0)
    }
    pub fn show(&self) -> Vec<String> {
        self.ops.iter().map(|o| show_op(&o.op)).collect()
    }
    pub fn to_json(&self) -> Value {
        json!(self.show())
    }
    /// Concurrent operations exist that act on the same group.
    pub fn has_colliding_concurrency(&self) -> bool {
        for i in 0..self.n() {
            for j in 0..i {
                let conc = self.ops[i].past & (1 << j) == 0 && self.ops[j].past & (1 << i) == 0;
                if conc && self.ops[i].op.group == self.ops[j].op.group {
                    return true;
                }
            }
        }
        false
    }
    /// Size used to choose the reported reproduction: fewer operations first, then fewer creates
    /// (a second create of a group is itself a C33 finding and only obscures an example).
    pub fn example_size(&self) -> usize {
        let creates = self.ops.iter().filter(|o| matches!(o.op.action, GroupAction::Create { .. })).count();
        self.n() * 8 + creates
    }
    pub fn content_hash(&self) -> u64 {
        let v: Vec<(u32, u32)> = self.ops.iter().map(|o| o.key).collect();
        h64(&v)
    }
}

// ---------------------------------------------------------------------------------------------
// Per-worker accumulator (merged deterministically into the Report at the end)
// ---------------------------------------------------------------------------------------------

#[derive(Clone)]
pub struct Viol {
    pub what: String,
    pub replay: Value,
    pub size: usize,
    pub count: u64,
}

#[derive(Default)]
pub struct Accu {
    pub evals: u64,
    pub transitions: u64,
    pub states: HashSet<u64>,
    pub nontrivial: HashSet<u64>,
    pub outcomes: HashSet<u64>,
    pub viols: BTreeMap<String, Viol>,
    pub counters: BTreeMap<String, u64>,
    pub samples: Vec<(u64, Value)>,
}

impl Accu {
    pub fn count(&mut self, k: &str, n: u64) {
        *self.counters.entry(k.to_string()).or_insert(0) += n;
    }
    /// Keep, per key, the smallest reproduction (fewest operations, then shortest, then
    /// lexicographically least text) so that the reported example does not depend on the
    /// enumeration or thread order.
    pub fn violation(&mut self, key: String, size: usize, what: impl FnOnce() -> (String, Value)) {
        match self.viols.get_mut(&key) {
            Some(v) => {
                v.count += 1;
                if size <= v.size {
                    let (w, r) = what();
                    if (size, w.len(), &w) < (v.size, v.what.len(), &v.what) {
                        v.what = w;
                        v.replay = r;
                        v.size = size;
                    }
                }
            }
            None => {
                let (w, r) = what();
                self.viols.insert(
                    key,
                    Viol {
                        what: w,
                        replay: r,
                        size,
                        count: 1,
                    },
                );
            }
        }
    }
    pub fn sample(&mut self, rank: u64, v: impl FnOnce() -> Value) {
        if self.samples.len() < 5 || rank < self.samples.last().map(|s| s.0).unwrap_or(u64::MAX) {
            self.samples.push((rank, v()));
            self.samples.sort_by_key(|s| s.0);
            self.samples.truncate(5);
        }
    }
    pub fn merge(&mut self, o: Accu) {
        self.evals += o.evals;
        self.transitions += o.transitions;
        self.states.extend(o.states);
        self.nontrivial.extend(o.nontrivial);
        self.outcomes.extend(o.outcomes);
        for (k, n) in o.counters {
            *self.counters.entry(k).or_insert(0) += n;
        }
        for (k, v) in o.viols {
            match self.viols.get_mut(&k) {
                Some(m) => {
                    m.count += v.count;
                    if (v.size, v.what.len(), &v.what) < (m.size, m.what.len(), &m.what) {
                        m.what = v.what;
                        m.replay = v.replay;
                        m.size = v.size;
                    }
                }
                None => {
                    self.viols.insert(k, v);
                }
            }
        }
        for (r, s) in o.samples {
            self.samples.push((r, s));
        }
        self.samples.sort_by_key(|s| s.0);
        self.samples.dedup_by_key(|s| s.0);
        self.samples.truncate(5);
    }
    /// Move the counts into the report and the violations into `sink` (merged over all parts of
    /// a check with the same "smallest reproduction" rule; `emit_violations` reports them at the
    /// end, so the example shown for a key does not depend on which part found it first).
    pub fn flush(self, rep: &mut Report, part: &str, sink: &mut BTreeMap<String, Viol>) -> Value {
        rep.evals(self.evals);
        rep.transitions += self.transitions;
        for s in &self.states {
            rep.state(s);
        }
        for s in &self.nontrivial {
            rep.nontrivial(s);
        }
        for s in &self.outcomes {
            rep.outcome(s);
        }
        for (_, s) in &self.samples {
            rep.sample(s.clone());
        }
        let mut vio = serde_json::Map::new();
        for (k, v) in &self.viols {
            let mut v = v.clone();
            if let Some(o) = v.replay.as_object_mut() {
                o.insert("part".into(), json!(part));
            }
            vio.insert(k.clone(), json!(v.count));
            match sink.get_mut(k) {
                Some(m) => {
                    m.count += v.count;
                    if (v.size, v.what.len(), &v.what) < (m.size, m.what.len(), &m.what) {
                        m.what = v.what;
                        m.replay = v.replay;
                        m.size = v.size;
                    }
                }
                None => {
                    sink.insert(k.clone(), v);
                }
            }
        }
        let mut v = json!({
            "part": part,
            "evaluations": self.evals,
            "transitions": self.transitions,
            "distinct_outcomes": self.outcomes.len(),
            "counters": self.counters,
            "violation_occurrences": vio,
        });
        if let Some(o) = v.as_object_mut() {
            if !self.states.is_empty() {
                o.insert("distinct_states".into(), json!(self.states.len()));
            }
            if !self.nontrivial.is_empty() {
                o.insert("distinct_nontrivial".into(), json!(self.nontrivial.len()));
            }
        }
        v
    }
}

static START: std::sync::OnceLock<std::time::Instant> = std::sync::OnceLock::new();
/// Deadline of the part that is running, in milliseconds since START (0 = none).
static DEADLINE_MS: std::sync::atomic::AtomicU64 = std::sync::atomic::AtomicU64::new(0);
static CAPPED: std::sync::atomic::AtomicBool = std::sync::atomic::AtomicBool::new(false);

/// Wall-clock cap of the whole check (default 50 s quick, 540 s thorough; VERIF_WALL_CAP_S
/// overrides).  A part of weight `w`, with `w_remaining` the weight of all parts not yet run
/// (including this one), may use the fraction w / w_remaining of the time that is left.  Hitting a
/// deadline is reported through `rep.not_exhaustive`.
pub fn set_deadline(thorough: bool, w: f64, w_remaining: f64) {
    let start = *START.get_or_init(std::time::Instant::now);
    let cap = std::env::var("VERIF_WALL_CAP_S").ok().and_then(|s| s.parse().ok()).unwrap_or(if thorough { 540.0f64 } else { 50.0 });
    let now = start.elapsed().as_secs_f64();
    let left = (cap - now).max(0.0);
    // small parts always get a minimum slice (they finish within it on any machine)
    let min_slice = if thorough { 20.0 } else { 5.0 };
    let deadline = now + (left * (w / w_remaining.max(w)).min(1.0)).max(min_slice).min(left);
    DEADLINE_MS.store(((deadline * 1000.0) as u64).max(1), Ordering::Relaxed);
}
pub fn past_deadline() -> bool {
    let d = DEADLINE_MS.load(Ordering::Relaxed);
    if d == 0 {
        return false;
    }
    let now = START.get().map(|s| s.elapsed().as_millis() as u64).unwrap_or(0);
    if now > d {
        CAPPED.store(true, Ordering::Relaxed);
        true
    } else {
        false
    }
}
/// Development aid: VERIF_PARTS=a,b restricts a check to the named parts.
pub fn part_selected(name: &str) -> bool {
    match std::env::var("VERIF_PARTS") {
        Ok(v) => v.split(',').any(|p| p == name),
        Err(_) => true,
    }
}
pub fn report_cap(rep: &mut Report) {
    if CAPPED.load(Ordering::Relaxed) {
        rep.not_exhaustive("wall-clock cap reached: some histories of the deepest level were not visited (see counters of the last parts)");
    }
}

/// CPU seconds (user + system) used by this process so far.
pub fn cpu_s() -> f64 {
    let Ok(s) = std::fs::read_to_string("/proc/self/stat") else { return 0.0 };
    let Some(rest) = s.rsplit(')').next() else { return 0.0 };
    let f: Vec<&str> = rest.split_whitespace().collect();
    let t = |i: usize| f.get(i).and_then(|x| x.parse::<f64>().ok()).unwrap_or(0.0);
    (t(11) + t(12)) / 100.0
}

/// Report the violations collected over all parts (occurrence counts preserved up to 100000).
pub fn emit_violations(rep: &mut Report, sink: BTreeMap<String, Viol>) {
    let mut counts = serde_json::Map::new();
    for (k, v) in sink {
        counts.insert(k.clone(), json!(v.count));
        for _ in 0..v.count.min(100_000) {
            rep.violation(k.clone(), v.what.clone(), v.replay.clone());
        }
    }
    rep.set("violation_occurrences", Value::Object(counts));
}

/// Run `work(item, &mut accu)` for every item on `threads` workers; accumulators are merged in
/// worker order (all merged quantities are order-independent: sums, sets, minima).
pub fn par_run<T: Sync>(threads: usize, items: &[T], work: impl Fn(&T, &mut Accu) + Sync) -> Accu {
    let next = AtomicUsize::new(0);
    let out: Mutex<Vec<Accu>> = Mutex::new(vec![]);
    std::thread::scope(|s| {
        for _ in 0..threads.max(1) {
            s.spawn(|| {
                let mut acc = Accu::default();
                loop {
                    let i = next.fetch_add(1, Ordering::Relaxed);
                    if i >= items.len() {
                        break;
                    }
                    if past_deadline() {
                        acc.count("work_items_skipped_by_wall_cap", 1);
                        continue;
                    }
                    work(&items[i], &mut acc);
                }
                out.lock().unwrap().push(acc);
            });
        }
    });
    let mut total = Accu::default();
    for a in out.into_inner().unwrap() {
        total.merge(a);
    }
    total
}
