//! Checks on p2panda-auth: C31 (convergence), C32 (merge laws), C33 (authorisation).
use explorer::{Args, Report};

mod c31;
mod model;

fn main() {
    let args = Args::parse();
    explorer::quiet_panics();
    let code = match args.property.as_str() {
        "C31" => c31::run(Report::new(&args, "model_checking")),
        other => {
            eprintln!("vh-auth: unknown property {other}");
            2
        }
    };
    std::process::exit(code);
}
