use explorer::{Args, Report};

fn main() {
    let args = Args::parse();
    explorer::quiet_panics();
    let code = match args.property.as_str() {
        // "Cxx" => cxx::run(Report::new(&args, "model_checking")),
        other => {
            eprintln!("vh-auth: unknown property {other}");
            2
        }
    };
    let _ = Report::new(&args, "model_checking");
    std::process::exit(code);
}
