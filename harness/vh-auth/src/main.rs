//! Checks on p2panda-auth: C31 (convergence), C32 (merge laws), C33 (authorisation).
use explorer::{Args, Report};

// Paths that the source-included `/repo/p2panda-auth/src/group/crdt/state.rs` (see c32.rs) imports
// from its crate root: they are the real p2panda-auth items.
#[allow(unused_imports)]
pub use p2panda_auth::Access;
pub mod traits {
    #[allow(unused_imports)]
    pub use p2panda_auth::traits::Conditions;
}

mod c31;
mod c32;
mod c33;
mod model;

fn main() {
    let args = Args::parse();
    explorer::quiet_panics();
    let code = explorer::guard_main(&args.property, || match args.property.as_str() {
        "C31" => c31::run(Report::new(&args, "model_checking")),
        "C32" => c32::run(Report::new(&args, "model_checking")),
        "C33" => c33::run(Report::new(&args, "model_checking")),
        other => {
            eprintln!("vh-auth: unknown property {other}");
            2
        }
    });
    std::process::exit(code);
}
