//! C32 Group state merge is commutative, associative and idempotent.
//!
//! E-ENUM on the real `state::merge`: `/repo/p2panda-auth/src/group/crdt/state.rs` is compiled into
//! this crate (`#[path]`), with `crate::Access` / `crate::traits::Conditions` being re-exports of
//! the real p2panda-auth items (see main.rs).  Every state over small member / counter / access
//! domains is built directly (the `pub(crate)` fields are reachable from inside the crate) and all
//! pairs (commutativity), all triples (associativity) and all states (idempotence) are evaluated.
//! A second part drives the library's own public `GroupCrdtInnerState::state_at` (which folds
//! `merge` over a `HashSet` of heads) on the same pairs and binds it to the included copy.
use std::collections::{HashMap, HashSet};

use explorer::{h64, json, Report};
use p2panda_auth::group::{GroupCrdtInnerState, GroupMember};
use p2panda_auth::Access;

use crate::model::{level_of, par_run, Accu, Id, Op, OpId, CT};

#[allow(dead_code)]
#[path = "/repo/p2panda-auth/src/group/crdt/state.rs"]
pub(crate) mod state;

use state::{GroupMembersState, MemberState};

/// One member's entry: (member_counter, access_counter, level, condition number); None = absent.
type MS = Option<(usize, usize, u8, u8)>;
/// Canonical, comparable form of a state.
type Canon<C> = Vec<(u8, usize, usize, u8, Option<C>)>;

fn access<C: CT>(level: u8, cond: u8) -> Access<C> {
    Access {
        level: level_of(level),
        conditions: C::mk(cond),
    }
}

fn build<C: CT>(ms: &[MS]) -> GroupMembersState<u8, C> {
    let mut members = HashMap::new();
    for (i, m) in ms.iter().enumerate() {
        if let Some((mc, ac, l, c)) = m {
            members.insert(
                i as u8,
                MemberState {
                    member_counter: *mc,
                    access: access::<C>(*l, *c),
                    access_counter: *ac,
                },
            );
        }
    }
    GroupMembersState { members }
}

fn canon<C: CT>(s: &GroupMembersState<u8, C>) -> Canon<C> {
    let mut v: Canon<C> = s
        .members
        .iter()
        .map(|(id, m)| (*id, m.member_counter, m.access_counter, crate::model::level_no(&m.access.level), m.access.conditions))
        .collect();
    v.sort();
    v
}

fn show_ms<C: CT>(m: &MS) -> String {
    match m {
        None => "absent".into(),
        Some((mc, ac, l, c)) => format!(
            "(member_counter {mc}, access_counter {ac}, {}{})",
            ["pull", "read", "write", "manage"][*l as usize],
            C::show(&C::mk(*c))
        ),
    }
}
fn show_state<C: CT>(s: &[MS]) -> String {
    format!("{{{}}}", s.iter().enumerate().map(|(i, m)| format!("m{i}: {}", show_ms::<C>(m))).collect::<Vec<_>>().join(", "))
}
fn show_canon<C: CT>(c: &Canon<C>) -> String {
    format!(
        "{{{}}}",
        c.iter()
            .map(|(id, mc, ac, l, cond)| format!("m{id}: (member_counter {mc}, access_counter {ac}, {}{})", ["pull", "read", "write", "manage"][*l as usize], C::show(cond)))
            .collect::<Vec<_>>()
            .join(", ")
    )
}

pub struct Domain {
    pub name: &'static str,
    pub members: usize,
    pub mcs: Vec<usize>,
    pub acs: Vec<usize>,
    /// (level, condition number)
    pub accesses: Vec<(u8, u8)>,
    pub triples: bool,
}

impl Domain {
    fn member_states(&self) -> Vec<MS> {
        let mut v: Vec<MS> = vec![None];
        for &mc in &self.mcs {
            for &ac in &self.acs {
                for &(l, c) in &self.accesses {
                    v.push(Some((mc, ac, l, c)));
                }
            }
        }
        v
    }
    fn states(&self) -> Vec<Vec<MS>> {
        let ms = self.member_states();
        let mut out: Vec<Vec<MS>> = vec![vec![]];
        for _ in 0..self.members {
            let mut next = vec![];
            for s in &out {
                for m in &ms {
                    let mut s2 = s.clone();
                    s2.push(*m);
                    next.push(s2);
                }
            }
            out = next;
        }
        out
    }
}

/// Does the tie-break comparison order x strictly below y?
fn lt<C: CT>(x: (u8, u8), y: (u8, u8)) -> bool {
    access::<C>(x.0, x.1) < access::<C>(y.0, y.1)
}

/// Class of a commutativity failure at one member.
fn comm_class<C: CT>(x: &MS, y: &MS) -> &'static str {
    match (x, y) {
        (None, _) | (_, None) => "member-in-one-state-only",
        (Some(x), Some(y)) => {
            if x.0 != y.0 {
                "member-counter-differs"
            } else if x.1 != y.1 {
                "access-counter-differs"
            } else {
                let (a, b) = (lt::<C>((x.2, x.3), (y.2, y.3)), lt::<C>((y.2, y.3), (x.2, x.3)));
                match (a, b) {
                    (true, true) => "equal-counters/each-access-less-than-the-other",
                    (false, false) => "equal-counters/neither-access-less",
                    _ => "equal-counters/accesses-ordered",
                }
            }
        }
    }
}

fn assoc_class<C: CT>(x: &MS, y: &MS, z: &MS) -> &'static str {
    match (x, y, z) {
        (Some(x), Some(y), Some(z)) if x.0 == y.0 && y.0 == z.0 && x.1 == y.1 && y.1 == z.1 => {
            let a = [(x.2, x.3), (y.2, y.3), (z.2, z.3)];
            // is `<` a strict total order on the three accesses?
            let mut total = true;
            for i in 0..3 {
                for j in 0..3 {
                    if i != j && a[i] != a[j] && lt::<C>(a[i], a[j]) == lt::<C>(a[j], a[i]) {
                        total = false;
                    }
                    for k in 0..3 {
                        if lt::<C>(a[i], a[j]) && lt::<C>(a[j], a[k]) && !lt::<C>(a[i], a[k]) {
                            total = false;
                        }
                    }
                }
            }
            if total { "equal-counters/accesses-ordered" } else { "equal-counters/access-comparison-not-an-order" }
        }
        _ => "counters-differ-or-member-absent",
    }
}

fn tie<C: CT>(x: &MS, y: &MS) -> bool {
    matches!((x, y), (Some(x), Some(y)) if x.0 == y.0 && x.1 == y.1 && (x.2, x.3) != (y.2, y.3))
}

fn run_domain<C: CT>(rep: &mut Report, d: &Domain, sink: &mut std::collections::BTreeMap<String, crate::model::Viol>) {
    let t0 = std::time::Instant::now();
    let descr = d.states();
    let built: Vec<GroupMembersState<u8, C>> = descr.iter().map(|s| build::<C>(s)).collect();
    let canons: Vec<Canon<C>> = built.iter().map(canon).collect();
    let n = descr.len();
    let idx: Vec<usize> = (0..n).collect();
    let present = |s: &[MS]| s.iter().filter(|m| m.is_some()).count();

    let total = par_run(rep.args.threads, &idx, |&a, acc: &mut Accu| {
        // idempotence
        acc.evals += 1;
        let r = canon(&state::merge(built[a].clone(), built[a].clone()));
        if r != canons[a] {
            acc.violation(format!("merge-not-idempotent/{}", C::NAME), present(&descr[a]), || {
                (
                    format!("conditions={}: merge(s, s) with s = {} returned {}", C::NAME, show_state::<C>(&descr[a]), show_canon(&r)),
                    json!({"conditions": C::NAME, "domain": d.name, "s": show_state::<C>(&descr[a])}),
                )
            });
        }
        // commutativity: all ordered pairs are covered by running a over everything and b > a
        let mut ab: Vec<GroupMembersState<u8, C>> = Vec::with_capacity(if d.triples { n } else { 0 });
        for b in 0..n {
            let m_ab = state::merge(built[a].clone(), built[b].clone());
            if b > a {
                acc.evals += 1;
                let c_ab = canon(&m_ab);
                let c_ba = canon(&state::merge(built[b].clone(), built[a].clone()));
                acc.outcomes.insert(h64(&(C::NAME, &c_ab)));
                if descr[a].iter().zip(&descr[b]).any(|(x, y)| tie::<C>(x, y)) {
                    // distinct across domains: keyed by the canonical states themselves
                    acc.nontrivial.insert(h64(&(C::NAME, 2u8, &canons[a], &canons[b])));
                }
                if c_ab != c_ba {
                    // first member whose merged entry differs
                    let i = (0..d.members)
                        .find(|i| c_ab.iter().find(|e| e.0 == *i as u8) != c_ba.iter().find(|e| e.0 == *i as u8))
                        .unwrap_or(0);
                    let class = comm_class::<C>(&descr[a][i], &descr[b][i]);
                    acc.violation(format!("merge-not-commutative/{}/{}", C::NAME, class), present(&descr[a]) + present(&descr[b]), || {
                        (
                            format!(
                                "conditions={}: s1 = {}, s2 = {}: merge(s1, s2) = {} but merge(s2, s1) = {}",
                                C::NAME, show_state::<C>(&descr[a]), show_state::<C>(&descr[b]), show_canon(&c_ab), show_canon(&c_ba)
                            ),
                            json!({"conditions": C::NAME, "domain": d.name, "s1": show_state::<C>(&descr[a]), "s2": show_state::<C>(&descr[b])}),
                        )
                    });
                }
            }
            if d.triples {
                ab.push(m_ab);
            }
        }
        if !d.triples {
            return;
        }
        // associativity: (a . b) . c  vs  a . (b . c)
        for b in 0..n {
            for c in 0..n {
                acc.evals += 1;
                let left = canon(&state::merge(ab[b].clone(), built[c].clone()));
                let bc = state::merge(built[b].clone(), built[c].clone());
                let right = canon(&state::merge(built[a].clone(), bc));
                if (0..d.members).any(|i| tie::<C>(&descr[a][i], &descr[b][i]) && tie::<C>(&descr[b][i], &descr[c][i]) && tie::<C>(&descr[a][i], &descr[c][i])) {
                    acc.nontrivial.insert(h64(&(C::NAME, 3u8, &canons[a], &canons[b], &canons[c])));
                }
                if left != right {
                    let i = (0..d.members)
                        .find(|i| left.iter().find(|e| e.0 == *i as u8) != right.iter().find(|e| e.0 == *i as u8))
                        .unwrap_or(0);
                    let class = assoc_class::<C>(&descr[a][i], &descr[b][i], &descr[c][i]);
                    acc.violation(
                        format!("merge-not-associative/{}/{}", C::NAME, class),
                        present(&descr[a]) + present(&descr[b]) + present(&descr[c]),
                        || {
                            (
                                format!(
                                    "conditions={}: s1 = {}, s2 = {}, s3 = {}: merge(merge(s1, s2), s3) = {} but merge(s1, merge(s2, s3)) = {}",
                                    C::NAME, show_state::<C>(&descr[a]), show_state::<C>(&descr[b]), show_state::<C>(&descr[c]), show_canon(&left), show_canon(&right)
                                ),
                                json!({"conditions": C::NAME, "domain": d.name, "s1": show_state::<C>(&descr[a]), "s2": show_state::<C>(&descr[b]), "s3": show_state::<C>(&descr[c])}),
                            )
                        },
                    );
                }
            }
        }
    });
    for c in &canons {
        rep.state(&(C::NAME, c));
    }
    let name = format!("{}/{}", d.name, C::NAME);
    let mut v = total.flush(rep, &name, sink);
    if let Some(o) = v.as_object_mut() {
        o.insert("states".into(), json!(n));
        o.insert("unordered_pairs".into(), json!(n * (n - 1) / 2));
        o.insert("triples".into(), json!(if d.triples { n * n * n } else { 0 }));
        o.insert("members".into(), json!(d.members));
        o.insert("member_counters".into(), json!(d.mcs));
        o.insert("access_counters".into(), json!(d.acs));
        o.insert("accesses(level,condition)".into(), json!(d.accesses));
        o.insert("wall_s".into(), json!(t0.elapsed().as_secs_f64()));
    }
    rep.part(v);
    if rep.want_sample() {
        // a pair in which the tie-break decides (last such pair of the domain)
        let pick = (0..n).rev().find_map(|a| (0..a).rev().find(|b| descr[a].iter().zip(&descr[*b]).any(|(x, y)| tie::<C>(x, y))).map(|b| (a, b)));
        if let Some((a, b)) = pick {
            let (a, b) = (&descr[a], &descr[b]);
            rep.sample(json!({"conditions": C::NAME, "domain": d.name, "s1": show_state::<C>(a), "s2": show_state::<C>(b),
                "merge(s1,s2)": show_canon(&canon(&state::merge(build::<C>(a), build::<C>(b)))),
                "merge(s2,s1)": show_canon(&canon(&state::merge(build::<C>(b), build::<C>(a))))}));
        }
    }
}

// ---------------------------------------------------------------------------------------------
// Public path: GroupCrdtInnerState::state_at folds merge over a HashSet of heads.
// ---------------------------------------------------------------------------------------------

type RealMembers<C> = p2panda_auth::group::GroupMembersState<GroupMember<Id>, C>;

fn to_real<C: CT>(s: &[MS]) -> RealMembers<C> {
    // same shape, other type: member ids become GroupMember::Individual(Id)
    let mut members = HashMap::new();
    for (i, m) in s.iter().enumerate() {
        if let Some((mc, ac, l, c)) = m {
            members.insert(
                GroupMember::Individual(Id(i as u8)),
                MemberState {
                    member_counter: *mc,
                    access: access::<C>(*l, *c),
                    access_counter: *ac,
                },
            );
        }
    }
    let included = GroupMembersState { members };
    let bytes = p2panda_core::cbor::encode_cbor(&included).expect("encode");
    p2panda_core::cbor::decode_cbor(&bytes[..]).expect("decode into the library type")
}

fn from_real<C: CT>(r: &RealMembers<C>) -> Canon<C> {
    let bytes = p2panda_core::cbor::encode_cbor(r).expect("encode");
    let inc: GroupMembersState<GroupMember<Id>, C> = p2panda_core::cbor::decode_cbor(&bytes[..]).expect("decode");
    let mut v: Canon<C> = inc
        .members
        .iter()
        .map(|(id, m)| (id.id().0, m.member_counter, m.access_counter, crate::model::level_no(&m.access.level), m.access.conditions))
        .collect();
    v.sort();
    v
}

fn run_public<C: CT>(rep: &mut Report, d: &Domain, reps: usize, sink: &mut std::collections::BTreeMap<String, crate::model::Viol>) {
    let descr = d.states();
    let n = descr.len();
    let idx: Vec<usize> = (0..n).collect();
    let g = Id(10);
    let total = par_run(rep.args.threads, &idx, |&a, acc: &mut Accu| {
        for b in 0..n {
            if b == a {
                continue;
            }
            acc.evals += 1;
            let m_ab = canon(&state::merge(build::<C>(&descr[a]), build::<C>(&descr[b])));
            let m_ba = canon(&state::merge(build::<C>(&descr[b]), build::<C>(&descr[a])));
            let mut inner = GroupCrdtInnerState::<Id, OpId, Op<C>, C>::default();
            inner.states.insert(OpId(1), HashMap::from([(g, to_real::<C>(&descr[a]))]));
            inner.states.insert(OpId(2), HashMap::from([(g, to_real::<C>(&descr[b]))]));
            let mut seen: Vec<Canon<C>> = vec![];
            for _ in 0..reps {
                let heads: HashSet<OpId> = HashSet::from_iter([OpId(1), OpId(2)]);
                let r = inner.state_at(&heads).expect("both states present");
                let c = from_real::<C>(r.get(&g).expect("group present"));
                if !seen.contains(&c) {
                    seen.push(c);
                }
            }
            for c in &seen {
                if *c != m_ab && *c != m_ba {
                    acc.violation(format!("library-state_at-differs-from-included-merge/{}", C::NAME), 2, || {
                        (
                            format!(
                                "conditions={}: p2panda_auth state_at over heads with states {} and {} returned {}, the included merge gives {} / {}",
                                C::NAME, show_state::<C>(&descr[a]), show_state::<C>(&descr[b]), show_canon(c), show_canon(&m_ab), show_canon(&m_ba)
                            ),
                            json!({"conditions": C::NAME, "domain": d.name}),
                        )
                    });
                }
            }
            if seen.len() > 1 {
                acc.count("pairs_where_state_at_returned_different_results_on_repetition", 1);
                acc.sample(h64(&(a, b)), || {
                    json!({"conditions": C::NAME, "public_path": "GroupCrdtInnerState::state_at({h1,h2}) repeated on one object",
                        "state_h1": show_state::<C>(&descr[a]), "state_h2": show_state::<C>(&descr[b]),
                        "results": seen.iter().map(show_canon).collect::<Vec<_>>()})
                });
            }
            if m_ab != m_ba {
                acc.count("pairs_not_commutative", 1);
            }
        }
    });
    let name = format!("public-path/{}/{}", d.name, C::NAME);
    let mut v = total.flush(rep, &name, sink);
    if let Some(o) = v.as_object_mut() {
        o.insert("ordered_pairs".into(), json!(n * (n - 1)));
        o.insert("repetitions_per_pair".into(), json!(reps));
    }
    rep.part(v);
}

pub fn domains(thorough: bool, conditioned: bool) -> Vec<Domain> {
    let lv = |ls: &[u8]| ls.iter().map(|l| (*l, 0u8)).collect::<Vec<_>>();
    let with_conds = |ls: &[u8], cs: &[u8]| {
        let mut v = vec![];
        for l in ls {
            for c in cs {
                v.push((*l, *c));
            }
        }
        v
    };
    match (thorough, conditioned) {
        (false, false) => vec![
            Domain { name: "one-member", members: 1, mcs: vec![1, 2, 3], acs: vec![0, 1, 2], accesses: lv(&[0, 1, 2, 3]), triples: true },
            Domain { name: "two-members", members: 2, mcs: vec![1, 2], acs: vec![0, 1], accesses: lv(&[0, 1, 3]), triples: true },
        ],
        (false, true) => vec![
            Domain { name: "one-member", members: 1, mcs: vec![1, 2, 3], acs: vec![0, 1], accesses: with_conds(&[0, 1, 2, 3], &[0, 1, 2]), triples: true },
            Domain { name: "two-members", members: 2, mcs: vec![1], acs: vec![0, 1], accesses: vec![(1, 0), (1, 1), (1, 2), (2, 1), (2, 0)], triples: true },
            Domain { name: "two-members-pairs", members: 2, mcs: vec![1, 2], acs: vec![0, 1], accesses: with_conds(&[1, 2, 3], &[0, 1, 2]), triples: false },
        ],
        (true, false) => vec![
            Domain { name: "one-member", members: 1, mcs: vec![0, 1, 2, 3], acs: vec![0, 1, 2, 3], accesses: lv(&[0, 1, 2, 3]), triples: true },
            Domain { name: "two-members", members: 2, mcs: vec![1, 2, 3], acs: vec![0, 1], accesses: lv(&[0, 1, 2, 3]), triples: true },
            Domain { name: "two-members-pairs", members: 2, mcs: vec![0, 1, 2, 3], acs: vec![0, 1, 2], accesses: lv(&[0, 1, 2, 3]), triples: false },
        ],
        (true, true) => vec![
            Domain { name: "one-member", members: 1, mcs: vec![0, 1, 2, 3], acs: vec![0, 1, 2], accesses: with_conds(&[0, 1, 2, 3], &[0, 1, 2, 3]), triples: true },
            Domain { name: "two-members", members: 2, mcs: vec![1, 2], acs: vec![0, 1], accesses: vec![(1, 0), (1, 1), (1, 2), (2, 1), (2, 0), (3, 3)], triples: true },
            Domain { name: "two-members-pairs", members: 2, mcs: vec![0, 1, 2], acs: vec![0, 1], accesses: with_conds(&[0, 1, 2, 3], &[0, 1, 2]), triples: false },
        ],
    }
}

pub fn run(mut rep: Report) -> i32 {
    let thorough = rep.thorough();
    let mut sink = std::collections::BTreeMap::new();
    rep.rule = "one evaluation = one state (idempotence), one unordered pair of states (commutativity) or one ordered triple (associativity) of the domain, all enumerated; non-trivial = some member is present in all the merged states with equal member and access counters but different access (the tie-break decides)".into();
    for d in domains(thorough, false) {
        run_domain::<()>(&mut rep, &d, &mut sink);
    }
    for d in domains(thorough, true) {
        run_domain::<crate::model::Cond>(&mut rep, &d, &mut sink);
    }
    // Public path on the one-member domains.
    let reps = 12;
    run_public::<()>(&mut rep, &domains(false, false)[0], reps, &mut sink);
    run_public::<crate::model::Cond>(&mut rep, &domains(false, true)[0], reps, &mut sink);
    crate::model::emit_violations(&mut rep, sink);
    rep.assume("`Access<()>` is only used with `conditions: None` (\"without conditions\"); the conditioned domain uses a condition type whose PartialOrd is the derived total order of a u8 and the values None < c1 < c2 (< c3 in the thorough tier)");
    rep.assume("merge treats every member key independently and compares counters only with ==, <, >: counters beyond 3 and more than two members behave like the enumerated ones");
    rep.assume("public-path part: the argument order in which state_at folds merge over its HashSet of heads cannot be owned (RandomState); it is repeated 12 times per pair and every result must equal one of the two argument orders of the included merge");
    rep.finish()
}
