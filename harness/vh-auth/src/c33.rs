//! C33 Only authorized actors change group membership.
//!
//! Same history generation as C31 (dependencies = heads of a downward-closed subset of the accepted
//! operations), but the alphabet contains every actor as author - managers, plain members, removed
//! members, strangers - acting on existing and on unknown groups, for every possible declared
//! dependency set.  Every candidate is given to the real `GroupCrdt::process` on a replica that
//! holds the whole history and the verdict is compared with a reference authoriser written from
//! the property text:
//!
//! * the *state at the declared dependencies* is read from a real replica that processed exactly
//!   the causal past of the dependencies (`root_members` / `has_group`);
//! * authorised  = the author is an active direct member of the group with `Manage` level there,
//!   or the action removes the author itself and the author is an active direct member; a `create`
//!   needs no rights unless the group already exists there;
//! * valid = what the doc comments of `state::{add, remove, promote, demote}` and `validate`
//!   demand (target not yet / still an active member, no manager sub-groups, no nesting cycle).
//!
//! Oracle: accepted => authorised and valid (the property); authorised and valid => accepted by the
//! full replica and by every replica that holds a superset of the causal past; no panic; a refused
//! or duplicate delivery leaves every query answer unchanged; every active member was named by an
//! accepted create/add of that group.
use std::collections::{BTreeMap, BTreeSet};

use explorer::{h64, json, Report};
use p2panda_auth::group::{GroupAction, GroupMember};
use p2panda_auth::Access;

use crate::model::*;

pub struct Part {
    pub name: &'static str,
    pub alpha: AlphaCfg,
    /// Attempts are made on every accepted history of at most this many operations.
    pub max_len: usize,
    pub max_heads: usize,
    /// Generate accepted histories only in lexicographic normal form (see `Hist::canonical_next`).
    pub canonical: bool,
}

struct Ctx<'a, C: CT> {
    part: &'a Part,
    cands: Vec<Cand<C>>,
    /// Alphabet-independent hash of every candidate (for counting distinct attempts over parts).
    cand_hash: Vec<u64>,
}

/// The state at a set of operations, as the real code reports it.
#[derive(Clone, Debug)]
struct View<C: CT> {
    exists: BTreeSet<Id>,
    direct: BTreeMap<Id, Vec<(GroupMember<Id>, Access<C>)>>,
}

fn view<C: CT>(y: &St<C>, groups: &[Id]) -> Result<View<C>, String> {
    explorer::catch(|| {
        let mut v = View {
            exists: BTreeSet::new(),
            direct: BTreeMap::new(),
        };
        for g in groups {
            if y.has_group(*g) {
                v.exists.insert(*g);
            }
            let mut d = y.root_members(*g);
            d.sort_by_key(|(m, _)| *m);
            v.direct.insert(*g, d);
        }
        v
    })
}

impl<C: CT> View<C> {
    fn find(&self, g: Id, m: GroupMember<Id>) -> Option<&Access<C>> {
        self.direct.get(&g).and_then(|d| d.iter().find(|(x, _)| *x == m).map(|(_, a)| a))
    }
    /// Would adding group `child` to group `parent` close a nesting cycle?
    fn cycle(&self, parent: Id, child: Id) -> bool {
        let mut stack = vec![child];
        let mut seen = BTreeSet::new();
        while let Some(c) = stack.pop() {
            if !seen.insert(c) {
                continue;
            }
            if c == parent {
                return true;
            }
            for (m, _) in self.direct.get(&c).map(|v| v.as_slice()).unwrap_or(&[]) {
                if let GroupMember::Group(id) = m {
                    stack.push(*id);
                }
            }
        }
        false
    }
}

/// The reference authoriser.  `Err((family, why))`: family = "unauthorised" | "invalid" (the
/// operation must be refused) or "either" (the property text does not decide: a manager creating
/// its own, already existing group again - accepted or refused, both are fine).
fn authorise<C: CT>(v: &View<C>, op: &Op<C>) -> Result<(), (&'static str, &'static str)> {
    let g = op.group;
    let author = ind(op.author);
    let exists = v.exists.contains(&g);
    let author_access = v.find(g, author);
    let is_manager = author_access.map(|a| a.is_manage()).unwrap_or(false);
    match &op.action {
        GroupAction::Create { .. } => {
            if exists && !is_manager {
                return Err(("unauthorised", "group-exists"));
            }
            if exists {
                return Err(("either", "group-exists-author-is-manager"));
            }
            Ok(())
        }
        other => {
            if !exists {
                return Err(("invalid", "group-unknown"));
            }
            let self_remove = matches!(other, GroupAction::Remove { member } if *member == author);
            match author_access {
                None => return Err(("unauthorised", "author-not-member")),
                Some(_) if !is_manager && !self_remove => return Err(("unauthorised", "author-not-manager")),
                _ => {}
            }
            match other {
                GroupAction::Add { member, access } => {
                    if member.is_group() && access.is_manage() {
                        return Err(("invalid", "manager-group"));
                    }
                    if v.find(g, *member).is_some() {
                        return Err(("invalid", "target-already-member"));
                    }
                    if member.is_group() && v.cycle(g, member.id()) {
                        return Err(("invalid", "cycle"));
                    }
                }
                GroupAction::Remove { member } => {
                    if v.find(g, *member).is_none() {
                        return Err(("invalid", "target-not-member"));
                    }
                }
                GroupAction::Promote { member, access } => {
                    if member.is_group() && access.is_manage() {
                        return Err(("invalid", "manager-group"));
                    }
                    if v.find(g, *member).is_none() {
                        return Err(("invalid", "target-not-member"));
                    }
                }
                GroupAction::Demote { member, .. } => {
                    if v.find(g, *member).is_none() {
                        return Err(("invalid", "target-not-member"));
                    }
                }
                GroupAction::Create { .. } => unreachable!(),
            }
            Ok(())
        }
    }
}

fn target_of<C>(a: &GroupAction<Id, C>) -> Option<GroupMember<Id>> {
    match a {
        GroupAction::Create { .. } => None,
        GroupAction::Add { member, .. } | GroupAction::Remove { member } | GroupAction::Promote { member, .. } | GroupAction::Demote { member, .. } => Some(*member),
    }
}

/// Was `m` named by a create/add of group `g` among the operations of `mask`?
fn introduced<C: CT>(h: &Hist<C>, mask: u32, extra: Option<&Op<C>>, g: Id, m: GroupMember<Id>) -> bool {
    let named = |op: &Op<C>| {
        op.group == g
            && match &op.action {
                GroupAction::Create { initial_members } => initial_members.iter().any(|(x, _)| *x == m),
                GroupAction::Add { member, .. } => *member == m,
                _ => false,
            }
    };
    (0..h.n()).any(|i| mask & (1 << i) != 0 && named(&h.ops[i].op)) || extra.map(named).unwrap_or(false)
}

/// Access level left in the (inactive) entry of `m` in group `g` of a real replica state.  The
/// entry is not reachable through the public API (only active members are listed), so the state
/// is moved through serde into the source-included copy of `state.rs` (see c32.rs), whose fields
/// are visible.  Only used to name violation classes, never for a verdict.
fn stale_level<C: CT>(y: &St<C>, g: Id, m: GroupMember<Id>) -> Option<u8> {
    explorer::catch(|| {
        let cs = y.inner.current_state();
        let gs = cs.get(&g)?;
        let bytes = p2panda_core::cbor::encode_cbor(gs).ok()?;
        let inc: crate::c32::state::GroupMembersState<GroupMember<Id>, C> = p2panda_core::cbor::decode_cbor(&bytes[..]).ok()?;
        inc.members.get(&m).map(|e| level_no(&e.access.level))
    })
    .ok()
    .flatten()
}

/// Class of the target in the state at the dependencies (part of the violation key, so that two
/// different defects of the same action get different keys).
fn target_class<C: CT>(v: &View<C>, y_deps: &St<C>, h: &Hist<C>, mask: u32, op: &Op<C>) -> &'static str {
    let Some(m) = target_of(&op.action) else { return "-" };
    match v.find(op.group, m) {
        Some(a) if a.is_manage() => "target-manager",
        Some(a) if a.is_pull() => "target-pull",
        Some(_) => "target-member",
        None if introduced(h, mask, None, op.group, m) => match stale_level(y_deps, op.group, m) {
            Some(MANAGE) => "target-removed-manager",
            Some(PULL) => "target-removed-pull",
            _ => "target-removed-member",
        },
        None => "target-unknown",
    }
}

struct Node<C: CT> {
    h: Hist<C>,
    /// One real replica per downward-closed subset of the history (mask, state, view).
    reps: Vec<(u32, St<C>, View<C>)>,
}

impl<C: CT> Node<C> {
    fn rep(&self, mask: u32) -> &(u32, St<C>, View<C>) {
        self.reps.iter().find(|r| r.0 == mask).expect("replica for every downward-closed subset")
    }
}

fn membership_invariant<C: CT>(cx: &Ctx<C>, h: &Hist<C>, y: &St<C>, acc: &mut Accu) {
    let groups = &cx.part.alpha.groups;
    let full = h.full();
    for &g in groups {
        let (root, members) = match explorer::catch(|| (y.root_members(g), y.members(g))) {
            Ok(x) => x,
            Err(p) => {
                acc.violation("panic/query".into(), h.n(), || {
                    (format!("after accepted history {:?} a membership query of {} panicked: {p}", h.show(), idn(g)), json!({"history": h.to_json()}))
                });
                continue;
            }
        };
        for (m, _) in &root {
            if !introduced(h, full, None, g, *m) {
                acc.violation(format!("member-without-introduction/{}/direct", C::NAME), h.n(), || {
                    (
                        format!("after the accepted history {:?}, {} is an active direct member of {} although no accepted create/add of {} names it", h.show(), show_mem(m), idn(g), idn(g)),
                        json!({"conditions": C::NAME, "history": h.to_json()}),
                    )
                });
            }
        }
        // transitive: individuals introduced in g or in a group reachable through introduced
        // sub-group memberships
        let mut reach = vec![g];
        let mut i = 0;
        while i < reach.len() {
            for &g2 in groups {
                if !reach.contains(&g2) && introduced(h, full, None, reach[i], grp(g2)) {
                    reach.push(g2);
                }
            }
            i += 1;
        }
        for (m, _) in &members {
            if !reach.iter().any(|r| introduced(h, full, None, *r, ind(*m))) {
                acc.violation(format!("member-without-introduction/{}/transitive", C::NAME), h.n(), || {
                    (
                        format!("after the accepted history {:?}, members({}) contains {} although no accepted create/add of {} or of a nested group names it", h.show(), idn(g), idn(*m), idn(g)),
                        json!({"conditions": C::NAME, "history": h.to_json()}),
                    )
                });
            }
        }
    }
}

fn visit<C: CT>(cx: &Ctx<C>, node: &Node<C>, acc: &mut Accu) {
    if past_deadline() {
        acc.count("histories_skipped_by_wall_cap", 1);
        return;
    }
    let children = attempt_all(cx, node, acc, true);
    if node.h.n() >= cx.part.max_len {
        return;
    }
    for child in children {
        visit(cx, &child, acc);
    }
}

/// All attempts on one accepted history.  Returns the child nodes (one per accepted, authorised
/// operation) if `want_children`.
fn attempt_all<C: CT>(cx: &Ctx<C>, node: &Node<C>, acc: &mut Accu, want_children: bool) -> Vec<Node<C>> {
    let h = &node.h;
    let groups = &cx.part.alpha.groups;
    let full = h.full();
    let (_, y_full, _) = node.rep(full);
    acc.count(&format!("histories_len_{}", h.n()), 1);
    acc.states.insert(h64(&(C::NAME, h.content_hash())));
    // alphabet-independent identity of the accepted history (operation texts)
    let hist_hash = h64(&h.show());
    let before = observe(y_full, groups);
    let expand_children = want_children && h.n() < cx.part.max_len;
    let mut children = vec![];

    for &(dmask, ref y_deps, ref dview) in &node.reps {
        if h.heads(dmask).len() > cx.part.max_heads {
            continue;
        }
        for (ix, cand) in cx.cands.iter().enumerate() {
            let hop = h.make_op(cand, ix, dmask);
            let op = &hop.op;
            acc.evals += 1;
            acc.transitions += 1;
            let expected = authorise(dview, op);
            let act = action_name(&op.action);
            let describe = |verdict: &str| {
                format!(
                    "conditions={}: replica holds {:?}; then {} {}. State at the declared dependencies {:?}: {}",
                    C::NAME,
                    h.show(),
                    show_op(op),
                    verdict,
                    op.deps.iter().map(|d| d.0).collect::<Vec<_>>(),
                    groups
                        .iter()
                        .map(|g| format!(
                            "{}{}: [{}]",
                            idn(*g),
                            if dview.exists.contains(g) { "" } else { " (unknown)" },
                            dview.direct[g].iter().map(|(m, a)| format!("{}:{}", show_mem(m), show_acc(a))).collect::<Vec<_>>().join(",")
                        ))
                        .collect::<Vec<_>>()
                        .join(" ")
                )
            };
            let replay = || json!({"conditions": C::NAME, "history": h.to_json(), "attempt": show_op(op)});
            if let Err(("unauthorised", _)) = expected {
                acc.nontrivial.insert(h64(&(C::NAME, hist_hash, dmask, cx.cand_hash[ix])));
            }
            let result = process(y_full.clone(), op);
            // "either": whatever the code decides is what the reference expects
            let expected = match expected {
                Err(("either", _)) if matches!(result, Proc::Ok(_)) => Ok(()),
                Err(("either", why)) => Err(("invalid", why)),
                e => e,
            };
            match result {
                Proc::Panic(p) => {
                    let why = match expected {
                        Ok(()) => "authorised-operation",
                        Err((_, why)) => why,
                    };
                    acc.outcomes.insert(h64(&(act, why, "panic")));
                    // one defect, whatever the action: an operation on a group that is unknown at
                    // its dependencies; any other panic keeps the action in its key
                    let key = if why == "group-unknown" { "panic/group-unknown".to_string() } else { format!("panic/{act}/{why}") };
                    acc.violation(key, h.n() + 1, || (describe(&format!("makes process() panic: `{p}`")), replay()));
                }
                Proc::Err(e) => match expected {
                    Err((_, why)) => {
                        acc.outcomes.insert(h64(&(act, why, &e)));
                    }
                    Ok(()) => {
                        acc.outcomes.insert(h64(&(act, "ok", &e)));
                        acc.violation(format!("rejected-authorised/{act}/{e}"), h.n() + 1, || {
                            (describe(&format!("is refused with `{e}` although its author is an active manager there (or removes itself) and the action is valid there")), replay())
                        });
                    }
                },
                Proc::Ok(y2) => match expected {
                    Err((fam, why)) => {
                        acc.outcomes.insert(h64(&(act, why, "accepted")));
                        let tc = target_class(dview, y_deps, h, dmask, op);
                        // unauthorised: the class of the target tells defects of one action apart
                        // (author-not-member / author-not-manager is reported in the text only)
                        let key = if tc == "-" {
                            format!("accepted-{fam}/{act}/{why}")
                        } else if fam == "unauthorised" {
                            format!("accepted-{fam}/{act}/{tc}")
                        } else {
                            format!("accepted-{fam}/{act}/{why}/{tc}")
                        };
                        let changed = match (&before, observe(&y2, groups)) {
                            (Ok(b), Ok(a)) => {
                                if *b == a { "; the query answers did not change, but the operation is now part of the graph".to_string() } else { format!("; afterwards: {}", show_obs(&a, groups)) }
                            }
                            _ => String::new(),
                        };
                        acc.violation(key, h.n() + 1, || (describe(&format!("is ACCEPTED although it is {fam} there ({why}, {tc}){changed}")), replay()));
                    }
                    Ok(()) => {
                        acc.outcomes.insert(h64(&(act, "ok", "accepted")));
                        acc.count("accepted_authorised", 1);
                        let h2 = h.with(hop.clone());
                        membership_invariant(cx, &h2, &y2, acc);
                        if !expand_children || (cx.part.canonical && !h.canonical_next(&hop)) {
                            continue;
                        }
                        // Every replica that holds a superset of the causal past must accept too.
                        let bit = 1u32 << h.n();
                        let mut reps2: Vec<(u32, St<C>, View<C>)> = node.reps.iter().map(|r| (r.0, r.1.clone(), r.2.clone())).collect();
                        let mut complete = true;
                        for (m, ym, _) in &node.reps {
                            if m & dmask != dmask {
                                continue;
                            }
                            let y_new = if *m == full {
                                Some(y2.clone())
                            } else {
                                acc.transitions += 1;
                                match process(ym.clone(), op) {
                                    Proc::Ok(y) => Some(y),
                                    Proc::Err(e) => {
                                        acc.violation(format!("acceptance-depends-on-replica/{act}/{e}"), h.n() + 1, || {
                                            (
                                                describe(&format!(
                                                    "is accepted by the replica holding everything, but the replica holding only operations {:?} (a superset of the causal past) refuses it with `{e}`",
                                                    (0..h.n()).filter(|i| m & (1 << i) != 0).collect::<Vec<_>>()
                                                )),
                                                replay(),
                                            )
                                        });
                                        None
                                    }
                                    Proc::Panic(p) => {
                                        acc.violation(format!("panic/{act}/authorised-operation"), h.n() + 1, || {
                                            (describe(&format!("makes process() panic on the replica holding only {:?}: `{p}`", (0..h.n()).filter(|i| m & (1 << i) != 0).collect::<Vec<_>>())), replay())
                                        });
                                        None
                                    }
                                }
                            };
                            match y_new.map(|y| view(&y, groups).map(|v| (y, v))) {
                                Some(Ok((y, v))) => reps2.push((m | bit, y, v)),
                                _ => complete = false,
                            }
                        }
                        if complete {
                            children.push(Node { h: h2, reps: reps2 });
                        }
                    }
                },
            }
        }
    }

    // Duplicate delivery of every operation already held.
    for i in 0..h.n() {
        acc.transitions += 1;
        match process(y_full.clone(), &h.ops[i].op) {
            Proc::Err(_) => {}
            Proc::Ok(y2) => {
                if let (Ok(b), Ok(a)) = (&before, observe(&y2, groups)) {
                    if *b != a {
                        acc.violation(format!("duplicate-changes-state/{}", action_name(&h.ops[i].op.action)), h.n(), || {
                            (
                                format!("replica holds {:?}; delivering operation #{i} a second time is accepted and changes the answers from {{{}}} to {{{}}}", h.show(), show_obs(b, groups), show_obs(&a, groups)),
                                json!({"conditions": C::NAME, "history": h.to_json(), "duplicate": i}),
                            )
                        });
                    }
                }
            }
            Proc::Panic(p) => acc.violation("panic/duplicate-delivery".into(), h.n(), || {
                (format!("replica holds {:?}; delivering operation #{i} a second time panics: {p}", h.show()), json!({"history": h.to_json(), "duplicate": i}))
            }),
        }
    }
    // The replica that refused (or never saw) all of the above still answers as before.
    if let (Ok(b), Ok(a)) = (&before, observe(y_full, groups)) {
        if *b != a {
            acc.violation(format!("refusal-changes-state/{}", C::NAME), h.n(), || {
                (
                    format!("replica holds {:?}; after the attempts above its answers changed from {{{}}} to {{{}}}", h.show(), show_obs(b, groups), show_obs(&a, groups)),
                    json!({"conditions": C::NAME, "history": h.to_json()}),
                )
            });
        }
    }
    acc.sample(h.content_hash(), || {
        json!({"conditions": C::NAME, "accepted_history": h.to_json(), "dependency_sets_tried": node.reps.len(), "candidates_per_dependency_set": cx.cands.len(),
               "state": before.as_ref().map(|o| show_obs(o, groups)).unwrap_or_default()})
    });
    children
}

fn run_part<C: CT>(rep: &mut Report, part: &Part, sink: &mut std::collections::BTreeMap<String, Viol>) {
    let t0 = std::time::Instant::now();
    let c0 = cpu_s();
    let cands = part.alpha.cands::<C>();
    let cx = Ctx::<C> {
        part,
        cand_hash: cands.iter().map(|c| h64(&format!("{:?}/{:?}/{:?}", c.author, c.group, c.action))).collect(),
        cands,
    };
    let groups = &part.alpha.groups;
    let seed_len = part.max_len.min(2);
    let mut items: Vec<Node<C>> = vec![];
    let mut seq = Accu::default();
    fn seed<C: CT>(cx: &Ctx<C>, node: Node<C>, seed_len: usize, items: &mut Vec<Node<C>>, acc: &mut Accu) {
        if node.h.n() >= seed_len {
            items.push(node);
            return;
        }
        for child in attempt_all(cx, &node, acc, true) {
            seed(cx, child, seed_len, items, acc);
        }
    }
    // The empty history: every candidate against a replica that holds nothing.
    let y0 = Crdt::<C>::init();
    let v0 = view(&y0, groups).expect("queries on the empty replica");
    let empty = Node {
        h: Hist::<C>::default(),
        reps: vec![(0, y0.clone(), v0.clone())],
    };
    attempt_all(&cx, &empty, &mut seq, false);
    // Accepted histories start with `create G` by a (symmetry of actors and groups).
    for (rix, root) in part.alpha.roots::<C>().into_iter().enumerate() {
        let h0 = Hist::<C>::default();
        let hop = h0.make_op(&root, 1_000_000 + rix, 0);
        let Proc::Ok(y1) = process(y0.clone(), &hop.op) else {
            rep.machinery_error(format!("root operation {} not accepted", show_op(&hop.op)));
            continue;
        };
        let v1 = view(&y1, groups).expect("queries after create");
        let node = Node {
            h: h0.with(hop),
            reps: vec![(0, y0.clone(), v0.clone()), (1, y1, v1)],
        };
        seed(&cx, node, seed_len, &mut items, &mut seq);
    }
    let mut total = par_run(rep.args.threads, &items, |node, acc| visit(&cx, node, acc));
    total.merge(seq);
    let name = format!("{}/{}", part.name, C::NAME);
    let mut v = total.flush(rep, &name, sink);
    if let Some(o) = v.as_object_mut() {
        o.insert("max_accepted_history_len".into(), json!(part.max_len));
        o.insert("max_concurrent_heads".into(), json!(part.max_heads));
        o.insert("alphabet_size".into(), json!(cx.cands.len()));
        o.insert("conditions".into(), json!(C::NAME));
        o.insert("canonical_generation_order_only".into(), json!(part.canonical));
        o.insert("wall_s".into(), json!(t0.elapsed().as_secs_f64()));
        o.insert("cpu_s".into(), json!(cpu_s() - c0));
    }
    if std::env::var("VERIF_VERBOSE").is_ok() {
        eprintln!("  part {name}: wall {:.1}s cpu {:.1}s", t0.elapsed().as_secs_f64(), cpu_s() - c0);
    }
    rep.part(v);
}

fn m(l: u8) -> (u8, usize) {
    (l, 0)
}

pub fn parts(thorough: bool, conditioned: bool) -> Vec<Part> {
    let abc = vec![A, B, C_];
    let c_acc = |l: u8, c: usize| if conditioned { (l, c) } else { (l, 0) };
    let root1 = vec![(ind(A), m(MANAGE))];
    let root2 = vec![(ind(A), m(MANAGE)), (ind(B), c_acc(MANAGE, 1))];
    let root3 = vec![(ind(A), m(MANAGE)), (ind(B), m(MANAGE)), (ind(C_), c_acc(PULL, 1))];
    let root3r = vec![(ind(A), m(MANAGE)), (ind(B), c_acc(READ, 2)), (ind(C_), m(PULL))];
    let mut v = vec![];
    v.push(Part {
        name: "wide",
        alpha: AlphaCfg {
            name: "wide",
            actors: abc.clone(),
            groups: vec![G, H],
            root_creates: vec![root1.clone(), root2.clone(), root3.clone(), root3r.clone()],
            later_creates: vec![vec![(None, m(MANAGE))], vec![(Some(ind(A)), m(MANAGE)), (Some(ind(B)), c_acc(READ, 1))]],
            add_acc: vec![m(PULL), c_acc(READ, 1), m(MANAGE)],
            promote_acc: vec![c_acc(READ, 2), m(MANAGE)],
            demote_acc: vec![m(PULL), c_acc(READ, 1)],
            subgroups: true,
            remove: true,
        },
        max_len: if thorough { 3 } else { 2 },
        max_heads: 3,
        canonical: false,
    });
    v.push(Part {
        name: "deep",
        alpha: AlphaCfg {
            name: "deep",
            actors: abc.clone(),
            groups: vec![G],
            root_creates: vec![root3.clone(), root3r.clone()],
            later_creates: vec![vec![(None, m(MANAGE))]],
            add_acc: vec![m(PULL), c_acc(MANAGE, 1)],
            promote_acc: vec![m(MANAGE)],
            demote_acc: vec![m(PULL)],
            subgroups: false,
            remove: true,
        },
        max_len: if thorough { 4 } else { 3 },
        max_heads: 2,
        canonical: thorough,
    });
    {
        v.push(Part {
            name: "nested",
            alpha: AlphaCfg {
                name: "nested",
                actors: vec![A, B],
                groups: vec![G, H],
                root_creates: vec![root2.clone()],
                later_creates: vec![vec![(None, m(MANAGE))]],
                add_acc: vec![c_acc(READ, 1), m(MANAGE)],
                promote_acc: vec![m(MANAGE)],
                demote_acc: vec![m(PULL)],
                subgroups: true,
                remove: true,
            },
            max_len: if thorough { 4 } else { 3 },
            max_heads: 2,
            canonical: thorough,
        });
    }
    v
}

pub fn run(mut rep: Report) -> i32 {
    let thorough = rep.thorough();
    rep.rule = "one evaluation = one attempted operation (author x group x action x declared dependency set) on a replica holding one accepted history; the real process() verdict is compared with the reference authoriser evaluated on the state at the declared dependencies; non-trivial = attempts the reference classifies as unauthorised (author not an active manager of an existing group)".into();
    let mut sink = std::collections::BTreeMap::new();
    let ps = parts(thorough, false);
    for (i, p) in ps.iter().enumerate() {
        if part_selected(p.name) {
            set_deadline(thorough, 1.0, (ps.len() - i) as f64);
            run_part::<()>(&mut rep, p, &mut sink);
        }
    }
    // A run with a conditioned access type is deliberately not part of this check: with conditions
    // the state at a set of concurrent heads is not a function of the operation set (C31/C32
    // findings), so neither the reference view nor the verdict would be deterministic.
    let _ = parts(thorough, true).len();
    let _ = Cond(0);
    rep.assume("\"manager\" is read as the code defines it: an active *direct* member of the group whose access level is Manage (conditions are ignored for this purpose); manager sub-groups are rejected by design");
    rep.assume("the state at the declared dependencies is obtained from a real replica that processed exactly the causal past of the dependencies (C31 checks that this state does not depend on the delivery order)");
    rep.assume("operations are only offered to replicas that already hold their dependencies (causal delivery is a documented precondition of process())");
    rep.assume("process() takes the replica by value, so 'a rejected operation leaves the replica unchanged' can only be observed on the caller's copy; that copy is re-queried after all attempts");
    rep.assume("accepted histories start with `create G` by a (symmetry); attempts on the empty replica are enumerated separately; the search does not continue below an operation that was wrongly accepted");
    emit_violations(&mut rep, sink);
    report_cap(&mut rep);
    rep.finish()
}
