//! Binding of the MemStore-based explorations to the real `SqliteStore`.
//!
//! The protocol checks of this crate explore schedules on `refmodel::MemStore` (so that the
//! explorer owns every await point).  This module replays a configuration once on two real
//! `SqliteStore`s (in-memory SQLite, real sqlx pool, real tokio runtime) and demands that the
//! observable transcript is the one the MemStore run produced: per side the outcome, every message
//! written to the sink, every operation announced, the result of ingesting the announced
//! operations with the real `ingest_operation`, and the heights of every log afterwards.
//!
//! Why equality is demanded although the two runs are scheduled differently: on an unbounded
//! transport each side's output is a function of its store and of the *sequence* of messages it
//! receives (the protocol never looks at timing), so the per-side transcripts are schedule
//! independent; the MemStore exploration checks exactly that independence over all schedules
//! within its bound.
#![allow(dead_code)]
use std::time::Duration;

use explorer::task::block_on_quiescent;
use explorer::Chooser;
use p2panda_core::{Hash, VerifyingKey};
use p2panda_store::logs::LogStore;
use p2panda_store::operations::OperationStore;
use p2panda_store::{SqliteStore, Transaction};
use p2panda_stream::ingest::ingest_operation;
use p2panda_sync::protocols::{LogSync, LogSyncEvent, Logs};
use p2panda_sync::traits::Protocol;
use tokio::sync::broadcast;

use crate::fixtures::{duplex, Cap, Ext, LogIdT, Op, TOPIC};
use crate::replica::{build, describe, stored_ops, Chains, Config};
use crate::session::{err_kind, run_pair, Evt, Msg, Outcome};

pub fn rt() -> tokio::runtime::Runtime {
    tokio::runtime::Builder::new_current_thread().enable_all().build().expect("runtime")
}

pub struct Transcript {
    pub outcome: [Outcome; 2],
    pub wire: [Vec<Msg>; 2],
    pub received: [Vec<Op>; 2],
    /// per side: result of ingesting each received operation, in order
    pub ingest: [Vec<Result<bool, String>>; 2],
    /// per side: height of every slot of the configuration after the ingest
    pub heights: [Vec<Option<u32>>; 2],
}

/// The operations are inserted in *descending* log order: the store accepts operations in any
/// order, and a replica's answer must not depend on the order in which its entries were stored.
async fn sql_fill(store: &SqliteStore, ops: &[Op]) -> Result<(), String> {
    for op in ops.iter().rev() {
        let permit = store.begin().await.map_err(|e| format!("begin: {e}"))?;
        <SqliteStore as OperationStore<Op, Hash>>::insert_operation(store, &op.hash, op, &op.header.extensions.log)
            .await
            .map_err(|e| format!("insert_operation: {e}"))?;
        store.commit(permit).await.map_err(|e| format!("commit: {e}"))?;
    }
    Ok(())
}

async fn sql_height(store: &SqliteStore, a: &VerifyingKey, l: LogIdT) -> Result<Option<u32>, String> {
    let e: Option<Op> = <SqliteStore as LogStore<Op, VerifyingKey, LogIdT, u32, Hash>>::get_latest_entry(store, a, &l)
        .await
        .map_err(|e| format!("get_latest_entry: {e}"))?;
    Ok(e.map(|o| o.header.seq_num))
}

/// The configuration on two real SqliteStores under a real (current-thread) tokio runtime.
pub fn run_sqlite(rt: &tokio::runtime::Runtime, chains: &Chains, cfg: &Config) -> Result<Transcript, String> {
    // the start branch of every select! is branch 0, as in the default MemStore execution
    tokio::verif::set_select_hook(Some(Box::new(|_| 0)));
    let r = rt.block_on(async {
        let stores = [SqliteStore::temporary().await, SqliteStore::temporary().await];
        let mut logs: [Logs<LogIdT>; 2] = [Default::default(), Default::default()];
        for side in 0..2 {
            for s in &cfg.slots {
                sql_fill(&stores[side], &stored_ops(chains, s, side)).await?;
            }
            // the Logs map is the one the MemStore replica uses
            logs[side] = build(chains, cfg, side).logs;
        }
        let ((mut a_tx, mut a_rx), (mut b_tx, mut b_rx)) = duplex::<Msg>(Cap::Unbounded);
        let st = [a_tx.st.clone(), b_tx.st.clone()];
        let (ev_a, mut evr_a) = broadcast::channel::<Evt>(64);
        let (ev_b, mut evr_b) = broadcast::channel::<Evt>(64);
        let pa = LogSync::<LogIdT, Ext, SqliteStore, Evt>::new(stores[0].clone(), logs[0].clone(), ev_a.clone());
        let pb = LogSync::<LogIdT, Ext, SqliteStore, Evt>::new(stores[1].clone(), logs[1].clone(), ev_b.clone());
        let joined = tokio::time::timeout(Duration::from_secs(20), async {
            tokio::join!(pa.run(&mut a_tx, &mut a_rx), pb.run(&mut b_tx, &mut b_rx))
        })
        .await;
        let Ok((ra, rb)) = joined else {
            return Err("session on SqliteStore did not complete within 20 s".to_string());
        };
        let outcome = [ra, rb].map(|r| match r {
            Ok(_) => Outcome::Ok,
            Err(e) => Outcome::Err(err_kind(&e)),
        });
        let mut received: [Vec<Op>; 2] = [vec![], vec![]];
        for (i, rx) in [&mut evr_a, &mut evr_b].into_iter().enumerate() {
            while let Ok(e) = rx.try_recv() {
                if let LogSyncEvent::OperationReceived { operation, .. } = e {
                    received[i].push(*operation);
                }
            }
        }
        let wire = [st[0].borrow().log.clone(), st[1].borrow().log.clone()];
        let mut ingest: [Vec<Result<bool, String>>; 2] = [vec![], vec![]];
        let mut heights: [Vec<Option<u32>>; 2] = [vec![], vec![]];
        for i in 0..2 {
            for op in &received[i] {
                let r = ingest_operation(&stores[i], op, &op.header.extensions.log, &TOPIC, op.header.extensions.prune).await;
                ingest[i].push(r.map_err(|e| format!("{e}")));
            }
            for s in &cfg.slots {
                heights[i].push(sql_height(&stores[i], &chains.authors[s.a], s.l).await?);
            }
        }
        Ok(Transcript { outcome, wire, received, ingest, heights })
    });
    tokio::verif::set_select_hook(None);
    r
}

/// The same configuration on MemStore under the default schedule of E-TASK.
pub fn run_mem(chains: &Chains, cfg: &Config) -> Result<Transcript, String> {
    let reps = [build(chains, cfg, 0), build(chains, cfg, 1)];
    let ch = Chooser::new(vec![]);
    let run = run_pair(&ch, [reps[0].store.clone(), reps[1].store.clone()], [reps[0].logs.clone(), reps[1].logs.clone()], Cap::Unbounded, 5_000);
    if let Some(p) = &run.panic {
        return Err(format!("MemStore run panicked: {p}"));
    }
    if run.end != explorer::task::End::AllDone {
        return Err(format!("MemStore run did not complete: {:?}", run.end));
    }
    let received = [run.received(0), run.received(1)];
    let mut ingest: [Vec<Result<bool, String>>; 2] = [vec![], vec![]];
    let mut heights: [Vec<Option<u32>>; 2] = [vec![], vec![]];
    for i in 0..2 {
        for op in &received[i] {
            let r = match block_on_quiescent(ingest_operation(&reps[i].store, op, &op.header.extensions.log, &TOPIC, op.header.extensions.prune), 10_000) {
                Ok(Ok(b)) => Ok(b),
                Ok(Err(e)) => Err(format!("{e}")),
                Err(e) => Err(format!("ingest did not complete: {e}")),
            };
            ingest[i].push(r);
        }
        for s in &cfg.slots {
            heights[i].push(crate::fixtures::height(&reps[i].store, &chains.authors[s.a], s.l));
        }
    }
    let PairRunParts { outcome, wire } = PairRunParts { outcome: run.outcome.clone(), wire: run.wire.clone() };
    Ok(Transcript { outcome, wire, received, ingest, heights })
}

struct PairRunParts {
    outcome: [Outcome; 2],
    wire: [Vec<Msg>; 2],
}

fn op_name(chains: &Chains, o: &Op) -> String {
    format!("author{}/log{}/seq{}", chains.author_index(&o.header.verifying_key), o.header.extensions.log, o.header.seq_num)
}

/// Differences between the two transcripts as (violation key, explanation).
pub fn compare(chains: &Chains, cfg: &Config, mem: &Transcript, sql: &Transcript) -> Vec<(String, String)> {
    let mut v = vec![];
    let name = ["A", "B"];
    for i in 0..2 {
        if mem.outcome[i] != sql.outcome[i] {
            v.push((
                "sqlite-differs-from-memstore/outcome".to_string(),
                format!("side {}: {:?} on SqliteStore, {:?} on the reference store. Configuration: {}", name[i], sql.outcome[i], mem.outcome[i], describe(cfg)),
            ));
            continue;
        }
        let (r_sql, r_mem): (Vec<String>, Vec<String>) = (sql.received[i].iter().map(|o| op_name(chains, o)).collect(), mem.received[i].iter().map(|o| op_name(chains, o)).collect());
        if r_sql != r_mem {
            let mut a = r_sql.clone();
            let mut b = r_mem.clone();
            a.sort();
            b.sort();
            let class = if a == b { "announced-operations/order" } else { "announced-operations/set" };
            v.push((
                format!("sqlite-differs-from-memstore/{class}"),
                format!("side {} was told about {r_sql:?} on SqliteStore and about {r_mem:?} on the reference store. Configuration: {}", name[i], describe(cfg)),
            ));
            continue;
        }
        if sql.wire[i] != mem.wire[i] {
            let pos = sql.wire[i].iter().zip(&mem.wire[i]).position(|(x, y)| x != y).unwrap_or(sql.wire[i].len().min(mem.wire[i].len()));
            v.push((
                "sqlite-differs-from-memstore/wire".to_string(),
                format!(
                    "side {} wrote {} messages on SqliteStore and {} on the reference store; first difference at message {pos}: {:?} vs {:?}. Configuration: {}",
                    name[i],
                    sql.wire[i].len(),
                    mem.wire[i].len(),
                    sql.wire[i].get(pos).map(|m| format!("{m}")),
                    mem.wire[i].get(pos).map(|m| format!("{m}")),
                    describe(cfg)
                ),
            ));
            continue;
        }
        let ok = |r: &Result<bool, String>| r.as_ref().map(|b| *b).map_err(|_| ());
        if sql.ingest[i].iter().map(ok).collect::<Vec<_>>() != mem.ingest[i].iter().map(ok).collect::<Vec<_>>() {
            v.push((
                "sqlite-differs-from-memstore/ingest-of-received".to_string(),
                format!("side {}: ingesting the received operations gives {:?} on SqliteStore and {:?} on the reference store. Configuration: {}", name[i], sql.ingest[i], mem.ingest[i], describe(cfg)),
            ));
            continue;
        }
        if sql.heights[i] != mem.heights[i] {
            v.push((
                "sqlite-differs-from-memstore/heights-after-ingest".to_string(),
                format!("side {}: heights per slot {:?} on SqliteStore, {:?} on the reference store. Configuration: {}", name[i], sql.heights[i], mem.heights[i], describe(cfg)),
            ));
        }
    }
    v
}
